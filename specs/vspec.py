"""Spec functions for validation (C13, C14, C16, C17), written from the property statements and the documented
tables (Python subset of pyvc; natively executable).  `ev_*` are the ghost functions standing for the outcome of
parsing + evaluating an expression (the contract of C04/C09); deeper levels of the AHB tree are referred to through
`abstract_list` / `abstract_value`, i.e. through the spec of the next level."""
from maus.models.edifact_components import DataElementDataType, DataElementFreeText, DataElementValuePool

from ahbicht.models.enums import ModalMark, PrefixOperator
from ahbicht.models.validation_results import (DataElementValidationResult, SegmentLevelValidationResult,
                                               ValidationResultInContext)
from ahbicht.models.validation_values import RequirementValidationValue
from specs.ghost import (abstract_list, abstract_value, concat, ev_fc_fulfilled, ev_fc_message, ev_fulfilled, ev_hints,
                         ev_indicator, ev_invalid, ev_reason)

REQ = RequirementValidationValue.IS_REQUIRED
OPTL = RequirementValidationValue.IS_OPTIONAL
FORB = RequirementValidationValue.IS_FORBIDDEN


# ---- documented mapping: requirement indicator x requirement outcome ---------------------------------------------------
def rewrite_soll(ind, soll):
    """C14: SOLL counts as MUSS (soll_is_required) or as KANN"""
    if ind == ModalMark.SOLL:
        if soll:
            return ModalMark.MUSS
        return ModalMark.KANN
    return ind


def spec_map_raises(f, ind, soll):
    """undetermined outcome at a MUSS / prefix-operator node: documented NotImplementedError"""
    return f is None and rewrite_soll(ind, soll) != ModalMark.KANN


def spec_map(f, ind, soll):
    ind2 = rewrite_soll(ind, soll)
    if f is False:
        return FORB
    if ind2 == ModalMark.KANN:
        return OPTL
    return REQ


# ---- documented table: parent x child ---------------------------------------------------------------------------------
def parent_ok(p):
    return p is None or p == REQ or p == OPTL


def spec_combine(p, c):
    if p is None or p == REQ:
        return c
    if c == REQ:
        return OPTL
    return c


# ---- a segment-level node (group or segment) ----------------------------------------------------------------------------
def own_status(expr, p, soll):
    if p == FORB:
        return FORB
    if ev_invalid(expr):
        return OPTL  # C16: an invalid expression makes the node optional
    return spec_combine(p, spec_map(ev_fulfilled(expr), ev_indicator(expr), soll))


def own_hints(expr, p):
    if p == FORB:
        return None
    if ev_invalid(expr):
        return ev_reason(expr)
    return ev_hints(expr)


def own_raises(expr, p, soll):
    return p != FORB and not ev_invalid(expr) and spec_map_raises(ev_fulfilled(expr), ev_indicator(expr), soll)


def head(level, p, soll):
    return ValidationResultInContext(
        discriminator=level.discriminator,
        validation_result=SegmentLevelValidationResult(requirement_validation=own_status(level.ahb_expression, p, soll),
                                                       hints=own_hints(level.ahb_expression, p)))


def flat_group(g, p, soll):
    """C13: a group, then its sub-groups, then its segments (each followed by its data elements); nothing below a
    forbidden node; children see the node's OWN status"""
    own = own_status(g.ahb_expression, p, soll)
    if own == FORB:
        return [head(g, p, soll)]
    subs = []
    if g.segment_groups:
        subs = concat([abstract_list("flat_group", c, own, soll) for c in g.segment_groups])
    segs = []
    if g.segments:
        segs = concat([abstract_list("flat_segment", s, own, soll) for s in g.segments])
    return [head(g, p, soll)] + subs + segs


def flat_segment(s, p, soll):
    own = own_status(s.ahb_expression, p, soll)
    if own == FORB:
        return [head(s, p, soll)]
    return [head(s, p, soll)] + [abstract_value("element", d, own, soll) for d in s.data_elements]


def deep(lines, soll):
    return concat([abstract_list("flat_group", g, None, soll) for g in lines])


def element(d, seg, soll):
    if isinstance(d, DataElementFreeText):
        return abstract_value("freetext", d, seg, soll)
    return abstract_value("valuepool", d, seg)


# ---- free-text data element ---------------------------------------------------------------------------------------------
def suffixed(status, filled):
    if status == REQ:
        if filled:
            return RequirementValidationValue.IS_REQUIRED_AND_FILLED
        return RequirementValidationValue.IS_REQUIRED_AND_EMPTY
    if status == OPTL:
        if filled:
            return RequirementValidationValue.IS_OPTIONAL_AND_FILLED
        return RequirementValidationValue.IS_OPTIONAL_AND_EMPTY
    if filled:
        return RequirementValidationValue.IS_FORBIDDEN_AND_FILLED
    return RequirementValidationValue.IS_FORBIDDEN_AND_EMPTY


def freetext_status(d, seg, soll):
    expr = d.ahb_expression
    if ev_invalid(expr):
        return OPTL
    filled = d.entered_input is not None and d.entered_input != ""
    return suffixed(spec_combine(seg, spec_map(ev_fulfilled(expr), ev_indicator(expr), soll)), filled)


# ---- value pool (C17) ------------------------------------------------------------------------------------------------------
def entry_ok(e):
    """an entry is offered iff its own expression's requirement outcome is fulfilled; an invalid expression counts as
    selectable (C16)"""
    if ev_invalid(e.ahb_expression):
        return True
    return ev_fulfilled(e.ahb_expression) is True


def offered(d, seg):
    if seg == FORB:
        return []
    if len(d.value_pool) == 1:
        return [(d.value_pool[0].qualifier, d.value_pool[0].meaning)]
    return [(e.qualifier, e.meaning) for e in d.value_pool if entry_ok(e)]


def is_offered(d, seg, value):
    return any(q == value for (q, m) in offered(d, seg))
