"""C01 (bounded stand-in) — condition expressions are grouped by the documented operator precedence.

Contract checked on the real `parse_condition_expression_to_tree` (DESIGN §4 C01):
    flatten(parse(s)) == flatten(T)            for every rendering s of a tree T (expected grouping known by construction)
    parse(s) is a binarisation of keep(s)      brackets bind tightest: a bracketed operand stays a subtree of its own, only
                                               the grouping inside a *written* run of one operator is free
    flatten(parse(s')) == flatten(parse(s))    for a re-spelling s' of s (operator spelling/case, whitespace), and s' obeys
                                               the same two clauses as s (so only grouping inside written runs may move)
    flatten(parse(s_red)) == flatten(parse(s)) for renderings with redundant brackets
    flatten(parse(w)) == ref_parse(w)          for flat operator words w (no brackets), ref_parse = precedence climbing
The oracle (`specs.refparser`, `bounded.exprgen`) never calls lark or ahbicht.
"""
from __future__ import annotations

import itertools
import random
import time
from typing import List

from bounded import exprgen as g
from bounded.common import pmap
from specs import refparser as ref


def _parse_real(text: str):
    """-> ("ok", binary tree) | ("raised", "ExcType: msg")"""
    from ahbicht.expressions.condition_expression_parser import parse_condition_expression_to_tree
    try:
        return "ok", g.lark_to_binary(parse_condition_expression_to_tree(text))
    except Exception as exc:  # noqa: a well-formed expression must be parsed; anything raised is a finding
        return "raised", f"{type(exc).__name__}: {str(exc)[:120]}"


def _check_text(text: str, expected_flat, keep, failures: List[dict], what: str):
    """grouping of one rendering; returns the real binary tree or None"""
    status, real = _parse_real(text)
    if status != "ok":
        failures.append({"input": text, "clause": "accepts-well-formed",
                         "message": f"well-formed expression ({what}) is not parsed: {real}",
                         "expected": repr(expected_flat), "observed": real})
        return None
    if ref.flatten(real) != expected_flat:
        failures.append({"input": text, "clause": "precedence-grouping",
                         "message": f"grouping differs from brackets > then_also > AND > XOR > OR ({what})",
                         "expected": repr(expected_flat), "observed": repr(ref.flatten(real))})
    elif keep is not None and not ref.refines(real, keep):
        failures.append({"input": text, "clause": "brackets-bind-tightest",
                         "message": f"a bracketed operand is not a subtree of its own ({what})",
                         "expected": repr(keep), "observed": repr(real)})
    return real


def _work_tree(item):
    """item = (binary labelled tree, seed, styles) -> (evaluations, failures, nontrivial-key or None)"""
    tree, seed, styles = item
    rng = random.Random(seed)
    expected = ref.flatten(tree)
    failures: List[dict] = []
    evaluations = 0
    for style in styles:
        text, keep = g.render(tree, style, rng, "upper", "none")
        # the oracle has to agree with itself (generator vs. precedence climbing); otherwise the checker is broken
        assert ref.ref_parse(text) == expected, (text, expected)
        assert ref.ref_parse(text, keep_brackets=True) == keep, (text, keep)
        real = _check_text(text, expected, keep, failures, f"{style} brackets")
        evaluations += 1
        variant = g.rewhitespace(g.respell(text, rng), rng)
        assert ref.ref_parse(variant, keep_brackets=True) == keep, (variant, keep)
        real_variant = _check_text(variant, expected, keep, failures, f"{style} brackets, re-spelled")
        evaluations += 1
        # NB: the trees are compared up to the grouping inside a written run of one operator.  Exact identity does
        # not hold on the real code and is not demanded by the property ("only the grouping inside a run of one and
        # the same operator is unspecified"): e.g. "[1]X[2]X[3]X[4]" nests to the left, "[1]x[2]x[3]⊻[4]" to the right,
        # because "X"i and "⊻" are different alternatives of the ambiguous rule.
        if real is not None and real_variant is not None and ref.flatten(real) != ref.flatten(real_variant):
            failures.append({"input": variant, "base": text, "clause": "respelling-invariance",
                             "message": "operator spelling / whitespace changed the resulting grouping",
                             "expected": repr(ref.flatten(real)), "observed": repr(ref.flatten(real_variant))})
    nontrivial = repr(expected) if len(ref.operators(expected)) >= 2 else None
    return evaluations, failures, nontrivial


def _work_word(item):
    """flat operator word: item = (ops tuple, seed)"""
    ops, seed = item
    rng = random.Random(seed)
    parts = ["[1]"]
    for i, op in enumerate(ops):
        sp = rng.choice(g.SPELLINGS[op])
        parts.append((" " + sp + " " if sp and rng.random() < 0.5 else sp) + f"[{i + 2}]")
    text = "".join(parts)
    expected = ref.ref_parse(text)
    failures: List[dict] = []
    _check_text(text, expected, None, failures, "flat operator word vs. precedence climbing")
    return 1, failures, (repr(expected) if len(set(ops)) >= 2 else None)


def _replay(f: dict):
    text = f["input"]
    code = ("from ahbicht.expressions.condition_expression_parser import parse_condition_expression_to_tree as p\n"
            f"print(p({text!r}).pretty())  # expected (flattened): {f.get('expected')}\n")
    if f["clause"] == "respelling-invariance":
        (s1, a), (s2, b) = _parse_real(f["base"]), _parse_real(text)
        code = ("from ahbicht.expressions.condition_expression_parser import parse_condition_expression_to_tree as p\n"
                f"print(p({f['base']!r}).pretty(), p({text!r}).pretty())  # must be equal up to runs of one operator\n")
        return s1 != s2 or (s1 == "ok" and ref.flatten(a) != ref.flatten(b)), code
    status, real = _parse_real(text)
    if f["clause"] == "accepts-well-formed":
        return status != "ok", code
    if status != "ok":
        return True, code
    if f["clause"] == "precedence-grouping":
        return repr(ref.flatten(real)) != f["expected"], code
    return repr(real) == f["observed"], code


def _collect(results):
    evaluations = sum(r[0] for r in results)
    failures = [f for r in results for f in r[1]]
    distinct = {r[2] for r in results if r[2] is not None}
    return evaluations, failures, distinct


def _atoms_for(idx: int, n: int):
    if idx % 2 == 0:
        return g.plain_atoms(n)
    k = idx % len(g.MIXED_ATOMS)
    return list(g.MIXED_ATOMS[k:] + g.MIXED_ATOMS[:k])


def _report(ctx, failures):
    by_clause = {}
    for f in failures:
        by_clause.setdefault(f["clause"], []).append(f)
    for clause in sorted(by_clause):
        g.report_failures(ctx, clause, by_clause[clause], _replay)


def run(ctx, tier: str, seed: int) -> None:
    ctx.trust("A-LARK-RESOLVE (the grouping is produced inside lark's Earley ambiguity resolution; only observed here)")
    rng = random.Random(seed)
    quick = tier == "quick"
    all_failures: List[dict] = []

    # ------------------------------------------------------------------ 1. every tree up to a leaf count, exhaustively
    # (a parse costs 5..30 ms, growing with the length: the sizes below are what fits the budgets)
    t0 = time.time()
    items, idx = [], 0
    for n in range(1, 6):
        for tree in g.enum_trees(n):
            items.append((g.label(tree, _atoms_for(idx, n)), rng.randrange(1 << 30), g.STYLES))
            idx += 1
    evaluations, failures, distinct = _collect(pmap(_work_tree, items))
    samples = [g.render(items[i][0], "min")[0] for i in (5, 40, 400, len(items) - 1) if i < len(items)]
    ctx.bounded(
        "C01 all trees <= 5 leaves", evaluations, len(distinct),
        "distinct expected flattened groupings containing at least two different operators (precedence matters); "
        "each tree is parsed in 3 bracket renderings (full / minimal / redundant) x 2 spellings (upper-case without "
        "whitespace; random spelling of each operator with random whitespace)",
        samples, exhaustive=True,
        bound=f"every binary tree over the 4 operators with 1..5 leaves ({len(items)} trees), leaves labelled "
              "alternately with plain keys and with the mixed pool (packages, repeatabilities, UBn); renderings seeded",
        seconds=time.time() - t0)
    all_failures.extend(failures)

    if not quick:
        t0 = time.time()
        items = []
        for tree in g.enum_trees(6):
            items.append((g.label(tree, _atoms_for(idx, 6)), rng.randrange(1 << 30), (g.STYLES[idx % 3],)))
            idx += 1
        evaluations, failures, distinct = _collect(pmap(_work_tree, items))
        ctx.bounded(
            "C01 all trees with 6 leaves", evaluations, len(distinct),
            "distinct expected flattened groupings with at least two different operators; each tree parsed in ONE "
            "bracket rendering (full / minimal / redundant in rotation) x 2 spellings",
            [g.render(items[i][0], "min")[0] for i in (7, 20000, len(items) - 1)], exhaustive=True,
            bound=f"every binary tree over the 4 operators with 6 leaves ({len(items)} trees); one seeded bracket "
                  "rendering per tree",
            seconds=time.time() - t0)
        all_failures.extend(failures)

    # ------------------------------------------------------------------ 2. sampled larger trees
    t0 = time.time()
    items = []
    if quick:
        plan = [(6, 250), (7, 150), (9, 60), (12, 20)]
    else:
        plan = [(7, 12000), (8, 800), (9, 500), (10, 300), (11, 200), (12, 150)]
    seen = set()
    for n, count in plan:
        tries = 0
        while count > 0 and tries < 50 * count + 1000:
            tries += 1
            tree = g.random_tree(rng, n)
            key = repr(tree)
            if key in seen:
                continue
            seen.add(key)
            styles = g.STYLES if quick else (g.STYLES[len(items) % 3],)
            items.append((g.label(tree, _atoms_for(len(items), n)), rng.randrange(1 << 30), styles))
            count -= 1
    evaluations, failures, distinct = _collect(pmap(_work_tree, items))
    ctx.bounded(
        "C01 sampled larger trees", evaluations, len(distinct),
        "distinct expected flattened groupings with at least two different operators among the sampled trees",
        [g.render(items[i][0], "min")[0] for i in (0, len(items) // 2, len(items) - 1)], exhaustive=False,
        bound="seeded uniform sample of binary trees: " + ", ".join(f"{c} with {n} leaves" for n, c in plan)
              + f" (there are {g.count_trees(7)} 7-leaf trees); "
              + ("3 bracket renderings x 2 spellings per tree" if quick else "1 bracket rendering x 2 spellings per tree"),
        seconds=time.time() - t0)
    all_failures.extend(failures)

    # ------------------------------------------------------------------ 3. flat operator words vs. precedence climbing
    t0 = time.time()
    max_operands = 6 if quick else 8
    words = []
    for n_ops in range(1, max_operands):
        for ops in itertools.product(g.OPS, repeat=n_ops):
            words.append((ops, rng.randrange(1 << 30)))
    evaluations, failures, distinct = _collect(pmap(_work_word, words))
    ctx.bounded(
        f"C01 flat operator words <= {max_operands} operands", evaluations, len(distinct),
        "distinct reference groupings of bracket-free words that mix at least two operators",
        ["[1]" + "".join(g.SPELLINGS[o][0] + f"[{i + 2}]" for i, o in enumerate(w[0])) for w in words[5:200:60]],
        exhaustive=True,
        bound=f"every bracket-free word over or/xor/and/then_also with 2..{max_operands} operands ({len(words)} words), "
              "one seeded spelling each, compared with the precedence-climbing reference parser",
        seconds=time.time() - t0)
    all_failures.extend(failures)
    _report(ctx, all_failures)
