"""C14 (bounded stand-in, API-level backstop) — soll_is_required is equivalent to rewriting SOLL at every level.

For every enumerated tree, content evaluation result and flag value b the REAL validation with soll_is_required=b
is compared with the REAL validation of the AHB in which every SOLL/S indicator (any spelling/case) is textually
replaced by Muss (b=True) resp. Kann (b=False) — complete result lists (discriminators, statuses, hints, format
results, possible values), or the same escaping exception (an undetermined SOLL node raises NotImplementedError iff
it is read as MUSS).  The rewritten AHB contains no SOLL, so it is validated with the same flag and, in addition,
with the opposite flag (both must give the same list).  The rewriting (specs.validation_spec.rewrite_soll) is the
only oracle ingredient; entry points: validate_deep_anwendungshandbuch, validate_segment_level, validate_segment.
"""
from __future__ import annotations

import copy
import itertools
import random
from typing import Any, List

from bounded import ahbgen as G
from specs import validation_spec as S

MODULE = "bounded.c14"


def _first_segment(group_obj):
    if group_obj.segments:
        return group_obj.segments[0]
    for g in group_obj.segment_groups or []:
        s = _first_segment(g)
        if s is not None:
            return s
    return None


def _call(entry: str, ahb, cer: int, soll: bool, parent):
    if entry == "deep":
        return G.call_real("validate_deep_anwendungshandbuch", cer, copy.deepcopy(ahb), soll)
    if entry == "level_group":
        return G.call_real("validate_segment_level", cer, copy.deepcopy(ahb.lines[0]), soll)
    seg = _first_segment(ahb.lines[0])
    if seg is None:
        return G.call_real("validate_segment_level", cer, copy.deepcopy(ahb.lines[0]), soll)
    if entry == "level_segment":
        return G.call_real("validate_segment_level", cer, copy.deepcopy(seg), soll)
    # entry == "segment": validate_segment(segment, parent status, flag)
    return G.call_real("validate_segment", cer, copy.deepcopy(seg), G.status_value(parent), soll)


def _norm(how: str, res: Any):
    return ["raised", res.split(":")[0]] if how == "raised" else G.plain(res)


def check_case(case: dict) -> dict:
    """case: {"lines": plan, "cer": int, "soll": bool, "entry": "deep"|"level_group"|"level_segment"|"segment",
    "parent": None|"IS_REQUIRED"|"IS_OPTIONAL"}"""
    lines, cer, soll, entry = case["lines"], case["cer"], case["soll"], case["entry"]
    parent = case.get("parent")
    rewritten = G.map_slots(lines, lambda i, k, e: S.rewrite_soll(e, soll))
    n_soll = sum(1 for _, _, _, e in G.slots(lines) if S.has_soll(e))
    assert not any(S.has_soll(e) for _, _, _, e in G.slots(rewritten))
    ahb, ahb_rw = G.build_ahb(lines), G.build_ahb(rewritten)
    flagged = _norm(*_call(entry, ahb, cer, soll, parent))
    same = _norm(*_call(entry, ahb_rw, cer, soll, parent))
    opposite = _norm(*_call(entry, ahb_rw, cer, not soll, parent))
    out = {"verdict": "ok", "message": "", "runs": 3, "raised": flagged[:1] == ["raised"],
           "nontrivial": n_soll >= 1 and G.levels(lines) >= 2 and flagged[:1] != ["raised"] and len(flagged) >= 2}
    word = "Muss" if soll else "Kann"
    for label, other in ((f"the AHB with SOLL replaced by {word}", same),
                         (f"the AHB with SOLL replaced by {word} validated with the opposite flag", opposite)):
        if flagged != other:
            diff = _first_difference(flagged, other)
            out.update(verdict="mismatch", kind=diff.split(":")[0], expected=other, observed=flagged,
                       message=f"soll_is_required={soll} differs from {label}: {diff}")
            break
    return out


def _first_difference(a: Any, b: Any) -> str:
    if a[:1] == ["raised"] or b[:1] == ["raised"]:
        return f"escaping exception: with the flag {a if a[:1] == ['raised'] else 'a result list'}, " \
               f"rewritten {b if b[:1] == ['raised'] else 'a result list'}"
    if [x["discriminator"] for x in a] != [x["discriminator"] for x in b]:
        return f"reported nodes: {[x['discriminator'] for x in a]} vs {[x['discriminator'] for x in b]}"
    for x, y in zip(a, b):
        if x != y:
            keys = [k for k in x if x.get(k) != y.get(k)]
            k = keys[0]
            return f"{x['class']} field {k} of {x['discriminator']}: with the flag {x.get(k)!r}, rewritten {y.get(k)!r}"
    return "?"


# ------------------------------------------------------------------------------------------------ spaces
def chain(pool, cers) -> List[dict]:
    out = []
    for n, (e1, e2, e3) in enumerate(itertools.product(pool, repeat=3)):
        lines = [G.group(e1, segments=[G.segment(e2, [G.freetext(e3, G.FREETEXT_INPUTS[n % 3])])])]
        for c in cers:
            for soll in (True, False):
                out.append({"lines": lines, "cer": c, "soll": soll, "entry": "deep", "parent": None})
    return out


def segment_entry(pool, cers) -> List[dict]:
    """validate_segment / validate_segment_level called directly on segment > [free text, free text]"""
    out = []
    for n, (e1, e2, e3) in enumerate(itertools.product(pool, repeat=3)):
        lines = [G.group("Muss", segments=[G.segment(e1, [G.freetext(e2, None), G.freetext(e3, "abc")])])]
        for c in cers:
            for soll in (True, False):
                for entry, parent in (("level_segment", None), ("segment", "IS_REQUIRED"), ("segment", "IS_OPTIONAL")):
                    out.append({"lines": lines, "cer": c, "soll": soll, "entry": entry, "parent": parent})
    return out


def sampled(rng: random.Random, n: int, depth: int, pool, entry_pool, cers) -> List[dict]:
    out = []
    for _ in range(n):
        lines = G.random_lines(rng, depth, 2, pool, entry_pool, max_pool=3, max_lines=2)
        r = rng.random()
        entry, parent = "deep", None
        if r > 0.9:
            entry, parent = "segment", rng.choice([None, "IS_REQUIRED", "IS_OPTIONAL"])
        elif r > 0.8:
            entry = "level_segment"
        elif r > 0.65:
            entry = "level_group"
        out.append({"lines": lines, "cer": rng.choice(cers), "soll": rng.random() < 0.5, "entry": entry,
                    "parent": parent})
    return out


RULE = ("distinct (tree, content evaluation result, flag, entry point) whose tree has >= 2 levels and >= 1 SOLL "
        "indicator and whose flagged run reports >= 2 nodes (evaluations = real validation runs: flagged, rewritten, "
        "rewritten with the opposite flag)")


def run(ctx, tier: str, seed: int) -> None:
    rng = random.Random(seed)
    thorough = tier == "thorough"
    cers = [0, 1, 2, 4, 5] if thorough else [0, 1, 2]
    pool = G.POOL_C14 if thorough else G.POOL_C14[:10]
    entry_pool = ["X", "X [1]", "X [2]", "S [1]", "Soll [2] O [501]"]   # SOLL in a pool entry: only fulfilment counts
    G.run_cases(ctx, "chain-group-segment-freetext", chain(pool, cers), check_case, MODULE, RULE, exhaustive=True,
                bound=f"group > segment > free text; every expression triple from a pool of {len(pool)} (SOLL as "
                      f"Soll/S/soll/SOLL/sOLL, bare, with conditions, in multi modal mark expressions, with hint, format "
                      f"constraint, package, invalid, undetermined) x {len(cers)} content evaluation results x both flags")
    small = pool[:7] if not thorough else pool
    G.run_cases(ctx, "segment-entry-points", segment_entry(small, cers), check_case, MODULE, RULE, exhaustive=True,
                bound=f"segment > two free texts; every expression triple from a pool of {len(small)} x {len(cers)} "
                      f"content evaluation results x both flags x validate_segment_level / validate_segment with "
                      f"parent IS_REQUIRED / IS_OPTIONAL")
    depth, n = (3, 60_000) if thorough else (2, 7_000)
    G.run_cases(ctx, f"sampled-trees-depth{depth}", sampled(rng, n, depth, G.POOL_C14, entry_pool, cers), check_case,
                MODULE, RULE, exhaustive=False,
                bound=f"{n} seeded random trees (1-2 root groups, <= {depth} nested group levels, <= 2 children of "
                      f"each kind, pools <= 3 entries), expressions from a pool of {len(G.POOL_C14)}, {len(cers)} "
                      f"content evaluation results, both flags, all four entry points")
    from bounded import valhist
    valhist.run_histories(ctx, tier, seed + 14, list(pool), entry_pool, cers)
