"""C15 - each data element's format constraints see only that element's own input: hybrid (ghost context-local state +
A-ASYNCIO; bounded adversarial schedules)."""
import ast
import time

from checks.common import prove, run_bounded, verifier
from vlib.report import Ctx

LEVEL = "other"
TARGETS = ["ahbicht.validation.validation:validate_data_element_freetext",
           "ahbicht.content_evaluation.fc_evaluators:FcEvaluator.evaluate_single_format_constraint"]
VAR = "text_to_be_evaluated_by_format_constraint"


def single_writer(ctx: Ctx) -> None:
    """the context variable is written at exactly one place in ahbicht: inside validate_data_element_freetext"""
    v = verifier()
    t0 = time.time()
    writers = []
    for name, mod in v.ex.repo.modules.items():
        if not name.startswith("ahbicht"):
            continue
        for node in ast.walk(mod.tree):
            if isinstance(node, ast.Call) and isinstance(node.func, ast.Attribute) and node.func.attr in ("set", "reset") \
                    and VAR in ast.unparse(node.func.value):
                fn = next((f for f in ast.walk(mod.tree) if isinstance(f, (ast.FunctionDef, ast.AsyncFunctionDef))
                           and f.lineno <= node.lineno <= (f.end_lineno or f.lineno)), None)
                writers.append(f"{name}:{fn.name if fn else '<module>'}")
    ok = writers == ["ahbicht.validation.validation:validate_data_element_freetext"]
    ctx.obligation("contextvar/single-writer-inside-the-element's-own-coroutine", "discharged" if ok else "undecided",
                   backend="syntactic", seconds=time.time() - t0,
                   detail=f"writers of {VAR}: {writers}")


def run(ctx: Ctx) -> None:
    ctx.explanation = (
        "ghost state ctx.text = value of the ContextVar in the current context, with A-ASYNCIO's transfer rules (await: "
        "same context; gather: copy-in, no copy-out). PROVED (z3): in validate_data_element_freetext the expression is "
        "evaluated with ctx.text == the element's own entered_input (the set precedes the evaluation, nothing in between "
        "writes it), its result depends on nothing but (element, segment status, flag); "
        "FcEvaluator.evaluate_single_format_constraint hands exactly ctx.text to the evaluation method; the variable "
        "has a single writer in the whole code base, inside the element's own coroutine. BOUNDED: adversarial "
        "schedules over segments with several free-text elements on the real event loop.")
    ctx.trust("A-ASYNCIO (M1 await shares the context, M2 gather copies it per task, M4 ContextVar is context-local)")
    prove(ctx, TARGETS)
    single_writer(ctx)
    run_bounded(ctx, "C15")
