"""Contracts of ahbicht.validation.validation (C13, C14, C16, C17, C15) and the modular view of the two functions it
calls for every expression: parse_expression_including_unresolved_subexpressions and evaluate_ahb_expression_tree
(whose own verification is in contracts/ahb_evaluation.py / contracts/resolver.py)."""
import z3

from ahbicht.models.validation_results import (DataElementValidationResult, SegmentLevelValidationResult,
                                               ValidationResultInContext)
from ahbicht.models.validation_values import RequirementValidationValue
from maus.models.edifact_components import DataElementDataType
from contracts import validation_replay as _vr
from pyvc import lists as L
from pyvc.contracts import (AnyOf, Bool, Const, Enum, Inst, OneOfEnums, Opt, Raw, SeqOf, Str, contract, lemma)
from pyvc.values import ListObj, Obj, Opaque, Sc, SV, mk_b, mk_s
from specs.ghost import (abstract_list, abstract_value, ev_fc_fulfilled, ev_fc_message, ev_fulfilled, ev_hints,
                         ev_indicator, ev_invalid, ev_reason)
from specs.vspec import (FORB, OPTL, REQ, deep, element, flat_group, flat_segment, freetext_status, head, is_offered,
                         offered, own_hints, own_raises, own_status, parent_ok, spec_combine, spec_map, spec_map_raises)

V = "ahbicht.validation.validation:"
RVV = "RequirementValidationValue"
SEG3 = ["IS_REQUIRED", "IS_OPTIONAL", "IS_FORBIDDEN"]


# ------------------------------------------------------------------------------------ modular view of parse + evaluate
@contract("ahbicht.expressions.expression_resolver:parse_expression_including_unresolved_subexpressions",
          prop=["C02", "C10"], name="ResolverModular")
class Resolver:
    """modular view for callers: a tree that remembers which expression it was parsed from, or SyntaxError (C02) /
    NotImplementedError (unknown package, C10) / whatever a user-supplied package resolver raises"""
    cases = [dict(expression=Str(), resolve_packages=Const(False), replace_time_conditions=Bool()),
             dict(expression=Str(), resolve_packages=Const(True), replace_time_conditions=Bool())]
    raises = {"SyntaxError": None, "NotImplementedError": "onlyif_packages_are_resolved",
              "Exception": "onlyif_packages_are_resolved", "ValueError": "onlyif_packages_are_resolved"}
    clause_props = {"raises-NotImplementedError": ["C02", "C10"], "raises-Exception": ["C02", "C10"],
                    "raises-ValueError": ["C02", "C10"], "raises-only-declared": ["C02"],
                    "post_packages_before_time_conditions": ["C10"]}
    never_raises = ["VisitError"]

    def post_packages_before_time_conditions(expression, resolve_packages, replace_time_conditions, result,
                                             ghost_ExpandPackages_result, ghost_ExpandTimeConditions_parsed_tree):
        """time conditions are replaced in the tree that already contains the expanded packages"""
        if resolve_packages and replace_time_conditions:
            return ghost_ExpandTimeConditions_parsed_tree is ghost_ExpandPackages_result
        return True

    def setup(ex, st, values):
        from pyvc.values import sv_none
        for g in ("ExpandPackages_result", "ExpandTimeConditions_parsed_tree"):
            st.ghost[g] = sv_none()

    def onlyif_packages_are_resolved(expression, resolve_packages, replace_time_conditions):
        return resolve_packages

    def hook(ex, st, bound):
        outs = []
        kinds = ["SyntaxError"] + (["NotImplementedError", "Exception"]
                                   if not z3.is_false(z3.simplify(ex.truth(st, bound["resolve_packages"]))) else [])
        for k in kinds:
            msg = SV(mk_s(ex.fresh("msg", z3.StringSort())), "str")
            s_r = st.fork()
            s_r.ghost["raised_" + k] = SV(mk_b(True), "bool")
            outs.append(ex.raise_(s_r, k, msg))
        outs.append((st, Opaque("inst:Tree", bound["expression"])))
        return outs


def _opt_str(ex, st, t):
    st.assume(z3.Or(Sc.is_none(t), Sc.is_s(t)))
    return SV(t, None)


@contract("ahbicht.expressions.ahb_expression_evaluation:evaluate_ahb_expression_tree", prop=["C09"],
          name="EvaluateAhbModular")
class EvaluateAhb:
    """modular view for validation: the result is a function of the expression the tree was parsed from (and, for the
    format result, of the context-local text): ev_*; InvalidExpressionError iff the expression is invalid (structural,
    C06); anything a user-supplied evaluator raises"""
    params = dict(parsed_tree=Raw(lambda ex, st, n: Opaque("inst:Tree", Str().make(ex, st, "expr"))))
    raises = {"InvalidExpressionError": None, "Exception": None, "NotImplementedError": None}
    never_raises = ["VisitError"]  # lark's wrapper must not escape: the callback's own exception does

    def hook(ex, st, bound):
        from pyvc import ghosts
        tree = bound["parsed_tree"]
        expr = tree.data
        if expr is None:
            raise Exception("tree without a source expression")
        outs = []
        (_, inv), = ghosts.ev_invalid(ex, st, [expr], {}, None)
        for s, bad in ex.branch(st, Sc.bv(inv.t)):
            if bad:
                (_, reason), = ghosts.ev_reason(ex, s, [expr], {}, None)
                outs.append(ex.raise_(s, "InvalidExpressionError", reason, error_message=reason,
                                      invalid_expression=SV(Sc.none, "none")))
                continue
            outs.append(ex.raise_(s.fork(), "Exception", None))
            ctx = s.ghost.get("ctx")
            if ctx is None:
                ctx = ex.fresh_sv("ctx_text_at_entry")
                s.assume(z3.Or(Sc.is_none(ctx.t), Sc.is_s(ctx.t)), axiom=True)
                s.ghost["ctx"] = ctx
            s.ghost.setdefault("evaluated_with_ctx", []).append((expr, ctx))
            (_, ind), = ghosts.ev_indicator(ex, s, [expr], {}, None)
            (_, f), = ghosts.ev_fulfilled(ex, s, [expr], {}, None)
            (_, h), = ghosts.ev_hints(ex, s, [expr], {}, None)
            (_, fok), = ghosts.ev_fc_fulfilled(ex, s, [expr, ctx], {}, None)
            (_, fmsg), = ghosts.ev_fc_message(ex, s, [expr, ctx], {}, None)
            rc = ex.alloc(s, Obj("RequirementConstraintEvaluationResult", {
                "requirement_constraints_fulfilled": f, "requirement_is_conditional": ex.fresh_sv("cond"),
                "format_constraints_expression": ex.fresh_sv("fce"), "hints": h}))
            fc = ex.alloc(s, Obj("FormatConstraintEvaluationResult", {
                "format_constraints_fulfilled": fok, "error_message": fmsg}))
            res = ex.alloc(s, Obj("AhbExpressionEvaluationResult", {
                "requirement_indicator": ind, "requirement_constraint_evaluation_result": rc,
                "format_constraint_evaluation_result": fc}))
            outs.append((s, res))
        return outs


# ------------------------------------------------------------------------------------ the two tables
@contract(V + "map_requirement_validation_values", prop=["C13", "C14"])
class MapValues:
    runtime_checkable = True
    params = dict(requirement_constraints_are_fulfilled=Opt(Bool()),
                  requirement_indicator=OneOfEnums("ModalMark", "PrefixOperator"), soll_is_required=Bool())
    raises = {"NotImplementedError": "raises_undetermined"}

    def raises_undetermined(requirement_constraints_are_fulfilled, requirement_indicator, soll_is_required):
        return spec_map_raises(requirement_constraints_are_fulfilled, requirement_indicator, soll_is_required)

    def post_documented_mapping(requirement_constraints_are_fulfilled, requirement_indicator, soll_is_required, result):
        return result == spec_map(requirement_constraints_are_fulfilled, requirement_indicator, soll_is_required)

    def model(requirement_constraints_are_fulfilled, requirement_indicator, soll_is_required):
        if spec_map_raises(requirement_constraints_are_fulfilled, requirement_indicator, soll_is_required):
            raise NotImplementedError("undetermined")
        return spec_map(requirement_constraints_are_fulfilled, requirement_indicator, soll_is_required)


@contract(V + "combine_requirements_of_different_levels", prop=["C13", "C16"])
class Combine:
    runtime_checkable = True
    params = dict(parent_level_requirement=Opt(Enum(RVV)), child_level_requirement=Enum(RVV))
    raises = {"ValueError": "raises_bad_parent"}

    def raises_bad_parent(parent_level_requirement, child_level_requirement):
        return not parent_ok(parent_level_requirement)

    def post_documented_table(parent_level_requirement, child_level_requirement, result):
        return result == spec_combine(parent_level_requirement, child_level_requirement)

    def model(parent_level_requirement, child_level_requirement):
        if not parent_ok(parent_level_requirement):
            raise ValueError("Unexpected parent_level_requirement value")
        return spec_combine(parent_level_requirement, child_level_requirement)


# ------------------------------------------------------------------------------------ maus objects (A-MAUS)
def _level(cls, **extra):
    return Inst(cls, discriminator=Str(), ahb_expression=Str(), **extra)


def _entry(ex, st, name, i):
    return Inst("ValuePoolEntry", qualifier=Str(nonempty=True), meaning=Str(), ahb_expression=Str()).make(ex, st, name)


def _free_text():
    return Inst("DataElementFreeText", discriminator=Opt(Str()), ahb_expression=Str(), entered_input=Opt(Str()),
                value_type=Opt(Enum("DataElementDataType")))


def _value_pool():
    return Inst("DataElementValuePool", discriminator=Opt(Str()), entered_input=Opt(Str()),
                value_type=Opt(Enum("DataElementDataType")), value_pool=SeqOf(_entry))


def _any_element(ex, st, name, i):
    """generic data element of a segment: its class is opaque here - the dispatching function has its own contract"""
    return Inst("DataElement", discriminator=Opt(Str())).make(ex, st, name)


def _segment(ex, st, name, i=None):
    return _level("Segment", data_elements=SeqOf(_any_element)).make(ex, st, name)


def _group_leaf(ex, st, name, i=None):
    return _level("SegmentGroup").make(ex, st, name)


PARENT = Opt(Enum(RVV, among=SEG3))


# ------------------------------------------------------------------------------------ own status of a segment-level node
@contract(V + "get_segment_level_requirement_validation_value", prop=["C13", "C14", "C16"])
class OwnStatus:
    """own status = documented mapping of (indicator, outcome) combined with the parent's status; an invalid
    expression makes the node optional with the reason as hint (C16); NotImplementedError for an undetermined
    MUSS/prefix node"""
    concretize = _vr.concretize
    replay_is_conclusive = False
    call_native = _vr.make_call_native("get_segment_level_requirement_validation_value")
    params = dict(segment_level=_level("SegmentGroup"), parent_segment_group_requirement=PARENT,
                  soll_is_required=Bool())
    raises = {"NotImplementedError": None, "SyntaxError": None, "Exception": None}
    returns = Inst("SegmentLevelValidationResult", requirement_validation=Enum(RVV, among=SEG3), hints=Opt(Str()))

    def pre(segment_level, parent_segment_group_requirement, soll_is_required):
        return parent_segment_group_requirement != FORB

    def post_status(segment_level, parent_segment_group_requirement, soll_is_required, result):
        return result.requirement_validation == own_status(segment_level.ahb_expression,
                                                           parent_segment_group_requirement, soll_is_required)

    def post_hints(segment_level, parent_segment_group_requirement, soll_is_required, result):
        return result.hints == own_hints(segment_level.ahb_expression, parent_segment_group_requirement)

    def post_undetermined_never_returns(segment_level, parent_segment_group_requirement, soll_is_required, result):
        return not own_raises(segment_level.ahb_expression, parent_segment_group_requirement, soll_is_required)

    def post_is_segment_level_value(segment_level, parent_segment_group_requirement, soll_is_required, result):
        return result.requirement_validation == REQ or result.requirement_validation == OPTL \
            or result.requirement_validation == FORB


# ------------------------------------------------------------------------------------ list-shaped functions
def _abs_list(name):
    def hook(ex, st, bound):
        args = [bound[k] for k in ORDER[name]]
        outs = []
        for k in ("NotImplementedError", "SyntaxError", "Exception"):
            outs.append(ex.raise_(st.fork(), k, None))
        outs.append((st, ex.alloc(st, ListObj(L.LT([L.Abs(name, args)])))))
        return outs
    return hook


ORDER = {"flat_group": ["segment_group", "parent_segment_group_requirement", "soll_is_required"],
         "flat_segment": ["segment", "segment_group_requirement", "soll_is_required"]}
MAY = {"NotImplementedError": None, "SyntaxError": None, "Exception": None}
# user code (evaluators, providers) is modelled as raising `Exception` itself; the classes below can only come from the
# code under verification (a local read before it was bound, a missing attribute ...) and are never acceptable
BOOKKEEPING = ["UnboundLocalError", "NameError", "AttributeError", "IndexError"]


def _groups(ex, st, name, i=None):
    return SeqOf(_group_leaf).make(ex, st, name)


@contract(V + "validate_segment_group", prop=["C13", "C14", "C16"])
class ValidateSegmentGroup:
    """result == flat_group(group, parent, soll): the group, then its sub-groups, then its segments, each through the
    spec of the next level; nothing below a forbidden node; InvalidExpressionError never escapes"""
    concretize = _vr.concretize
    replay_is_conclusive = False
    call_native = _vr.make_call_native("validate_segment_group")
    cases = [dict(segment_group=_level("SegmentGroup", segment_groups=SeqOf(_group_leaf), segments=SeqOf(_segment)),
                  parent_segment_group_requirement=PARENT, soll_is_required=Bool()),
             dict(segment_group=_level("SegmentGroup", segment_groups=Const(None), segments=SeqOf(_segment)),
                  parent_segment_group_requirement=PARENT, soll_is_required=Bool()),
             dict(segment_group=_level("SegmentGroup", segment_groups=SeqOf(_group_leaf), segments=Const(None)),
                  parent_segment_group_requirement=PARENT, soll_is_required=Bool()),
             dict(segment_group=_level("SegmentGroup", segment_groups=Const(None), segments=Const(None)),
                  parent_segment_group_requirement=PARENT, soll_is_required=Bool())]
    raises = MAY
    never_raises = BOOKKEEPING
    hook = _abs_list("flat_group")

    def post_flat(segment_group, parent_segment_group_requirement, soll_is_required, result):
        return result == flat_group(segment_group, parent_segment_group_requirement, soll_is_required)


@contract(V + "validate_segment", prop=["C13", "C14", "C16"])
class ValidateSegment:
    """result == flat_segment(segment, parent, soll): the segment followed by its data elements in order"""
    concretize = _vr.concretize
    replay_is_conclusive = False
    call_native = _vr.make_call_native("validate_segment")
    params = dict(segment=_level("Segment", data_elements=SeqOf(_any_element)), segment_group_requirement=PARENT,
                  soll_is_required=Bool())
    raises = MAY
    never_raises = BOOKKEEPING
    hook = _abs_list("flat_segment")

    def post_flat(segment, segment_group_requirement, soll_is_required, result):
        return result == flat_segment(segment, segment_group_requirement, soll_is_required)


@contract(V + "validate_deep_anwendungshandbuch", prop=["C13", "C14", "C16"])
class ValidateDeep:
    concretize = _vr.concretize
    replay_is_conclusive = False
    call_native = _vr.make_call_native("validate_deep_anwendungshandbuch")
    params = dict(deep_ahb=Inst("DeepAnwendungshandbuch", lines=SeqOf(_group_leaf)), soll_is_required=Bool())
    raises = MAY
    never_raises = BOOKKEEPING

    def post_deep(deep_ahb, soll_is_required, result):
        return result == deep(deep_ahb.lines, soll_is_required)


@contract(V + "validate_segment_level", prop=["C13", "C14"])
class ValidateSegmentLevel:
    cases = [dict(segment_level=_level("SegmentGroup"), soll_is_required=Bool()),
             dict(segment_level=_level("Segment"), soll_is_required=Bool())]
    raises = MAY
    never_raises = BOOKKEEPING

    def post_dispatch(segment_level, soll_is_required, result):
        from maus.models.edifact_components import SegmentGroup
        if isinstance(segment_level, SegmentGroup):
            return result == abstract_list("flat_group", segment_level, None, soll_is_required)
        return result == abstract_list("flat_segment", segment_level, None, soll_is_required)


# ------------------------------------------------------------------------------------ data elements
def _abs_value(name, order):
    def hook(ex, st, bound):
        from pyvc import ghosts
        args = [bound[k] for k in order]
        outs = []
        for k in ("NotImplementedError", "SyntaxError", "Exception"):
            outs.append(ex.raise_(st.fork(), k, None))
        (_, v), = ghosts.abstract_value(ex, st, [SV(mk_s(name), "str")] + args, {}, None)
        outs.append((st, v))
        return outs
    return hook


@contract(V + "validate_data_element", prop=["C13", "C14"])
class ValidateDataElement:
    """dispatch by class; the flag is forwarded to free-text elements (value pools do not depend on it)"""
    concretize = _vr.concretize
    replay_is_conclusive = False
    call_native = _vr.make_call_native("validate_data_element")
    cases = [dict(data_element=_free_text(), segment_requirement=Enum(RVV, among=SEG3), soll_is_required=Bool()),
             dict(data_element=_value_pool(), segment_requirement=Enum(RVV, among=SEG3), soll_is_required=Bool())]
    raises = MAY
    never_raises = BOOKKEEPING
    hook = _abs_value("element", ["data_element", "segment_requirement", "soll_is_required"])

    def post_dispatch(data_element, segment_requirement, soll_is_required, result):
        return result == element(data_element, segment_requirement, soll_is_required)


@contract(V + "validate_data_element_freetext", prop=["C13", "C14", "C15", "C16"])
class ValidateFreeText:
    """status = suffixed(combine(segment, map(outcome, indicator, soll))) by the entered input; invalid expression ->
    IS_OPTIONAL with the reason as hint and a fulfilled format result; the expression is evaluated with the
    context-local text set to this element's own input (C15)"""
    concretize = _vr.concretize
    replay_is_conclusive = False
    call_native = _vr.make_call_native("validate_data_element_freetext")
    params = dict(data_element=_free_text(), segment_requirement=Opt(Enum(RVV, among=["IS_REQUIRED", "IS_OPTIONAL"])),
                  soll_is_required=Bool())
    raises = MAY
    never_raises = BOOKKEEPING
    hook = _abs_value("freetext", ["data_element", "segment_requirement", "soll_is_required"])
    clause_props = {"post_evaluated_with_own_input": ["C15"], "post_invalid_is_optional": ["C16"],
                    "post_status": ["C13", "C14"], "post_format_result_and_hints": ["C13", "C15"]}

    def post_status(data_element, segment_requirement, soll_is_required, result):
        return result.discriminator == data_element.discriminator \
            and result.validation_result.requirement_validation == freetext_status(data_element, segment_requirement,
                                                                                   soll_is_required)

    def post_invalid_is_optional(data_element, segment_requirement, soll_is_required, result):
        if not ev_invalid(data_element.ahb_expression):
            return True
        r = result.validation_result
        return r.requirement_validation == OPTL and r.format_validation_fulfilled is True \
            and r.format_error_message is None and r.hints == ev_reason(data_element.ahb_expression)

    def post_format_result_and_hints(data_element, segment_requirement, soll_is_required, result):
        if ev_invalid(data_element.ahb_expression):
            return True
        r = result.validation_result
        return r.format_validation_fulfilled == ev_fc_fulfilled(data_element.ahb_expression, data_element.entered_input) \
            and r.format_error_message == ev_fc_message(data_element.ahb_expression, data_element.entered_input) \
            and r.hints == ev_hints(data_element.ahb_expression)

    def post_evaluated_with_own_input(data_element, segment_requirement, soll_is_required, result, ghost_ctx):
        """C15: when the expression is evaluated the context-local text is this element's entered input"""
        return ghost_ctx == data_element.entered_input


@contract(V + "validate_data_element_valuepool", prop=["C17", "C16"])
class ValidateValuePool:
    """offered = qualifiers whose own expression is fulfilled (invalid: selectable), in pool order; single-entry pools
    always offer their entry; nothing offered or forbidden segment -> IS_FORBIDDEN; entered value accepted iff
    offered; unexpected value flagged, reported empty and reset"""
    concretize = _vr.concretize
    replay_is_conclusive = False
    call_native = _vr.make_call_native("validate_data_element_valuepool")
    params = dict(data_element=_value_pool(), segment_requirement=Enum(RVV, among=SEG3))
    raises = MAY
    never_raises = BOOKKEEPING
    hook = _abs_value("valuepool", ["data_element", "segment_requirement"])

    def pre(data_element, segment_requirement):
        return True

    def post_offered_in_pool_order(data_element, segment_requirement, result):
        return list(result.validation_result.possible_values.items()) == offered(data_element, segment_requirement)

    def post_status_and_flag(data_element, segment_requirement, result, ghost_entered_at_entry):
        r = result.validation_result
        entered = ghost_entered_at_entry
        if not offered(data_element, segment_requirement):
            return r.requirement_validation == FORB and r.format_validation_fulfilled is True
        if is_offered(data_element, segment_requirement, entered):
            return r.requirement_validation == RequirementValidationValue.IS_REQUIRED_AND_FILLED \
                and r.format_validation_fulfilled is True and data_element.entered_input == entered
        if entered is not None and entered != "":
            return r.requirement_validation == RequirementValidationValue.IS_REQUIRED_AND_EMPTY \
                and r.format_validation_fulfilled is False and data_element.entered_input is None
        return r.requirement_validation == RequirementValidationValue.IS_REQUIRED_AND_EMPTY \
            and r.format_validation_fulfilled is True and data_element.entered_input == entered

    def setup(ex, st, values):
        st.ghost["entered_at_entry"] = st.heap[values["data_element"].oid].fields["entered_input"]
