"""./vcheck selftest [Cxx]: the mutant corpus.  Every patch under mutants/defect_*.patch and seeded/<id>/patch.diff is
applied to a scratch copy of /repo (outside /repo and /verif, removed afterwards); the check of its property must exit
1 with a VIOLATION line.  mutants/neutral_*.patch (behaviour-preserving refactorings) must leave every affected check
at exit 0.  Evidence / replays written by these runs are discarded.
`./vcheck selftest engine`: only the encoder self-test (contracts/engine_lemmas.py, run first in every full self-test).
`./vcheck selftest neutral`: the larger corpus neutral/*.diff against ALL checks (about 5 minutes per patch)."""
from __future__ import annotations

import json
import os
import re
import shutil
import subprocess
import sys
import tempfile
from pathlib import Path

VERIF = Path(__file__).resolve().parent.parent
NEUTRAL_PROPS = ["C03", "C04", "C09", "C13", "C14", "C18", "C20"]


def _run(patch: Path, props, expect_violation: bool) -> bool:
    d = tempfile.mkdtemp(prefix="ahb_selftest_")
    ok = True
    try:
        shutil.copytree("/repo/src", d + "/src")
        shutil.copytree("/repo/unittests", d + "/unittests")
        for f in ("README.rst",):
            shutil.copy("/repo/" + f, d + "/" + f)
        r = subprocess.run(["patch", "-p1", "-s", "-i", str(patch)], cwd=d, capture_output=True, text=True)
        if r.returncode != 0:
            print(f"SELFTEST {patch.name}: patch does not apply any more ({r.stdout.strip()[:100]})")
            return False
        env = dict(os.environ, AHBICHT_REPO=d, VERIF_SELFTEST="1", VERIF_EVIDENCE_DIR=d + "/evidence")
        for p in props:
            r = subprocess.run([str(VERIF / "vcheck"), p, "--tier", "quick"], env=env, capture_output=True, text=True,
                               cwd=str(VERIF))
            hit = r.returncode == 1 and "VIOLATION property=" + p in r.stdout
            good = hit if expect_violation else r.returncode == 0
            first = next((l for l in r.stdout.splitlines() if l.startswith("  obligation=")), "")
            print(f"SELFTEST {patch.parent.name + '/' if patch.name == 'patch.diff' else ''}{patch.name} {p}: "
                  f"exit {r.returncode} -> {'ok' if good else 'NOT AS EXPECTED'} {first[:140]}")
            ok &= good
    finally:
        shutil.rmtree(d, ignore_errors=True)
    return ok


def _engine() -> bool:
    """encoder self-test: lemmas about Python's own semantics, proved by the engine and run under CPython"""
    env = dict(os.environ, AHBICHT_REPO="/repo", PYTHONPATH=f"/repo/src:{VERIF}")
    r = subprocess.run([str(VERIF / ".venv/bin/python"), "-W", "ignore", str(VERIF / "tools/engine_selftest.py")],
                       env=env, capture_output=True, text=True, cwd=str(VERIF))
    for l in r.stdout.splitlines():
        if not l.startswith("ok "):
            print("SELFTEST engine:", l[:300])
    return r.returncode == 0


def _neutral_corpus() -> bool:
    """neutral/*.diff (behaviour-preserving refactorings by independent sub-agents): every check, no alarm"""
    ok = True
    for patch in sorted((VERIF / "neutral").glob("*.diff")):
        r = subprocess.run([str(VERIF / ".venv/bin/python"), str(VERIF / "tools/eval_neutral.py"), str(patch)],
                           capture_output=True, text=True, cwd=str(VERIF))
        first = r.stdout.strip().splitlines()[0] if r.stdout.strip() else r.stderr[-200:]
        print(f"SELFTEST neutral/{patch.name}: exit {r.returncode} -> {'ok' if r.returncode == 0 else 'ALARM'} {first[:200]}")
        ok &= r.returncode == 0
    return ok


def selftest(only=None) -> int:
    if only == "engine":
        ok = _engine()
        print("SELFTEST", "passed" if ok else "FAILED")
        return 0 if ok else 1
    if only == "neutral":
        ok = _neutral_corpus()
        print("SELFTEST", "passed" if ok else "FAILED")
        return 0 if ok else 1
    if not only and not _engine():
        print("SELFTEST FAILED (encoder self-test)")
        return 1
    saved = tempfile.mkdtemp(prefix="ahb_selftest_evidence_")
    shutil.copytree(VERIF / "evidence", saved + "/evidence")
    ok = True
    try:
        for patch in sorted((VERIF / "mutants").glob("defect_*.patch")):
            prop = re.match(r"defect_(C\d\d)", patch.name).group(1)
            if only and prop != only:
                continue
            ok &= _run(patch, [prop], True)
        for meta in sorted((VERIF / "seeded").glob("*/meta.json")):
            m = json.loads(meta.read_text())
            prop = m.get("property") or meta.parent.name
            if only and prop != only:
                continue
            props = m.get("detected_by") or [prop]
            ok &= _run(meta.parent / "patch.diff", props, True)
        for patch in sorted((VERIF / "mutants").glob("neutral_*.patch")):
            ok &= _run(patch, [p for p in NEUTRAL_PROPS if not only or p == only], False)
    finally:
        shutil.rmtree(VERIF / "evidence", ignore_errors=True)
        shutil.copytree(saved + "/evidence", VERIF / "evidence")
        shutil.rmtree(saved, ignore_errors=True)
    print("SELFTEST", "passed" if ok else "FAILED")
    return 0 if ok else 1
