"""Contracts of ahbicht.models.condition_nodes (C03)."""
from pyvc.contracts import Enum, contract
from specs.logic import and4, or4, xor4

CFV = "ConditionFulfilledValue"


@contract("ahbicht.models.condition_nodes:ConditionFulfilledValue.__and__", prop=["C03", "C04", "C05"])
class And4:
    """result == and4(self, other) on every path; never raises; never falls through to None"""
    runtime_checkable = True
    params = dict(self=Enum(CFV), other=Enum(CFV))
    raises = {}

    def post_equals_spec(self, other, result):
        return result == and4(self, other)

    def model(self, other):
        return and4(self, other)


@contract("ahbicht.models.condition_nodes:ConditionFulfilledValue.__or__", prop=["C03", "C04", "C05"])
class Or4:
    runtime_checkable = True
    params = dict(self=Enum(CFV), other=Enum(CFV))
    raises = {}

    def post_equals_spec(self, other, result):
        return result == or4(self, other)

    def model(self, other):
        return or4(self, other)


@contract("ahbicht.models.condition_nodes:ConditionFulfilledValue.__xor__", prop=["C03", "C04", "C05"])
class Xor4:
    runtime_checkable = True
    params = dict(self=Enum(CFV), other=Enum(CFV))
    raises = {}

    def post_equals_spec(self, other, result):
        return result == xor4(self, other)

    def model(self, other):
        return xor4(self, other)
