#!/bin/bash
# usage: .runmod.sh c01 quick [srcroot]
cd /verif && PYTHONPATH=${3:-/repo/src}:/verif .venv/bin/python -W ignore - <<PY
import logging; logging.disable(logging.CRITICAL)
from vlib.report import Ctx
import bounded.$1 as m
ctx = Ctx("${1^^}", "$2", 0, "other"); m.run(ctx, "$2", 0); rc=ctx.finish()
for b in ctx.bounded_parts: print(b["name"], b["evaluations"], b["distinct_nontrivial"], b["exhaustive"], b["seconds"], b["samples"][:3])
print("exit", rc)
PY
