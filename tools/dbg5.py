import sys, z3
from checks.common import load_sidecars, verifier
from pyvc.contracts import REGISTRY
from pyvc import lists as L
import pyvc.executor as E
load_sidecars()
v=verifier()
orig=E.Executor.lt_eq
def dbg(self, st, a, b):
    try: return orig(self, st, a, b)
    except L.ShapeMismatch as e:
        print("MISMATCH", str(e)[:200]); print(" A", str(a)[:400]); print(" B", str(b)[:400])
        for p in st.pc[-12:]: print("   PC", str(z3.simplify(p))[:200])
        raise
E.Executor.lt_eq=dbg
tgt=[t for t in REGISTRY if t.endswith(sys.argv[1])][0]
for o in v.verify(tgt, only=[sys.argv[2]]): print(o.name,o.status,o.detail[:100])
