"""Lemmas of property C03 over the REAL operators (`&`, `|`, `^` dispatch to ConditionFulfilledValue.__and__/__or__/
__xor__, used here through their contracts, i.e. modularly) and the spec functions of specs/logic.py."""
from ahbicht.models.condition_nodes import ConditionFulfilledValue
from pyvc.contracts import Enum, lemma
from specs.logic import F, K, N, U, and4, definite, or4, xor4

CFV = "ConditionFulfilledValue"
P2 = dict(a=Enum(CFV), b=Enum(CFV))
P3 = dict(a=Enum(CFV), b=Enum(CFV), c=Enum(CFV))
B2 = dict(a=Enum(CFV, among=["FULFILLED", "UNFULFILLED"]), b=Enum(CFV, among=["FULFILLED", "UNFULFILLED"]))


# --- total ---------------------------------------------------------------------------------------------------
@lemma(P2, prop=["C03"])
def total(a, b):
    return isinstance(a & b, ConditionFulfilledValue) and isinstance(a | b, ConditionFulfilledValue) \
        and isinstance(a ^ b, ConditionFulfilledValue)


# --- commutative / associative / identity ----------------------------------------------------------------------
@lemma(P2, prop=["C03"])
def and_commutative(a, b):
    return (a & b) == (b & a)


@lemma(P2, prop=["C03"])
def or_commutative(a, b):
    return (a | b) == (b | a)


@lemma(P2, prop=["C03"])
def xor_commutative(a, b):
    return (a ^ b) == (b ^ a)


@lemma(P3, prop=["C03", "C01"])
def and_associative(a, b, c):
    return ((a & b) & c) == (a & (b & c))


@lemma(P3, prop=["C03", "C01"])
def or_associative(a, b, c):
    return ((a | b) | c) == (a | (b | c))


@lemma(P3, prop=["C03", "C01"])
def xor_associative(a, b, c):
    return ((a ^ b) ^ c) == (a ^ (b ^ c))


@lemma(dict(a=Enum(CFV)), prop=["C03"])
def neutral_is_identity(a):
    return (a & N) == a and (N & a) == a and (a | N) == a and (N | a) == a and (a ^ N) == a and (N ^ a) == a


# --- Boolean logic on {FULFILLED, UNFULFILLED} -------------------------------------------------------------------
@lemma(B2, prop=["C03"])
def boolean_and(a, b):
    r = a & b
    return definite(r) and (r == F) == ((a == F) and (b == F))


@lemma(B2, prop=["C03"])
def boolean_or(a, b):
    r = a | b
    return definite(r) and (r == F) == ((a == F) or (b == F))


@lemma(B2, prop=["C03"])
def boolean_xor(a, b):
    r = a ^ b
    return definite(r) and (r == F) == ((a == F) != (b == F))


# --- the 15 README rows that give a value (README.rst, section "Truth tables", at the pinned commit) ---------------
@lemma({}, prop=["C03"])
def readme_and_rows():
    return (N & F) == F and (N & U) == U and (N & N) == N and (K & F) == K and (K & U) == U and (K & K) == K \
        and (K & N) == K


@lemma({}, prop=["C03"])
def readme_or_rows():
    return (N | N) == N and (K | F) == F and (K | U) == K and (K | K) == K


@lemma({}, prop=["C03"])
def readme_xor_rows():
    return (N ^ N) == N and (K ^ F) == K and (K ^ U) == K and (K ^ K) == K


# --- UNKNOWN is sound and tight ------------------------------------------------------------------------------------
def lo(a):
    """first resolution of a (UNKNOWN -> FULFILLED, everything else stays)"""
    if a == K:
        return F
    return a


def hi(a):
    """second resolution of a (UNKNOWN -> UNFULFILLED)"""
    if a == K:
        return U
    return a


@lemma(P2, prop=["C03", "C05"])
def and_unknown_sound(a, b):
    r = a & b
    if not definite(r):
        return True
    return (lo(a) & lo(b)) == r and (lo(a) & hi(b)) == r and (hi(a) & lo(b)) == r and (hi(a) & hi(b)) == r


@lemma(P2, prop=["C03", "C05"])
def or_unknown_sound(a, b):
    r = a | b
    if not definite(r):
        return True
    return (lo(a) | lo(b)) == r and (lo(a) | hi(b)) == r and (hi(a) | lo(b)) == r and (hi(a) | hi(b)) == r


@lemma(P2, prop=["C03", "C05"])
def xor_unknown_sound(a, b):
    r = a ^ b
    if not definite(r):
        return True
    return (lo(a) ^ lo(b)) == r and (lo(a) ^ hi(b)) == r and (hi(a) ^ lo(b)) == r and (hi(a) ^ hi(b)) == r


@lemma(P2, prop=["C03"])
def and_unknown_tight(a, b):
    if (a & b) != K:
        return True
    r = lo(a) & lo(b)
    return (lo(a) & hi(b)) != r or (hi(a) & lo(b)) != r or (hi(a) & hi(b)) != r


@lemma(P2, prop=["C03"])
def or_unknown_tight(a, b):
    if (a | b) != K:
        return True
    r = lo(a) | lo(b)
    return (lo(a) | hi(b)) != r or (hi(a) | lo(b)) != r or (hi(a) | hi(b)) != r


@lemma(P2, prop=["C03"])
def xor_unknown_tight(a, b):
    if (a ^ b) != K:
        return True
    r = lo(a) ^ lo(b)
    return (lo(a) ^ hi(b)) != r or (hi(a) ^ lo(b)) != r or (hi(a) ^ hi(b)) != r


# --- canary: a false statement that the checker must refute ---------------------------------------------------------
@lemma(P2, prop=["C03"], canary=True)
def canary_and_is_or(a, b):
    return (a & b) == (a | b)
