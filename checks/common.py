"""Glue between pyvc (obligations) / the bounded stand-ins and the report layer."""
from __future__ import annotations

import importlib
import json
import pkgutil
import time
import traceback
from typing import Any, Dict, List, Optional, Sequence

from pyvc.contracts import LEMMAS, REGISTRY
from pyvc.replay import replay_obligation
from pyvc.vc import Obl, Verifier
from vlib.report import Ctx, _jsonable

_verifier: Optional[Verifier] = None


def load_sidecars() -> None:
    import contracts
    for m in pkgutil.iter_modules(contracts.__path__):
        importlib.import_module(f"contracts.{m.name}")


def verifier() -> Verifier:
    global _verifier
    if _verifier is None:
        load_sidecars()
        _verifier = Verifier()
    return _verifier


def _register_function(ctx: Ctx, v: Verifier, target: str, kind: str = "P") -> None:
    try:
        mod, node, ci = v.ex.repo.function(target)
        ctx.function_under_contract(target, str(mod.path), node.lineno, v.ex.repo.source_of(mod, node), kind)
    except Exception as e:  # noqa
        ctx.note(f"contract target {target} not found in the current source: {e}")


def report_obligation(ctx: Ctx, v: Verifier, o: Obl, target: Optional[str]) -> None:
    """maps one pyvc obligation onto the report (DESIGN §2.10)"""
    c = REGISTRY.get(target) if target else None
    if o.status == "discharged":
        ctx.obligation(o.name, "discharged", seconds=o.seconds, paths=o.paths, detail=o.detail or None)
        return
    if o.status == "undecided":
        ctx.obligation(o.name, "undecided", seconds=o.seconds, paths=o.paths, detail=o.detail)
        return
    # violated: try to replay the counter-model on the real code
    witness = None
    replayed = False
    msg = o.detail
    if c is not None:
        witness = v.concretize(c, o)
        if witness is not None and all(x is not None for x in witness.values()):
            try:
                bad, rmsg = replay_obligation(c, o.name, witness)
            except BaseException as e:  # noqa
                bad, rmsg = None, f"replay failed: {type(e).__name__}: {e}"
            if bad is True:
                replayed = True
                msg = f"{o.detail}; replay on the real code: {rmsg}"
            elif bad is False:
                # the real code satisfies the contract on the counter-model: the encoding was imprecise there
                ctx.obligation(o.name, "undecided", seconds=o.seconds, paths=o.paths,
                               detail=f"counter-model refuted by replay on the real code ({rmsg}); encoder imprecision")
                return
            else:
                msg = f"{o.detail}; {rmsg}"
        else:
            witness = None
    ctx.obligation(o.name, "violated", seconds=o.seconds, paths=o.paths, detail=msg)
    ctx.violation(o.name, msg, witness=_jsonable(witness) if witness is not None else None, replayed=replayed,
                  signature=f"{o.name}|{json.dumps(_jsonable(witness), sort_keys=True, default=repr)[:200]}",
                  solver_output=o.solver_output,
                  replay_code=(f"./vcheck replay <this file>   # re-runs {target} on the witness" if replayed else None))
    if ctx.violations and witness is not None:
        ctx.violations[-1]["target"] = target


def prove(ctx: Ctx, targets: Sequence[str], kind: str = "P") -> None:
    v = verifier()
    for t in targets:
        if t not in REGISTRY:
            raise RuntimeError(f"no contract registered for {t}")
        _register_function(ctx, v, t, kind)
        obls = v.verify(t)
        if not obls:
            raise RuntimeError(f"zero obligations generated for {t}: checker error")
        for o in obls:
            report_obligation(ctx, v, o, t)
    for a in sorted(getattr(v.ex, "assumed_used", ())):
        if a.startswith("A-"):
            ctx.trust(a)
        else:
            ctx.assume(a)
    for q in sorted(v.ex.inlined_seen):
        if q.startswith("ahbicht") and q not in ctx.inlined and q not in targets:
            ctx.inlined.append(q)


def prove_lemmas(ctx: Ctx, module: str, names: Optional[Sequence[str]] = None) -> None:
    v = verifier()
    keys = [k for k in LEMMAS if k.startswith(module + ":") and (names is None or k.split(":")[1] in names)]
    if not keys:
        raise RuntimeError(f"no lemma found in {module}: checker error")
    for k in keys:
        o = v.verify_lemma(k)
        if o.status == "violated":
            w = v.concretize(type("C", (), {"concretize": None})(), o) if o.model else None
            ctx.obligation(o.name, "violated", seconds=o.seconds, paths=o.paths, detail=o.detail)
            ctx.violation(o.name, f"{o.detail} (lemma over the contracts; counter-model of the solver attached)",
                          witness=_jsonable(w), replayed=False, solver_output=o.solver_output,
                          signature=f"{o.name}|{json.dumps(_jsonable(w), sort_keys=True, default=repr)[:200]}")
        else:
            ctx.obligation(o.name, o.status, seconds=o.seconds, paths=o.paths, detail=o.detail or None)


def run_bounded(ctx: Ctx, prop: str) -> bool:
    """runs bounded/<prop>.py if it exists"""
    try:
        m = importlib.import_module(f"bounded.{prop.lower()}")
    except ModuleNotFoundError as e:
        if f"bounded.{prop.lower()}" in str(e):
            ctx.note(f"no bounded stand-in module for {prop}")
            return False
        raise
    t0 = time.time()
    m.run(ctx, ctx.tier, ctx.seed)
    return True
