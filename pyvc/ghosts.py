"""Ghost functions usable in contract clauses and spec functions (symbolic side).  They are uninterpreted functions
over the scalar sort, with the range constraints of their meaning assumed at every application."""
from __future__ import annotations

from typing import Any, List

import z3

from pyvc import lists as L
from pyvc.values import ListObj, Ref, Sc, SV, Unsupported, mk_b


def _uf_app(ex, st, name: str, args, ret=None):
    terms = [ex._as_sc(st, a) for a in args]
    return ex.uf("g_" + name, len(terms), ret)(*terms)


def _range_enum(ex, t, classes) -> z3.BoolRef:
    opts = []
    for c in classes:
        n = len(ex.repo.enum_members(c))
        opts.append(z3.And(ex.is_enum_of(t, c), Sc.eidx(t) >= 0, Sc.eidx(t) < n))
    return z3.Or(*opts)


def _axiom(ex, name: str, arity: int, rng) -> None:
    """range of a ghost function as a GLOBAL axiom: for all arguments, rng(f(args))"""
    key = f"axiom:{name}"
    if key in ex._ufs:
        return
    ex._ufs[key] = True
    xs = [z3.Const(f"gx{i}", Sc) for i in range(arity)]
    f = ex.uf("g_" + name, arity)
    ex.global_axioms.append(z3.ForAll(xs, rng(f(*xs))))


def ev_invalid(ex, st, args, kwargs, fn):
    """the expression is well-formed but invalid (structural: the same under every content evaluation, C06)"""
    return [(st, SV(mk_b(_uf_app(ex, st, "ev_invalid", args[:1], z3.BoolSort())), "bool"))]


def ev_reason(ex, st, args, kwargs, fn):
    _axiom(ex, "ev_reason", 1, lambda t: Sc.is_s(t))
    return [(st, SV(_uf_app(ex, st, "ev_reason", args[:1]), "str"))]


def ev_indicator(ex, st, args, kwargs, fn):
    _axiom(ex, "ev_indicator", 1, lambda t: _range_enum(ex, t, ["ModalMark", "PrefixOperator"]))
    return [(st, SV(_uf_app(ex, st, "ev_indicator", args[:1]), None))]


def ev_fulfilled(ex, st, args, kwargs, fn):
    _axiom(ex, "ev_fulfilled", 1, lambda t: z3.Or(Sc.is_none(t), Sc.is_b(t)))
    return [(st, SV(_uf_app(ex, st, "ev_fulfilled", args[:1]), None))]


def ev_hints(ex, st, args, kwargs, fn):
    _axiom(ex, "ev_hints", 1, lambda t: z3.Or(Sc.is_none(t), Sc.is_s(t)))
    return [(st, SV(_uf_app(ex, st, "ev_hints", args[:1]), None))]


def ev_fc_fulfilled(ex, st, args, kwargs, fn):
    _axiom(ex, "ev_fc_fulfilled", 2, lambda t: Sc.is_b(t))
    return [(st, SV(_uf_app(ex, st, "ev_fc_fulfilled", args[:2]), "bool"))]


def ev_fc_message(ex, st, args, kwargs, fn):
    _axiom(ex, "ev_fc_message", 2, lambda t: z3.Or(Sc.is_none(t), Sc.is_s(t)))
    return [(st, SV(_uf_app(ex, st, "ev_fc_message", args[:2]), None))]


def abstract_list(ex, st, args, kwargs, fn):
    """abstract_list(name, *args): the opaque list `name(args)` (value of a spec function / result of a modular call)"""
    name = z3.simplify(Sc.sv(args[0].t))
    if not z3.is_string_value(name):
        raise Unsupported("abstract_list with a symbolic name")
    return [(st, ex.alloc(st, ListObj(L.LT([L.Abs(name.as_string(), list(args[1:]))]))))]


VALUE_RANGES = {"rc_value": lambda ex, t: _range_enum(ex, t, ["ConditionFulfilledValue"])}
VALUE_TYPES = {"rc_value": "enum:ConditionFulfilledValue"}


def abstract_value(ex, st, args, kwargs, fn):
    name = z3.simplify(Sc.sv(args[0].t))
    if not z3.is_string_value(name):
        raise Unsupported("abstract_value with a symbolic name")
    nm = name.as_string()
    if nm in VALUE_RANGES:
        _axiom(ex, "val_" + nm, len(args) - 1, lambda t: VALUE_RANGES[nm](ex, t))
    return [(st, SV(_uf_app(ex, st, "val_" + nm, args[1:]), VALUE_TYPES.get(nm)))]


def concat(ex, st, args, kwargs, fn):
    """concat(list of lists)"""
    return [(st, ex.alloc(st, ListObj(ex.flatten(st, ex.as_lt(st, args[0])))))]


GHOSTS = {"ev_invalid": ev_invalid, "ev_reason": ev_reason, "ev_indicator": ev_indicator, "ev_fulfilled": ev_fulfilled,
          "ev_hints": ev_hints, "ev_fc_fulfilled": ev_fc_fulfilled, "ev_fc_message": ev_fc_message,
          "abstract_list": abstract_list, "abstract_value": abstract_value, "concat": concat}


def install(ex) -> None:
    for k, h in GHOSTS.items():
        ex.library["ghost." + k] = h


def _key_view(v):
    if isinstance(v, SV) and v.view and "key" in v.view:
        return v.view["key"]
    raise Unsupported("key_* ghost on a string without a key view")


def key_is_package(ex, st, args, kwargs, fn):
    return [(st, SV(mk_b(_key_view(args[0])[0]), "bool"))]


def key_is_numeric(ex, st, args, kwargs, fn):
    is_p, is_num, n = _key_view(args[0])
    return [(st, SV(mk_b(z3.And(is_num, z3.Not(is_p))), "bool"))]


def key_number(ex, st, args, kwargs, fn):
    from pyvc.values import mk_i
    return [(st, SV(mk_i(_key_view(args[0])[2]), "int"))]


GHOSTS.update({"key_is_package": key_is_package, "key_is_numeric": key_is_numeric, "key_number": key_number})
