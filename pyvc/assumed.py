"""Assumed contracts on dependencies (DESIGN §2.5): models of library calls the analysed code makes.  Each handler
has the signature handler(ex, st, args, kwargs, fn) -> [(state, value | Exc)].  Every name used in a run is
recorded in `ex.assumed_used` so that the evidence can list it under trusted_base."""
from __future__ import annotations

from typing import Any, Dict, List

import z3

from pyvc import lists as L
from pyvc.values import (BuiltinV, ClassV, CoroV, DictObj, Exc, FuncV, ListObj, Obj, Opaque, Ref, Sc, SV, Tup,
                         Unsupported, mk_b, mk_i, mk_s, sv_bool, sv_none, sv_str)

LIBRARY: Dict[str, Any] = {}
ATTR_LIBRARY: Dict[str, Any] = {}
CLASS_HOOKS: Dict[str, Any] = {}


def lib(name):
    def deco(f):
        LIBRARY[name] = f
        return f
    return deco


def used(ex, name: str) -> None:
    if not hasattr(ex, "assumed_used"):
        ex.assumed_used = set()
    ex.assumed_used.add(name)


def install(ex) -> None:
    from pyvc import fxview
    ex.assumed_used = set()
    ex.fstring_hook = fxview.fstring_hook
    ex.strip_hook = fxview.strip_hook
    ex.regex_sub_hook = fxview.regex_sub_hook
    ex.library["ghost.fx_meaning"] = fxview.g_fx_meaning
    ex.library["ghost.fx_wellformed"] = fxview.g_fx_wellformed
    ex.library["ghost.fx_is_key"] = fxview.g_fx_is_key
    from pyvc import ghosts
    ghosts.install(ex)


# ---------------------------------------------------------------------------------------------- logging (S5)
def _logger_attr(ex, st, v, attr):
    return [(st, Opaque("logcall"))]


ATTR_LIBRARY["global:*"] = lambda ex, st, v, attr: [(st, Opaque("logcall") if "logger" in v.tag else Opaque(f"{v.tag}.{attr}", v.data))]


@lib("logcall()")
def _logcall(ex, st, args, kwargs, fn):
    used(ex, "S5 logging calls neither raise nor change modelled state")
    return [(st, sv_none())]


# ---------------------------------------------------------------------------------------------- re (A-STDLIB)
@lib("re.compile")
def _re_compile(ex, st, args, kwargs, fn):
    pat = z3.simplify(Sc.sv(args[0].t))
    return [(st, Opaque("regex", pat.as_string() if z3.is_string_value(pat) else "?"))]


def _regex_attr(ex, st, v, attr):
    return [(st, Opaque(f"regex.{attr}", v.data))]


ATTR_LIBRARY["regex.sub"] = _regex_attr
ATTR_LIBRARY["regex.match"] = _regex_attr


@lib("regex.sub()")
def _regex_sub(ex, st, args, kwargs, fn):
    """pattern.sub(repl, s): an uninterpreted function of s per (pattern, repl) - nothing is assumed about it except
    that it returns a str (views may refine it, see C07)"""
    used(ex, "A-STDLIB re.Pattern.sub returns a str and is a function of its arguments")
    repl, s = args[0], args[1]
    h = getattr(ex, "regex_sub_hook", None)
    if h is not None:
        r = h(ex, st, fn.data, repl, s)
        if r is not None:
            return r
    f = z3.Function(f"re_sub_{abs(hash(fn.data)) % 100000}", z3.StringSort(), z3.StringSort())
    return [(st, SV(mk_s(f(Sc.sv(s.t))), "str"))]


# ---------------------------------------------------------------------------------------------- misc builtins
@lib("super")
def _super(ex, st, args, kwargs, fn):
    """zero-argument super() inside a method: remembers the class the method was found in and `self`"""
    cls = st.frame.self_cls
    self_ref = st.frame.locals.get("self")
    return [(st, Opaque("super", {"cls": cls, "self": self_ref}))]


def _super_attr(ex, st, v, attr):
    """super().name: the method `name` of the next class in the MRO of type(self) after the defining class, bound to
    self.  Parents outside the repository (lark's Transformer, ABC, Exception, object): only `__init__`, which is taken
    to set no attribute that the library's code reads (A-LARK-FOLD / A-STDLIB)."""
    from pyvc.values import FuncV, Unsupported
    data = v.data if isinstance(v.data, dict) else {}
    cls, self_ref = data.get("cls"), data.get("self")
    if cls is not None and isinstance(self_ref, Ref):
        obj_cls = st.heap[self_ref.oid].cls or cls
        mro = ex.repo.mro(obj_cls)
        after = mro[mro.index(cls) + 1:] if cls in mro else []
        for c in after:
            ci = ex.repo.cls(c)
            if ci is not None and attr in ci.methods:
                fv = FuncV(ci.methods[attr], ci.module, f"{ci.module.name}:{ci.name}.{attr}", cls=ci.name)
                return [(st, fv.bind(self_ref))]
            if ci is None:
                break  # a parent whose source is not loaded: below
    if attr == "__init__":
        used(ex, "A-STDLIB/A-LARK: __init__ of base classes outside the repository sets nothing the library reads")
        return [(st, BuiltinV("super.__init__()", None))]
    raise Unsupported(f"super().{attr} of a parent class outside the repository")


ATTR_LIBRARY["super.*"] = _super_attr


@lib("super.__init__()")
def _super_init(ex, st, args, kwargs, fn):
    return [(st, sv_none())]


@lib("inject.instance")
def _inject_instance(ex, st, args, kwargs, fn):
    used(ex, "A-INJECT inject.instance returns the bound singleton")
    c = args[0]
    return [(st, Opaque(f"inst:{c.name if isinstance(c, ClassV) else 'object'}"))]


# ---------------------------------------------------------------------------------------------- lark (A-LARK-*)
AWAIT_HOOKS: Dict[str, Any] = {}  # class name -> hook(ex, st, ref) -> outcomes of awaiting an instance
FOLD_RESULT: Dict[str, Any] = {}   # transformer class -> PSpec of the value a fold can produce (set by side-cars)
EXTRA_FOLD_RAISES: Dict[str, List[str]] = {}


def transformer_callbacks(ex, cls: str) -> List[str]:
    """qualified names of the callbacks of a transformer class that are under contract"""
    out = []
    for c in ex.repo.mro(cls):
        ci = ex.repo.cls(c)
        if not ci:
            continue
        for m in ci.methods:
            q = f"{ci.module.name}:{ci.name}.{m}"
            if q in ex.contracts and not m.startswith("__"):
                out.append(q)
    return out


def lark_transform(ex, st, args, kwargs, fn):
    """A-LARK-FOLD: Transformer.transform(tree) is a bottom-up fold over the callbacks of the transformer; an
    Exception raised in a callback arrives as VisitError(orig_exc=...), a BaseException that is not an Exception
    passes unchanged.  What a callback can raise is taken from the callbacks' contracts."""
    used(ex, "A-LARK-FOLD")
    ref = fn.bound
    cls = st.heap[ref.oid].cls
    raised: List[str] = list(EXTRA_FOLD_RAISES.get(cls, []))
    for q in transformer_callbacks(ex, cls):
        for k in ex.contracts[q].raises:
            if k not in raised:
                raised.append(k)
    outs = []
    for k in raised:
        s = st.fork()
        msg = SV(mk_s(ex.fresh("msg", z3.StringSort())), "str")
        s2, inner = ex.raise_(s, k, msg, error_message=msg)
        if "Exception" in ex.repo.mro(k):
            outs.append(ex.raise_(s2, "VisitError", msg, orig_exc=inner.ref))
        else:
            outs.append((s2, inner))
    spec = FOLD_RESULT.get(cls)
    if spec is None:
        raise Unsupported(f"no fold result specification for transformer {cls}")
    res = spec().make(ex, st, "fold_result")
    st.ghost["fold_root"] = res
    outs.append((st, res))
    return outs


LIBRARY["lark.Transformer.transform"] = lark_transform


def _tree_scan_values(ex, st, args, kwargs, fn):
    """A-LARK-TREE: scan_values(pred) yields every leaf (Token) satisfying pred exactly once, in document order.  The
    leaves of an opaque tree are a symbolic sequence of tokens (ghost 'tree_tokens')."""
    used(ex, "A-LARK-TREE")
    from pyvc.contracts import Inst, SeqOf, Str
    tree = fn.bound
    key = ("tokens", id(tree) if not isinstance(tree, Opaque) else tree.tag)
    if key not in st.ghost:
        maker = getattr(ex, "token_maker", None) or (
            lambda ex_, s_, name, i: Inst("Token", value=Str(), type=Str()).make(ex_, s_, name))
        seq = SeqOf(maker).make(ex, st, "tokens")
        st.ghost[key] = st.heap[seq.oid].lt
        st.ghost["tree_tokens"] = seq
    lt = st.ghost[key]
    pred = args[0] if args else None
    if pred is None:
        return [(st, lt)]
    n0 = len(st.pc)

    def f(item, binders):
        s = st.fork()
        for b in binders:
            s.assume(z3.And(b[1] >= 0, b[1] < b[2]) if b[0] == "bind" else b[1])
        base = len(s.pc)
        segs = []
        for s2, r in ex.call(pred, [item], {}, s):
            if isinstance(r, Exc):
                raise Unsupported("scan_values predicate may raise")
            dec, _ax = s2.split(s2.pc[base:])
            cond = z3.And(*dec, ex.truth(s2, r)) if dec else ex.truth(s2, r)
            for k, o in s2.heap.items():
                st.heap.setdefault(k, o)
            segs.append(L.Guard(cond, L.LT([L.Unit(item)])))
        return L.LT(segs)
    return [(st, L.lt_map(lt, f))]


ATTR_LIBRARY["inst:Tree.scan_values"] = lambda ex, st, v, attr: [(st, BuiltinV("lark.Tree.scan_values", v))]
LIBRARY["lark.Tree.scan_values"] = _tree_scan_values


def _lark_parse(ex, st, args, kwargs, fn):
    """A-LARK-PARSE: Lark.parse(text) (Earley, dynamic lexer) returns a Tree or raises UnexpectedEOF /
    UnexpectedCharacters; TypeError for a non-str argument"""
    used(ex, "A-LARK-PARSE")
    outs = []
    text = args[0] if args else None
    for k in ("UnexpectedEOF", "UnexpectedCharacters"):
        outs.append(ex.raise_(st.fork(), k, SV(mk_s(ex.fresh("msg", z3.StringSort())), "str")))
    if not (isinstance(text, SV) and text.ty == "str"):
        outs.append(ex.raise_(st.fork(), "TypeError", sv_str("expected a str")))
    st.ghost["parsed_text"] = text
    outs.append((st, Opaque("inst:Tree")))
    return outs


LIBRARY["global:ahbicht.expressions.condition_expression_parser._parser.parse()"] = _lark_parse
LIBRARY["global:ahbicht.expressions.ahb_expression_parser._parser.parse()"] = _lark_parse


# ---------------------------------------------------------------------------------------------- inspect / contextvars
@lib("inspect.iscoroutinefunction")
def _iscoroutinefunction(ex, st, args, kwargs, fn):
    used(ex, "A-STDLIB inspect.iscoroutinefunction / isawaitable are pure predicates")
    f = args[0]
    if isinstance(f, FuncV):
        import ast as _ast
        return [(st, sv_bool(isinstance(f.node, _ast.AsyncFunctionDef)))]
    if isinstance(f, Opaque) and f.data is not None and isinstance(f.data, dict) and "is_async" in f.data:
        return [(st, SV(mk_b(f.data["is_async"]), "bool"))]
    return [(st, SV(mk_b(ex.fresh("is_coroutine_function", z3.BoolSort())), "bool"))]


def _ctxvar_attr(ex, st, v, attr):
    return [(st, BuiltinV(f"contextvar.{attr}", v))]


ATTR_LIBRARY["contextvar.get"] = _ctxvar_attr
ATTR_LIBRARY["contextvar.set"] = _ctxvar_attr


@lib("contextvars.ContextVar")
def _contextvar_new(ex, st, args, kwargs, fn):
    name = "ctxvar"
    if args and isinstance(args[0], SV) and z3.is_string_value(z3.simplify(Sc.sv(args[0].t))):
        name = z3.simplify(Sc.sv(args[0].t)).as_string()
    return [(st, Opaque("contextvar", {"name": name, "default": kwargs.get("default")}))]


def ctx_key(fn) -> str:
    """ghost key of the state of ONE context variable (the variable the bound method belongs to)"""
    var = getattr(fn, "bound", None)
    name = var.data.get("name", "ctxvar") if isinstance(var, Opaque) and isinstance(var.data, dict) else "ctxvar"
    # the library's only context variable keeps the historical key 'ctx' (contract clauses read ghost_ctx)
    return "ctx" if name in ("ctxvar", "text_to_be_evaluated_by_format_constraint") else f"ctx:{name}"


def ctx_snapshot(st) -> dict:
    return {k: v for k, v in st.ghost.items() if k == "ctx" or k.startswith("ctx:")}


def ctx_restore(st, snap: dict) -> None:
    for k in [k for k in st.ghost if k == "ctx" or k.startswith("ctx:")]:
        if k not in snap:
            del st.ghost[k]
    st.ghost.update(snap)


LIBRARY["ContextVar"] = _contextvar_new


@lib("contextvar.get")
def _ctx_get(ex, st, args, kwargs, fn):
    """A-ASYNCIO M4: ContextVar.get returns the value of the variable in the current context (ghost: st.ghost['ctx'])"""
    used(ex, "A-ASYNCIO")
    key = ctx_key(fn)
    if key not in st.ghost:
        # value at entry: unknown (whatever the caller's context holds); the library's variable holds a text or None
        st.ghost[key] = ex.fresh_sv("ctx_text_at_entry")
        if key == "ctx":
            st.assume(z3.Or(Sc.is_none(st.ghost[key].t), Sc.is_s(st.ghost[key].t)), axiom=True)
    return [(st, st.ghost[key])]


@lib("contextvar.set")
def _ctx_set(ex, st, args, kwargs, fn):
    used(ex, "A-ASYNCIO")
    st.ghost[ctx_key(fn)] = args[0]
    st.log.append(("ctxset", args[0]))
    return [(st, Opaque("token"))]


def inject_provide(ex, st, name, provider):
    """A-INJECT: @inject.params(p=Provider) calls the bound provider at each call, in the caller's context"""
    used(ex, "A-INJECT")
    st.log.append(("inject", name, provider))
    return Opaque(f"inst:{provider.replace('Provider', '')}")


LIBRARY["inject.provide"] = inject_provide


def _asyncio_gather(ex, st, args, kwargs, fn):
    from pyvc.engine import _gather
    return _gather(ex, st, args, kwargs, fn)


LIBRARY["asyncio.gather"] = _asyncio_gather


# ---------------------------------------------------------------------------------------------- set / sort (A-STDLIB)
@lib("set")
def _set(ex, st, args, kwargs, fn):
    """A-STDLIB: set(xs) holds each distinct element of xs once (iteration order unspecified): the opaque list
    dedup(xs)"""
    used(ex, "A-STDLIB set(xs) / list.sort(key=...)")
    if not args:
        return [(st, ex.alloc(st, ListObj(L.LT([]))))]
    src = args[0]
    if isinstance(src, L.LT):
        src = ex.alloc(st, ListObj(src))
    return [(st, ex.alloc(st, ListObj(L.LT([L.Abs("dedup", (src,))]))))]


@lib("list.sort")
def _list_sort(ex, st, args, kwargs, fn):
    """A-STDLIB: xs.sort(key=int) sorts in place ascending by int(x), stable; xs.sort() lexicographically"""
    used(ex, "A-STDLIB set(xs) / list.sort(key=...)")
    o = st.heap[fn.bound.oid]
    key = kwargs.get("key")
    if key is None:
        sym = "sort_plain"
    elif isinstance(key, BuiltinV) and key.name == "int":
        sym = "sort_int"
    else:
        raise Unsupported("list.sort with this key function")
    if kwargs.get("reverse") is not None:
        raise Unsupported("list.sort(reverse=...)")
    snapshot = ex.alloc(st, ListObj(o.lt))
    o.lt = L.LT([L.Abs(sym, (snapshot,))])
    return [(st, sv_none())]
