"""C01 - condition expressions are grouped by the documented operator precedence: exploration (bounded) plus ground
structural obligations on the live Lark rule table.  The grouping is produced inside Lark's Earley parser and forest
resolution, configured by a grammar string: no contract within reach can decide it (DESIGN §6)."""
import time

from checks.common import guarded, run_bounded
from vlib.report import Ctx

LEVEL = "exploration"


def ground_obligations(ctx: Ctx) -> None:
    """G1-G5 on the object Lark built from the REAL grammar string (read on every run).  Under the assumed contract
    A-LARK-RESOLVE (ambiguity='resolve' without priorities picks, for every span, the alternative of least rule.order)
    they imply the documented grouping; they are reported as structural obligations, not as a proof of C01."""
    import ahbicht.content_evaluation  # noqa: F401
    from ahbicht.expressions.condition_expression_parser import _parser as p
    t0 = time.time()
    alts = sorted([r for r in p.rules if r.origin.name == "expression"], key=lambda r: r.order)
    terms = {t.name: t for t in p.terminals}

    def pat(name):
        return terms[name].pattern.to_regexp() if name in terms else None
    shape = [(r.alias, [s.name for s in r.expansion]) for r in alts]
    want_alias = ["or_composition", "or_composition", "xor_composition", "xor_composition", "and_composition",
                  "and_composition", "then_also_composition", None, None, None, None]
    g1 = [a for a, _ in shape] == want_alias and [e for _, e in shape][7:] == [["brackets"], ["package"], ["condition"],
                                                                              ["time_condition"]]
    ctx.obligation("grammar/G1-alternatives-ordered-or<xor<and<then_also<atoms", "discharged" if g1 else "undecided",
                   backend="ground check on the live Lark rule table", detail=str([a for a, _ in shape]))
    ops_ok = True
    seen = []
    for alias, exp in shape[:6]:
        ops_ok &= len(exp) == 3 and exp[0] == "expression" and exp[2] == "expression"
        seen.append(pat(exp[1]))
    # the operator terminals are compared as LANGUAGES (over all of Unicode), not as regular-expression texts
    from checks import tokenlang
    for got, want in zip(seen, ["[Oo]", "∨", "[Xx]", "⊻", "[Uu]", "∧"]):
        try:
            ops_ok &= got is not None and tokenlang.distinguish(got, 0, want, 0) is None
        except tokenlang.NotTranslatable:
            ops_ok = False
    ops_ok &= len(seen) == 6 and shape[6][1] == ["expression", "expression"]
    ctx.obligation("grammar/G2-operator-alternatives-are-binary-with-case-insensitive-letter-or-MaKo-symbol",
                   "discharged" if ops_ok else "undecided", backend="ground check on the live Lark rule table",
                   detail=str(seen))
    br = [r for r in p.rules if r.origin.name == "brackets"]
    g3 = len(br) == 1 and [s.name for s in br[0].expansion] == ["LPAR", "expression", "RPAR"] and br[0].options.expand1 \
        and all(r.options.expand1 for r in alts)
    ctx.obligation("grammar/G3-brackets-and-expression-are-inlined-rules", "discharged" if g3 else "undecided",
                   backend="ground check on the live Lark rule table")
    g4 = list(p.ignore_tokens) == ["WS"] and "WS" in terms
    ctx.obligation("grammar/G4-whitespace-is-ignored", "discharged" if g4 else "undecided",
                   backend="ground check on the live Lark rule table", detail=str(p.ignore_tokens))
    g5 = all((r.options.priority or 0) == 0 for r in p.rules) and all((t.priority or 0) == 0 for t in p.terminals) \
        and p.options.ambiguity == "resolve" and p.options.parser == "earley"
    ctx.obligation("grammar/G5-no-priorities-earley-ambiguity-resolve", "discharged" if g5 else "undecided",
                   backend="ground check on the live Lark rule table",
                   detail=f"parser={p.options.parser} ambiguity={p.options.ambiguity}")
    # a failing structural obligation is NOT a violation: the sufficient argument is gone, the bounded part decides
    ctx.crosscheck["concrete_runs"] += 0


def run(ctx: Ctx) -> None:
    ctx.explanation = ("bounded check of the parser's contract against an independent precedence-climbing reference "
                       "parser; plus five ground obligations on the live rule table")
    ctx.trust("A-LARK-RESOLVE (only for the structural argument)", "bounded: never counted as proved")
    guarded(ctx, "C01", lambda: ground_obligations(ctx), what="ground obligations")
    # token languages of the grammar, decided over all of Unicode (sufficient-condition obligations, see checks/tokenlang.py)
    from checks import tokenlang
    tokenlang.obligations(ctx, grammars=("condition",))
    run_bounded(ctx, "C01")
