"""Shared reporting layer of every check: obligations, bounded stand-ins, violations, known findings, evidence.

Exit codes (DESIGN §2.10):  0 property held on everything explored / 1 violation (VIOLATION line printed) /
2 nothing could be explored / 3 checker crash.  `unknown`, timeouts and unsupported syntax are *undecided*, never a
violation.
"""
from __future__ import annotations

import hashlib
import json
import os
import sys
import time
import traceback
from pathlib import Path
from typing import Any, Dict, List, Optional

VERIF = Path(__file__).resolve().parent.parent
REPO = Path(os.environ.get("AHBICHT_REPO", "/repo"))
SRC = REPO / "src"

SEMANTIC_ASSUMPTIONS = [
    "S1 integers are mathematical (Python ints)",
    "S2 attribute reads of modelled classes have no side effects; attrs validators are the only construction-time checks",
    "S3 == / is on members of str-mixed enums is identity of members; str(member) of a StrEnum is its value (CPython >= 3.11)",
    "S4 no exception other than explicit raise, modelled failing operations and exceptions declared in callee contracts "
    "(no MemoryError/RecursionError/signals)",
    "S5 logging calls neither raise nor change modelled state",
    "S6 distinct parameters do not alias unless the contract says so; objects created on a path are fresh",
    "S7 partial correctness: termination is not proved",
]


def _jsonable(x: Any) -> Any:
    try:
        json.dumps(x)
        return x
    except TypeError:
        if isinstance(x, dict):
            return {str(k): _jsonable(v) for k, v in x.items()}
        if isinstance(x, (list, tuple, set, frozenset)):
            return [_jsonable(v) for v in x]
        return repr(x)


class KnownFindings:
    """Read-only view of /verif/known_findings.json (never written at run time)."""

    def __init__(self) -> None:
        path = VERIF / "known_findings.json"
        data = json.loads(path.read_text()) if path.exists() else {}
        self.findings: List[dict] = data.get("findings", [])
        self.fixed: List[dict] = data.get("fixed", [])

    def match(self, prop: str, signature: str) -> Optional[dict]:
        for f in self.findings:
            if f.get("property") == prop and f.get("signature") == signature:
                return f
        return None


class Ctx:
    """One run of one property's check."""

    def __init__(self, prop: str, tier: str, seed: int, claimed_level: str = "other") -> None:
        self.prop = prop
        self.tier = tier
        self.seed = seed
        self.claimed_level = claimed_level
        self.t0 = time.time()
        self.obligations: List[dict] = []
        self.bounded_parts: List[dict] = []
        self.violations: List[dict] = []
        self.known: List[dict] = []
        self.undecided: List[dict] = []
        self.functions: List[dict] = []
        self.inlined: List[str] = []
        self.trusted: List[str] = []
        self.assumptions: List[str] = list(SEMANTIC_ASSUMPTIONS)
        self.notes: List[str] = []
        self.crosscheck = {"summaries": 0, "concrete_runs": 0, "disagreements": 0}
        self.canaries = {"expected_sat": 0, "got_sat": 0}
        self.samples: List[Any] = []
        self.solver_s = 0.0
        self.kf = KnownFindings()
        self.explanation = ""
        self.crashed = False
        (VERIF / "replays" / prop).mkdir(parents=True, exist_ok=True)
        (VERIF / "evidence").mkdir(parents=True, exist_ok=True)

    # ---------------------------------------------------------------- proof side
    def function_under_contract(self, qualname: str, file: str, line: int, source: str, kind: str = "P") -> None:
        self.functions.append(
            {"function": qualname, "file": file, "line": line, "kind": kind,
             "sha1": hashlib.sha1(source.encode()).hexdigest()}
        )

    def obligation(self, name: str, status: str, backend: str = "z3-api-5.1.0", seconds: float = 0.0,
                   detail: Optional[str] = None, paths: Optional[int] = None) -> None:
        """status: discharged | exhaustive (decided by complete enumeration) | undecided | violated"""
        assert status in ("discharged", "exhaustive", "undecided", "violated"), status
        rec = {"name": f"{self.prop}/{name}" if not name.startswith(self.prop) else name, "status": status,
               "backend": backend, "seconds": round(seconds, 4)}
        if detail:
            rec["detail"] = detail
        if paths is not None:
            rec["paths"] = paths
        self.obligations.append(rec)
        self.solver_s += seconds
        if status == "undecided":
            self.undecided.append(rec)
            print(f"UNDECIDED obligation={rec['name']} {detail or ''}".rstrip())

    def bounded(self, name: str, evaluations: int, distinct_nontrivial: int, rule: str, samples: List[Any],
                exhaustive: bool = False, bound: Optional[str] = None, seconds: float = 0.0) -> None:
        self.bounded_parts.append(
            {"name": name, "evaluations": int(evaluations), "distinct_nontrivial": int(distinct_nontrivial),
             "rule": rule, "samples": _jsonable(samples[:5]), "exhaustive": bool(exhaustive), "bound": bound,
             "seconds": round(seconds, 2), "label": "bounded (never counted as proved)"}
        )

    def trust(self, *names: str) -> None:
        for n in names:
            if n not in self.trusted:
                self.trusted.append(n)

    def assume(self, text: str) -> None:
        if text not in self.assumptions:
            self.assumptions.append(text)

    def note(self, text: str) -> None:
        self.notes.append(text)
        print(f"NOTE {text}")

    # ---------------------------------------------------------------- violations
    def violation(self, obligation: str, message: str, witness: Optional[dict] = None, replayed: bool = False,
                  signature: Optional[str] = None, solver_output: Optional[str] = None,
                  replay_code: Optional[str] = None) -> None:
        """Report a violated obligation.  `witness` is the failing concrete input (replayed on the real code when
        `replayed`), `signature` identifies the failing input for the known-findings file."""
        oname = f"{self.prop}/{obligation}" if not obligation.startswith(self.prop) else obligation
        sig = signature or (json.dumps(_jsonable(witness), sort_keys=True)[:300] if witness is not None else oname)
        kf = self.kf.match(self.prop, sig)
        if kf is not None:
            if not any(k["signature"] == sig for k in self.known):
                self.known.append({"obligation": oname, "signature": sig, "what": kf.get("what", message)})
                print(f"KNOWN-FINDING: property={self.prop} {kf.get('what', message)}")
            return
        safe = "".join(c if c.isalnum() or c in "-_." else "_" for c in oname.split("/", 1)[-1])[:120]
        path = VERIF / "replays" / self.prop / f"{safe}.json"
        rec = {
            "property": self.prop, "obligation": oname, "message": message, "witness": _jsonable(witness),
            "replayed_on_real_code": bool(replayed), "signature": sig, "solver_output": solver_output,
            "replay_code": replay_code, "tier": self.tier, "seed": self.seed,
            "how_to_replay": f"./vcheck replay {path.relative_to(VERIF)}",
        }
        path.write_text(json.dumps(rec, indent=1, ensure_ascii=False))
        self.violations.append(rec)
        tail = "" if (witness is not None and replayed) else " no-failing-input-found"
        print(f"VIOLATION property={self.prop} replay={path.relative_to(VERIF)}{tail}")
        print(f"  obligation={oname}: {message}")

    # ---------------------------------------------------------------- evidence
    def finish(self) -> int:
        wall = time.time() - self.t0
        n_obl = len(self.obligations)
        n_dis = sum(1 for o in self.obligations if o["status"] in ("discharged", "exhaustive"))
        evals = sum(b["evaluations"] for b in self.bounded_parts) + self.crosscheck["concrete_runs"]
        distinct = sum(b["distinct_nontrivial"] for b in self.bounded_parts)
        samples: List[Any] = []
        for o in self.obligations[:3]:
            samples.append({"obligation": o["name"], "status": o["status"]})
        for b in self.bounded_parts:
            samples.extend(b["samples"][:2])
        samples.extend(self.samples[:3])
        level = self.claimed_level
        if level == "proof" and (n_obl == 0 or n_dis < n_obl):
            level = "other"  # a proof claim with an undecided obligation is downgraded for this run
        if level == "exploration" and (evals < 1 or distinct < 2):
            level = "other"
        rules = "; ".join(f"[{b['name']}] {b['rule']}" for b in self.bounded_parts) or \
            "no bounded part; counts are concrete cross-check runs of the symbolic summaries against CPython"
        coverage: Dict[str, Any] = {
            "obligations": n_obl,
            "discharged": n_dis,
            "checker_cmd": f"./vcheck {self.prop} --tier {self.tier}",
            "trusted_base": self.trusted,
            "evaluations": int(evals),
            "distinct_nontrivial": int(distinct),
            "rule": rules,
            "samples": _jsonable(samples) or [{"note": "no sample"}],
            "exhaustive": bool(self.bounded_parts) and all(b["exhaustive"] for b in self.bounded_parts),
            "explanation": self.explanation or "see DESIGN.md",
            "obligation_list": self.obligations,
            "undecided": self.undecided,
            "functions_under_contract": self.functions,
            "inlined_helpers": self.inlined,
            "bounded_parts": self.bounded_parts,
            "solver_time_s": round(self.solver_s, 3),
            "crosscheck": self.crosscheck,
            "canaries": self.canaries,
            "known_findings_reported": self.known,
            "notes": self.notes,
        }
        ev = {
            "property_id": self.prop, "tier": self.tier, "seed": self.seed, "level": level, "coverage": coverage,
            "assumptions": self.assumptions, "wall_s": round(wall, 2), "violations": len(self.violations),
        }
        # runs against scratch copies (self-test, seeded / harmless patches) write elsewhere: the evidence directory of
        # /verif only ever describes /repo itself
        out_dir = Path(os.environ["VERIF_EVIDENCE_DIR"]) if os.environ.get("VERIF_EVIDENCE_DIR") else VERIF / "evidence"
        out_dir.mkdir(parents=True, exist_ok=True)
        (out_dir / f"{self.prop}.json").write_text(json.dumps(ev, indent=1, ensure_ascii=False))
        print(f"SUMMARY property={self.prop} tier={self.tier} level={level} obligations={n_obl} discharged={n_dis} "
              f"undecided={len(self.undecided)} bounded_evaluations={evals} violations={len(self.violations)} "
              f"known_findings={len(self.known)} wall={wall:.1f}s")
        if self.violations:
            return 1
        if n_obl == 0 and evals == 0:
            print("ERROR nothing was explored")
            return 2
        return 0


def run_check(prop: str, tier: str, seed: int, fn, claimed_level: str) -> int:
    ctx = Ctx(prop, tier, seed, claimed_level)
    try:
        fn(ctx)
    except SystemExit:
        raise
    except BaseException:  # noqa: checker crash, never a verdict
        traceback.print_exc()
        print(f"CHECKER-CRASH property={prop}")
        try:
            ctx.note("checker crashed: " + traceback.format_exc()[-400:])
            ctx.finish()
        except BaseException:  # noqa
            pass
        return 3
    return ctx.finish()
