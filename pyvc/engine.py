"""Second half of the executor: statements, calls (inline / modular / library), constructors, builtins, loops."""
from __future__ import annotations

import ast
from typing import Any, Callable, Dict, List, Optional, Sequence, Tuple

import z3

from pyvc import lists as L
from pyvc.executor import _MISSING, _UNBOUND, EXC_BUILTINS, Executor, Res
from pyvc.frontend import BUILTIN_EXC_BASES, ClassInfo
from pyvc.state import Frame, State
from pyvc.values import (BuiltinV, ClassV, CoroV, DictObj, Exc, FuncV, ListObj, ModV, Obj, Opaque, Ref, Sc, SV, Tup,
                         Unsupported, mk_b, mk_e, mk_i, mk_s, sv_bool, sv_int, sv_none, sv_str, truthy)

Ctl = Any  # None | ('return', v) | ('raise', Exc) | ('break',) | ('continue',)


def assigned_names(fn: ast.AST) -> set:
    """names that are local because they are assigned somewhere in the function body (nested defs excluded)"""
    out: set = set()

    def visit(n: ast.AST) -> None:
        for c in ast.iter_child_nodes(n):
            if isinstance(c, (ast.FunctionDef, ast.AsyncFunctionDef, ast.Lambda, ast.ClassDef)):
                if isinstance(c, (ast.FunctionDef, ast.AsyncFunctionDef, ast.ClassDef)):
                    out.add(c.name)
                continue
            if isinstance(c, (ast.ListComp, ast.SetComp, ast.DictComp, ast.GeneratorExp)):
                continue
            if isinstance(c, ast.Name) and isinstance(c.ctx, ast.Store):
                out.add(c.id)
            if isinstance(c, ast.ExceptHandler) and c.name:
                out.add(c.name)
            if isinstance(c, (ast.Import, ast.ImportFrom)):
                for a in c.names:
                    out.add((a.asname or a.name).split(".")[0])
            visit(c)
    visit(fn)
    return out


class Engine(Executor):
    # ------------------------------------------------------------------------------------------------ statements
    def exec_block(self, stmts: Sequence[ast.stmt], st: State) -> List[Tuple[State, Ctl]]:
        states: List[Tuple[State, Ctl]] = [(st, None)]
        for stmt in stmts:
            nxt: List[Tuple[State, Ctl]] = []
            for s, ctl in states:
                if ctl is not None:
                    nxt.append((s, ctl))
                else:
                    nxt.extend(self.exec_stmt(stmt, s))
            states = nxt
        return states

    def exec_stmt(self, stmt: ast.stmt, st: State) -> List[Tuple[State, Ctl]]:
        m = getattr(self, "s_" + type(stmt).__name__, None)
        if m is None:
            raise Unsupported(f"statement {type(stmt).__name__} at line {stmt.lineno}")
        return m(stmt, st)

    @staticmethod
    def _ctl(rs: List[Res], f: Callable[[State, Any], List[Tuple[State, Ctl]]]) -> List[Tuple[State, Ctl]]:
        out: List[Tuple[State, Ctl]] = []
        for s, v in rs:
            if isinstance(v, Exc):
                out.append((s, ("raise", v)))
            else:
                out.extend(f(s, v))
        return out

    def s_Expr(self, stmt: ast.Expr, st: State):
        if isinstance(stmt.value, ast.Constant):
            return [(st, None)]  # docstring
        return self._ctl(self.eval(stmt.value, st), lambda s, v: [(s, None)])

    def s_Pass(self, stmt, st):
        return [(st, None)]

    def s_Break(self, stmt, st):
        return [(st, ("break",))]

    def s_Continue(self, stmt, st):
        return [(st, ("continue",))]

    def s_Return(self, stmt: ast.Return, st: State):
        if stmt.value is None:
            return [(st, ("return", sv_none()))]
        return self._ctl(self.eval(stmt.value, st), lambda s, v: [(s, ("return", v))])

    def s_Assign(self, stmt: ast.Assign, st: State):
        def go(s, v):
            states: List[Any] = [s]
            for tgt in stmt.targets:
                nxt: List[Any] = []
                for s1 in states:
                    if isinstance(s1, tuple):
                        nxt.append(s1)
                    else:
                        nxt.extend(self.assign_target(s1, tgt, v))
                states = nxt
            return [(x[0], ("raise", x[1])) if isinstance(x, tuple) else (x, None) for x in states]
        return self._ctl(self.eval(stmt.value, st), go)

    def s_AnnAssign(self, stmt: ast.AnnAssign, st: State):
        if stmt.value is None:
            return [(st, None)]
        return self._ctl(self.eval(stmt.value, st),
                         lambda s, v: [(x[0], ("raise", x[1])) if isinstance(x, tuple) else (x, None)
                                       for x in self.assign_target(s, stmt.target, v)])

    def s_AugAssign(self, stmt: ast.AugAssign, st: State):
        load = _to_load(stmt.target)

        def go(s, vs):
            out = []
            for s2, r in self.binop(s, stmt.op, vs[0], vs[1]):
                if isinstance(r, Exc):
                    out.append((s2, ("raise", r)))
                else:
                    out.extend((x[0], ("raise", x[1])) if isinstance(x, tuple) else (x, None)
                               for x in self.assign_target(s2, stmt.target, r))
            return out
        return self._ctl(self.eval_list([load, stmt.value], st), go)

    def assign_target(self, st: State, tgt: ast.expr, v) -> List[Any]:
        """returns states, or (state, Exc) tuples for failing assignments"""
        if isinstance(tgt, ast.Name):
            fr = st.frame
            # nonlocal is not supported: assignment always binds in the current frame
            fr.locals[tgt.id] = v
            return [st]
        if isinstance(tgt, ast.Attribute):
            out: List[Any] = []
            for s, o in self.eval(tgt.value, st):
                if isinstance(o, Exc):
                    out.append((s, o))
                    continue
                out.extend(self.setattr(s, o, tgt.attr, v))
            return out
        if isinstance(tgt, ast.Subscript):
            out = []
            for s, vs in self.eval_list([tgt.value, tgt.slice], st):
                if isinstance(vs, Exc):
                    out.append((s, vs))
                    continue
                out.extend(self.setitem(s, vs[0], vs[1], v))
            return out
        if isinstance(tgt, (ast.Tuple, ast.List)):
            if isinstance(v, Tup):
                items = list(v.items)
            else:
                lt = self.as_lt(st, v)
                items = lt.concrete_items() if lt.is_concrete() else None
                if items is None:
                    raise Unsupported("unpacking a list of symbolic length")
            if len(items) != len(tgt.elts):
                return [self.raise_(st, "ValueError", sv_str("unpack"))]
            states: List[Any] = [st]
            for t, x in zip(tgt.elts, items):
                nxt: List[Any] = []
                for s in states:
                    if isinstance(s, tuple):
                        nxt.append(s)
                    else:
                        nxt.extend(self.assign_target(s, t, x))
                states = nxt
            return states
        raise Unsupported(f"assignment target {type(tgt).__name__}")

    def setattr(self, st: State, o, attr: str, v) -> List[Any]:
        if isinstance(o, Ref) and isinstance(st.heap[o.oid], Obj):
            obj = st.heap[o.oid]
            key = f"{obj.cls}.{attr}:set"
            if key in self.attr_library:
                return self.attr_library[key](self, st, o, attr, v)
            obj.fields[attr] = v
            st.log.append(("write", o.oid, attr))
            return [st]
        if isinstance(o, Opaque):
            st.log.append(("write-opaque", o.tag, attr))
            return [st]
        raise Unsupported(f"attribute assignment on {o!r}")

    def setitem(self, st: State, c, k, v) -> List[Any]:
        if isinstance(c, Ref):
            o = st.heap[c.oid]
            if isinstance(o, DictObj):
                if o.tail is not None:
                    raise Unsupported("insertion into an accumulated dict")
                outs: List[Any] = []
                cur = st
                for i in range(len(o.entries)):
                    k2 = cur.heap[c.oid].entries[i][0]
                    nxt = None
                    for s, hit in self.branch(cur, self.eq(cur, k, k2)):
                        if hit:
                            s.heap[c.oid].entries[i] = (k2, v)
                            outs.append(s)
                        else:
                            nxt = s
                    if nxt is None:
                        return outs
                    cur = nxt
                cur.heap[c.oid].entries.append((k, v))
                cur.log.append(("write", c.oid, "setitem"))
                outs.append(cur)
                return outs
            if isinstance(o, ListObj):
                if o.lt.is_concrete():
                    items = o.lt.concrete_items()
                    i = self.concrete_int(k)
                    items[i] = v
                    o.lt = L.LT.of(items)
                    return [st]
        raise Unsupported("item assignment on this container")

    def s_If(self, stmt: ast.If, st: State):
        out: List[Tuple[State, Ctl]] = []
        for s, c in self.eval(stmt.test, st):
            if isinstance(c, Exc):
                out.append((s, ("raise", c)))
                continue
            for s2, t in self.branch(s, self.truth(s, c)):
                out.extend(self.exec_block(stmt.body if t else stmt.orelse, s2))
        return out

    def s_Assert(self, stmt: ast.Assert, st: State):
        out: List[Tuple[State, Ctl]] = []
        for s, c in self.eval(stmt.test, st):
            if isinstance(c, Exc):
                out.append((s, ("raise", c)))
                continue
            for s2, t in self.branch(s, self.truth(s, c)):
                if t:
                    out.append((s2, None))
                else:
                    s3, ex = self.raise_(s2, "AssertionError")
                    out.append((s3, ("raise", ex)))
        return out

    def s_Raise(self, stmt: ast.Raise, st: State):
        if stmt.exc is None:
            cur = st.ghost.get("handling")
            if not cur:
                raise Unsupported("bare raise outside a handler")
            return [(st, ("raise", cur[-1]))]

        def go(s, v):
            if isinstance(v, ClassV):
                rs = self.construct(s, v, [], {})
                return self._ctl(rs, lambda s2, r: [(s2, ("raise", Exc(s2.heap[r.oid].cls, r)))])
            if isinstance(v, Ref) and isinstance(s.heap[v.oid], Obj):
                o = s.heap[v.oid]
                if o.kind is not None:
                    raise Unsupported("raise of an object with symbolic class")
                return [(s, ("raise", Exc(o.cls, v)))]
            raise Unsupported(f"raise of {v!r}")
        return self._ctl(self.eval(stmt.exc, st), go)

    def exc_matches(self, cls: str, handler_type: Optional[ast.expr], st: State) -> bool:
        if handler_type is None:
            return True
        names: List[str] = []
        if isinstance(handler_type, ast.Tuple):
            for e in handler_type.elts:
                names.append(_simple_name(e))
        else:
            names.append(_simple_name(handler_type))
        mro = self.repo.mro(cls)
        return any(n in mro for n in names)

    def s_Try(self, stmt: ast.Try, st: State):
        if stmt.finalbody:
            # try/.../finally: the final block runs after every outcome of the rest; if it completes normally the
            # pending outcome (return / raise / break / continue / fall-through) goes on, otherwise its own outcome wins
            inner = ast.Try(body=stmt.body, handlers=stmt.handlers, orelse=stmt.orelse, finalbody=[])
            ast.copy_location(inner, stmt)
            out_f: List[Tuple[State, Ctl]] = []
            for s, ctl in (self.s_Try(inner, st) if (stmt.handlers or stmt.orelse) else self.exec_block(stmt.body, st)):
                for s2, c2 in self.exec_block(stmt.finalbody, s):
                    out_f.append((s2, ctl if c2 is None else c2))
            return out_f
        out: List[Tuple[State, Ctl]] = []
        for s, ctl in self.exec_block(stmt.body, st):
            if ctl is None:
                if stmt.orelse:
                    out.extend(self.exec_block(stmt.orelse, s))
                else:
                    out.append((s, None))
                continue
            if ctl[0] != "raise":
                out.append((s, ctl))
                continue
            exc: Exc = ctl[1]
            for h in stmt.handlers:
                if self.exc_matches(exc.cls, h.type, s):
                    if h.name:
                        s.frame.locals[h.name] = exc.ref
                    s.ghost["handling"] = list(s.ghost.get("handling", [])) + [exc]
                    for s2, c2 in self.exec_block(h.body, s):
                        s2.ghost["handling"] = list(s2.ghost.get("handling", []))[:-1]
                        if h.name:
                            s2.frame.locals[h.name] = _UNBOUND
                        out.append((s2, c2))
                    break
            else:
                out.append((s, ctl))
        return out

    def s_FunctionDef(self, stmt, st: State):
        st.frame.locals[stmt.name] = FuncV(stmt, st.frame.mod, f"{st.frame.qualname}.{stmt.name}",
                                           closure_fid=st.frame.fid)
        return [(st, None)]

    s_AsyncFunctionDef = s_FunctionDef

    def s_ImportFrom(self, stmt: ast.ImportFrom, st: State):
        for a in stmt.names:
            mod = self.repo.modules.get(stmt.module or "")
            if mod is None:
                st.frame.locals[a.asname or a.name] = self.external_name(f"{stmt.module}.{a.name}", a.name)
            else:
                st.frame.locals[a.asname or a.name] = self.lookup_global(mod, a.name)
        return [(st, None)]

    def s_Import(self, stmt: ast.Import, st: State):
        for a in stmt.names:
            st.frame.locals[(a.asname or a.name).split(".")[0]] = ModV(a.name)
        return [(st, None)]

    def s_Global(self, stmt, st):
        raise Unsupported("global statement")

    def s_While(self, stmt, st):
        raise Unsupported("while loop")

    def s_With(self, stmt, st):
        raise Unsupported("with statement")

    # ------------------------------------------------------------------------------------------------ for loops
    def s_For(self, stmt: ast.For, st: State):
        if stmt.orelse:
            raise Unsupported("for/else")
        out: List[Tuple[State, Ctl]] = []
        for s, src in self.eval(stmt.iter, st):
            if isinstance(src, Exc):
                out.append((s, ("raise", src)))
                continue
            lt = self.iter_lt(s, src)
            if lt.is_concrete():
                out.extend(self.unroll(stmt, s, lt.concrete_items()))
            else:
                out.extend(self.symbolic_loop(stmt, s, lt))
        return out

    def unroll(self, stmt: ast.For, st: State, items: List[Any]) -> List[Tuple[State, Ctl]]:
        states: List[Tuple[State, Ctl]] = [(st, None)]
        for item in items:
            nxt: List[Tuple[State, Ctl]] = []
            for s, ctl in states:
                if ctl is not None:
                    nxt.append((s, ctl))
                    continue
                for s1 in self.assign_target(s, stmt.target, item):
                    if isinstance(s1, tuple):
                        nxt.append((s1[0], ("raise", s1[1])))
                        continue
                    for s2, c2 in self.exec_block(stmt.body, s1):
                        if c2 is not None and c2[0] == "continue":
                            c2 = None
                        nxt.append((s2, c2))
            states = nxt
        return [(s, None if (c is not None and c[0] == "break") else c) for s, c in states]

    def symbolic_loop(self, stmt: ast.For, st: State, lt: L.LT) -> List[Tuple[State, Ctl]]:
        # idiom 1: for x in xs: acc.append(f(x))
        body = [b for b in stmt.body if not (isinstance(b, ast.Expr) and isinstance(b.value, ast.Constant))]
        if len(body) == 1 and _is_append(body[0]):
            acc_name, arg = _is_append(body[0])
            acc = st.frame.locals.get(acc_name)
            if isinstance(acc, Ref) and isinstance(st.heap[acc.oid], ListObj):
                g = ast.comprehension(target=stmt.target, iter=stmt.iter, ifs=[], is_async=0)
                saved = self.save_targets(st, stmt.target)
                rs = self.comp_symbolic(st, g, arg, lt)
                out = []
                for s, r in rs:
                    s.heap[acc.oid].lt = s.heap[acc.oid].lt.cat(r)
                    # after the loop the target holds the last element (or stays unbound): not modelled -> poison
                    for n in saved:
                        s.frame.locals[n] = _LOOPVAR
                    out.append((s, None))
                return out
        # idiom 2: for sub in xs: for item in sub: acc.append(item)
        if len(body) == 1 and isinstance(body[0], ast.For) and isinstance(stmt.target, ast.Name) \
                and isinstance(body[0].iter, ast.Name) and body[0].iter.id == stmt.target.id \
                and len(body[0].body) == 1 and _is_append(body[0].body[0]) and isinstance(body[0].target, ast.Name):
            acc_name, arg = _is_append(body[0].body[0])
            if isinstance(arg, ast.Name) and arg.id == body[0].target.id:
                acc = st.frame.locals.get(acc_name)
                if isinstance(acc, Ref) and isinstance(st.heap[acc.oid], ListObj):
                    st.heap[acc.oid].lt = st.heap[acc.oid].lt.cat(self.flatten(st, lt))
                    st.frame.locals[stmt.target.id] = _LOOPVAR
                    st.frame.locals[body[0].target.id] = _LOOPVAR
                    return [(st, None)]
        handler = getattr(self, "loop_handler", None)
        if handler is not None:
            r = handler(self, stmt, st, lt)
            if r is not None:
                return r
        return self.accumulating_loop(stmt, st, lt)

    def flatten(self, st: State, lt: L.LT) -> L.LT:
        """concat of a list term whose elements are lists"""
        def f(item, binders) -> L.LT:
            if isinstance(item, L.LT):
                return item
            if isinstance(item, Ref) and isinstance(st.heap[item.oid], ListObj):
                return st.heap[item.oid].lt
            raise L.ShapeMismatch(f"flatten: element {item!r} is not a list")
        out = []
        for s in lt.segs:
            if isinstance(s, L.Abs):
                out.append(L.Abs("concat:" + s.sym, s.args))
            else:
                try:
                    out.append(L.lt_map(L.LT([s]), f))
                except L.ShapeMismatch as sm:
                    raise Unsupported(str(sm))
        return L.LT(out)

    def accumulating_loop(self, stmt: ast.For, st: State, lt: L.LT) -> List[Tuple[State, Ctl]]:
        """Loop over a symbolic list whose only loop-carried effects are (a) insertions into local accumulator dicts /
        appends to local lists and (b) assignments to scalar locals.  The body is executed once for a generic element;
        scalars assigned in the body are havocked at the start of the generic iteration (sound over-approximation) and
        take their end-of-last-iteration value after the loop."""
        if not (len(lt.segs) == 1 and isinstance(lt.segs[0], L.MapSeg)):
            raise Unsupported("loop over a list term of this shape")
        seg = lt.segs[0]
        one = L.single_element(seg.body)
        if one is None:
            raise Unsupported("loop over a list term of this shape")
        elem_guard, elem = one  # the element at index ivar exists only under this guard (filtered lists)
        if elem_guard is None:
            elem_guard = z3.BoolVal(True)
        assigned = sorted(assigned_names(ast.Module(body=stmt.body, type_ignores=[])))
        accs = {}
        for n, v in st.frame.locals.items():
            if not isinstance(v, Ref) or n in assigned:
                continue
            o = st.heap.get(v.oid)
            if isinstance(o, (DictObj, ListObj)):
                accs[n] = v
            elif isinstance(o, Obj) and o.kind is None and o.ident is None:
                # lists / dicts held in fields of a local object (e.g. result.hint_keys)
                for fname, fv in o.fields.items():
                    if isinstance(fv, Ref) and isinstance(st.heap.get(fv.oid), (DictObj, ListObj)):
                        accs[f"{n}.{fname}"] = fv
        seen_oids = set()
        for n in list(accs):
            if accs[n].oid in seen_oids or any(isinstance(x, L.MapSeg) and x is seg for x in ()):  # de-duplicate
                del accs[n]
            else:
                seen_oids.add(accs[n].oid)
        # the iterated list itself is not an accumulator
        accs = {n: r for n, r in accs.items() if not (isinstance(st.heap[r.oid], ListObj) and st.heap[r.oid].lt is lt)}
        base = st.fork()
        pc_len = len(base.pc)
        base.assume(z3.And(seg.ivar >= 0, seg.ivar < seg.n, elem_guard))
        pre_vals = {}
        for n in assigned:
            if n in _names(stmt.target):
                continue
            cur = base.frame.locals.get(n, _UNBOUND)
            pre_vals[n] = cur
            base.frame.locals[n] = _HAVOC  # value from the previous iteration: unknown; reading it is unsupported
        # a loop invariant from the side-car contract gives loop-carried scalars a value in the generic iteration
        inv = self.invariant_for(st, stmt)
        inv_names: List[str] = []
        inv_axiom = None
        if inv is not None:
            if not z3.is_true(z3.simplify(elem_guard)):
                raise Unsupported("loop invariant on a loop over a filtered sequence")
            inv_c, inv_clause, inv_params = inv
            # parameters of the invariant: `iteration`, locals / parameters of the function by name, and ROLES
            # `carried_int_0`, `carried_bool_1`, ... = the k-th loop-carried scalar local of that type in order of its
            # first assignment in the loop body (so that renaming a temporary does not touch the invariant)
            order = {}
            for node in ast.walk(ast.Module(body=stmt.body, type_ignores=[])):
                for t in (node.targets if isinstance(node, ast.Assign) else
                          [node.target] if isinstance(node, (ast.AugAssign, ast.AnnAssign)) else []):
                    if isinstance(t, ast.Name):
                        order.setdefault(t.id, (node.lineno, node.col_offset))
            roles: Dict[str, str] = {}
            counters: Dict[str, int] = {}
            for n in sorted((n for n in pre_vals if n in order), key=lambda n: order[n]):
                v0 = pre_vals[n]
                if isinstance(v0, SV) and v0.ty in ("int", "bool", "str") and _loop_carried(stmt.body, n):
                    k = counters.get(v0.ty, 0)
                    counters[v0.ty] = k + 1
                    roles[f"carried_{v0.ty}_{k}"] = n
            self._inv_roles = roles
            inv_names = [roles.get(n, n) for n in inv_params if roles.get(n, n) in pre_vals]
            f0 = inv_c.clause_formula(self, st, inv_clause, self._inv_env(st, inv_params, sv_int(0)))
            self.side_obligations.append((f"loop-invariant/{inv_clause}/holds-on-entry", list(st.pc), f0,
                                          f"loop invariant {inv_clause} before the first iteration"))
            saved_ctx0 = self.index_ctx
            self.index_ctx = list(saved_ctx0) + [seg.ivar]
            try:
                for n in inv_names:
                    base.frame.locals[n] = self._fresh_like(pre_vals[n], n)
            finally:
                self.index_ctx = saved_ctx0
            inv_axiom = inv_c.clause_formula(self, base, inv_clause,
                                             self._inv_env(base, inv_params, SV(mk_i(seg.ivar), "int")))
            base.assume(inv_axiom, axiom=True)
        # fresh accumulators for the generic iteration so that insertions can be collected
        marks = {}
        for n, r in accs.items():
            o = base.heap[r.oid]
            marks[n] = (len(o.entries) if isinstance(o, DictObj) else len(o.lt.segs))
        results = []
        saved_ctx = self.index_ctx
        self.index_ctx = list(saved_ctx) + [seg.ivar]  # symbols created in the body are per iteration
        try:
            # the loop variable is bound to a copy of the generic element: a write to it affects this element only
            elem_i = self.subst(base, elem, seg.ivar, seg.ivar)
            for s0 in self.assign_target(base, stmt.target, elem_i):
                if isinstance(s0, tuple):
                    raise Unsupported("loop target assignment may fail")
                results.extend(self.exec_block(stmt.body, s0))
        finally:
            self.index_ctx = saved_ctx
        per_acc: Dict[str, List[Any]] = {n: [] for n in accs}
        finals: List[Tuple[z3.BoolRef, Dict[str, Any]]] = []
        exits: List[Tuple[State, Ctl]] = []
        for s, ctl in results:
            guard_list, ax = s.split(s.pc[pc_len + 1:])
            guard = z3.And(*guard_list) if guard_list else z3.BoolVal(True)
            for a_ in ax:
                if inv_axiom is not None and a_.eq(inv_axiom):
                    # induction hypothesis: holds at the start of every iteration in range (entry + preservation)
                    st.assume(z3.ForAll([seg.ivar], z3.Implies(z3.And(seg.ivar >= 0, seg.ivar < seg.n), a_)), axiom=True)
                else:
                    st.assume(z3.ForAll([seg.ivar], a_), axiom=True)
            if inv is not None and (ctl is None or ctl[0] == "continue"):
                for n in inv_names:
                    nv, ov = s.frame.locals.get(n), base.frame.locals[n]
                    if not (isinstance(nv, SV) and nv.ty == ov.ty):
                        raise Unsupported(f"loop-carried local {n} changes its type")
                f1 = inv_c.clause_formula(self, s, inv_clause,
                                          self._inv_env(s, inv_params, SV(mk_i(seg.ivar + 1), "int")))
                self.side_obligations.append((f"loop-invariant/{inv_clause}/is-preserved", list(s.pc), f1,
                                              f"loop invariant {inv_clause} after a generic iteration"))
            if ctl is not None and ctl[0] in ("raise", "return"):
                # leaving the loop from a generic iteration: allowed, reported as an exit at index ivar
                exits.append((s, ctl))
                continue
            if ctl is not None and ctl[0] == "break":
                raise Unsupported("break in a symbolic loop")
            for n, r in accs.items():
                o = s.heap[r.oid]
                if isinstance(o, DictObj):
                    new = o.entries[marks[n]:]
                    if len(o.entries) < marks[n] or o.entries[:marks[n]] != base.heap[r.oid].entries[:marks[n]]:
                        raise Unsupported("loop body overwrites existing dict entries")
                    items = L.LT.of([Tup([k, v]) for k, v in new])
                else:
                    items = L.LT(o.lt.segs[marks[n]:])
                if items.segs:
                    per_acc[n].append(items if z3.is_true(z3.simplify(guard)) else L.Guard(guard, items))
            finals.append((guard, {n: s.frame.locals.get(n, _UNBOUND) for n in assigned
                                   if n not in _names(stmt.target)}))
            for k, o in s.heap.items():
                st.heap.setdefault(k, o)
        for n, r in accs.items():
            if not per_acc[n]:
                continue
            inner = L.LT(per_acc[n])
            if not z3.is_true(z3.simplify(elem_guard)):
                inner = L.LT([L.Guard(elem_guard, inner)])
            added = L.LT([L.MapSeg(seg.ivar, seg.n, inner, "loop")])
            o = st.heap[r.oid]
            if isinstance(o, DictObj):
                o.tail = added if o.tail is None else o.tail.cat(added)
                st.log.append(("assume-distinct-keys", n))
            else:
                o.lt = o.lt.cat(added)
        out: List[Tuple[State, Ctl]] = []
        carried = [n for n in assigned if n not in _names(stmt.target) and _loop_carried(stmt.body, n)]
        normal_guard = z3.Or(z3.Not(elem_guard), *[g for g, _ in finals]) if finals else z3.Not(elem_guard)
        jv = self.fresh_const("earlier", z3.IntSort())

        def earlier_completed(upto):
            """iterations before `upto` completed normally (their guards do not depend on loop-carried locals)"""
            return z3.ForAll([jv], z3.Implies(z3.And(jv >= 0, jv < upto), z3.substitute(normal_guard, (seg.ivar, jv))))
        # exits from inside the loop (existential index): the state keeps ivar as a Skolem constant
        for s, ctl in exits:
            if not carried:
                s.assume(earlier_completed(seg.ivar))
            out.append((s, ctl))
        if not carried and exits:
            st.assume(earlier_completed(seg.n))
        # normal termination: n == 0 -> locals keep their pre-loop value; n > 0 -> value at the end of iteration n-1
        for s, zero in self.branch(st, seg.n <= 0):
            if zero:
                for n in _names(stmt.target):
                    s.frame.locals.setdefault(n, _UNBOUND)
                out.append((s, None))
                continue
            last = seg.n - 1
            for guard, vals in finals:
                s2 = s.fork()
                s2.assume(z3.substitute(guard, (seg.ivar, last)))
                if not self.feasible(s2.pc):
                    continue
                for n, v in vals.items():
                    if isinstance(v, SV):
                        s2.frame.locals[n] = SV(z3.substitute(v.t, (seg.ivar, last)), v.ty)
                    elif v is _UNBOUND or v is _HAVOC:
                        s2.frame.locals[n] = pre_vals.get(n, _UNBOUND) if v is _HAVOC else v
                    else:
                        s2.frame.locals[n] = _LOOPVAR
                for n in _names(stmt.target):
                    s2.frame.locals[n] = _LOOPVAR
                if inv is not None:
                    # after the last iteration the invariant holds for iteration == n (conclusion of the induction)
                    for n in inv_names:
                        s2.frame.locals[n] = self._fresh_like(pre_vals[n], n + "_final")
                    s2.assume(inv_c.clause_formula(self, s2, inv_clause,
                                                   self._inv_env(s2, inv_params, SV(mk_i(seg.n), "int"))), axiom=True)
                out.append((s2, None))
        return out

    def invariant_for(self, st: State, stmt: ast.For):
        """(contract, clause name, clause parameters) of the invariant the contract under verification declares for this
        loop (loops of the verified function are numbered in source order), or None"""
        c = getattr(self, "verifying", None)
        table = getattr(c.cls, "loop_invariants", None) if c is not None else None
        if not table or st.frame.qualname != c.target:
            return None
        node = self.repo.function(c.target)[1]
        loops = sorted((n for n in ast.walk(node) if isinstance(n, ast.For)), key=lambda n: (n.lineno, n.col_offset))
        for k, n in enumerate(loops):
            if n is stmt or (n.lineno, n.col_offset) == (stmt.lineno, stmt.col_offset):
                clause = table.get(k)
                if clause is None:
                    return None
                fv = c.clause_fn(self, clause)
                return c, clause, [a.arg for a in fv.node.args.args]
        return None

    def _inv_env(self, st: State, params: List[str], iteration) -> Dict[str, Any]:
        env: Dict[str, Any] = {}
        for p in params:
            if p == "iteration":
                env[p] = iteration
                continue
            v = st.frame.locals.get(getattr(self, "_inv_roles", {}).get(p, p), _UNBOUND)
            if v is _UNBOUND or v is _HAVOC or v is _LOOPVAR:
                raise Unsupported(f"loop invariant reads {p}, which has no value here")
            env[p] = v
        return env

    def _fresh_like(self, v, name: str) -> SV:
        if isinstance(v, SV) and v.ty == "int":
            return SV(mk_i(self.fresh(name, z3.IntSort())), "int")
        if isinstance(v, SV) and v.ty == "bool":
            return SV(mk_b(self.fresh(name, z3.BoolSort())), "bool")
        if isinstance(v, SV) and v.ty == "str":
            return SV(mk_s(self.fresh(name, z3.StringSort())), "str")
        raise Unsupported(f"loop invariant over a local of this kind: {v!r}")

    # ------------------------------------------------------------------------------------------------ calls
    def e_Call(self, e: ast.Call, st: State) -> List[Res]:
        out: List[Res] = []
        for s, fn in self.eval(e.func, st):
            if isinstance(fn, Exc):
                out.append((s, fn))
                continue
            for s2, args in self.eval_list(e.args, s):
                if isinstance(args, Exc):
                    out.append((s2, args))
                    continue
                pos: List[Any] = []
                for a in args:
                    if isinstance(a, tuple) and a and a[0] == "*":
                        if isinstance(a[1], CoroV) or not isinstance(a[1], (Ref, Tup, L.LT)):
                            raise Unsupported("*-argument of this kind")
                        lt = self.as_lt(s2, a[1])
                        if lt.is_concrete():
                            pos.extend(lt.concrete_items())
                        else:
                            pos.append(("*", lt))
                    else:
                        pos.append(a)
                kw_results: List[Tuple[State, Any]] = [(s2, {})]
                for kw in e.keywords:
                    nxt = []
                    for s3, acc in kw_results:
                        if isinstance(acc, Exc):
                            nxt.append((s3, acc))
                            continue
                        for s4, v in self.eval(kw.value, s3):
                            if isinstance(v, Exc):
                                nxt.append((s4, v))
                            elif kw.arg is None:
                                d = s4.heap[v.oid] if isinstance(v, Ref) else None
                                if not isinstance(d, DictObj) or d.tail is not None:
                                    raise Unsupported("** of a non-dict")
                                extra = {}
                                for k, vv in d.entries:
                                    ks = z3.simplify(Sc.sv(k.t))
                                    if not z3.is_string_value(ks):
                                        raise Unsupported("** with symbolic keys")
                                    extra[ks.as_string()] = vv
                                nxt.append((s4, {**acc, **extra}))
                            else:
                                nxt.append((s4, {**acc, kw.arg: v}))
                    kw_results = nxt
                for s3, kwargs in kw_results:
                    if isinstance(kwargs, Exc):
                        out.append((s3, kwargs))
                    else:
                        out.extend(self.call(fn, pos, kwargs, s3))
        return out

    def call(self, fn, args: List[Any], kwargs: Dict[str, Any], st: State, awaited: bool = False) -> List[Res]:
        if st.depth > self.max_depth:
            raise Unsupported("call depth exceeded (recursion without a contract?)")
        if isinstance(fn, FuncV):
            is_async = isinstance(fn.node, ast.AsyncFunctionDef)
            if is_async and not awaited:
                return [(st, CoroV(fn, list(args), dict(kwargs)))]
            contract = self.contracts.get(fn.qualname)
            if contract is not None and fn.qualname != self.no_contract_for and fn.qualname not in self.inline_only:
                return contract.apply(self, st, fn, args, kwargs)
            return self.inline_call(fn, args, kwargs, st)
        if isinstance(fn, ClassV):
            return self.construct(st, fn, args, kwargs)
        if isinstance(fn, BuiltinV):
            return self.builtin(fn, args, kwargs, st)
        if isinstance(fn, Opaque):
            key = fn.tag + "()"
            for pat, h in self.library.items():
                if key == pat or (pat.endswith("*()") and key.startswith(pat[:-3]) and key.endswith("()")):
                    return h(self, st, args, kwargs, fn)
            if "logging" in fn.tag or "logger" in fn.tag:
                # S5: logging calls neither raise nor change modelled state
                if not hasattr(self, "assumed_used"):
                    self.assumed_used = set()
                self.assumed_used.add("S5 logging calls neither raise nor change modelled state")
                return [(st, Opaque(key) if fn.tag.endswith("getLogger") else sv_none())]
            raise Unsupported(f"call of the unmodelled library object {fn.tag}")
        if isinstance(fn, CoroV):
            raise Unsupported("calling a coroutine object")
        raise Unsupported(f"call of {fn!r}")

    def bind_params(self, fn: FuncV, args: List[Any], kwargs: Dict[str, Any], st: State, frame: Frame) -> Optional[Res]:
        a: ast.arguments = fn.node.args
        params = [p.arg for p in a.posonlyargs + a.args]
        pos = list(args)
        if fn.bound_self is not None:
            pos = [fn.bound_self] + pos
        if any(isinstance(x, tuple) and x and x[0] == "*" for x in pos):
            raise Unsupported("symbolic-length *args to a Python function")
        bound: Dict[str, Any] = {}
        if len(pos) > len(params):
            if a.vararg is None:
                return self.raise_(st, "TypeError", sv_str("too many positional arguments"))
            bound[a.vararg.arg] = Tup(pos[len(params):])
            pos = pos[:len(params)]
        elif a.vararg is not None:
            bound[a.vararg.arg] = Tup([])
        for n, v in zip(params, pos):
            bound[n] = v
        extra_kw = {}
        kwonly = [p.arg for p in a.kwonlyargs]
        for k, v in kwargs.items():
            if k in params or k in kwonly:
                if k in bound:
                    return self.raise_(st, "TypeError", sv_str(f"multiple values for {k}"))
                bound[k] = v
            elif a.kwarg is not None:
                extra_kw[k] = v
            else:
                return self.raise_(st, "TypeError", sv_str(f"unexpected keyword argument {k}"))
        if a.kwarg is not None:
            bound[a.kwarg.arg] = self.alloc(st, DictObj([(sv_str(k), v) for k, v in extra_kw.items()]))
        defaults = dict(zip(params[len(params) - len(a.defaults):], a.defaults))
        for p, d in zip(a.kwonlyargs, a.kw_defaults):
            if d is not None:
                defaults[p.arg] = d
        injected = _inject_params(fn.node)
        for n in params + kwonly:
            if n in bound:
                continue
            if n in defaults:
                v = self.eval_default(fn, defaults[n])
                bound[n] = v
            elif n in injected:
                h = self.library.get("inject.provide")
                if h is None:
                    raise Unsupported("inject.params without a model")
                bound[n] = h(self, st, n, injected[n])
            else:
                return self.raise_(st, "TypeError", sv_str(f"missing argument {n}"))
        frame.locals.update(bound)
        return None

    #: decorators that leave the decorated function's behaviour as its body says (or whose effect is modelled elsewhere:
    #: inject.params by the injection models, v_args by the fold models, marshmallow hooks by A-MARSHMALLOW)
    NEUTRAL_DECORATORS = {"staticmethod", "classmethod", "property", "abstractmethod", "abc.abstractmethod", "overload",
                          "typing.overload", "inject.params", "v_args", "post_load", "pre_load", "post_dump", "pre_dump",
                          "wraps", "functools.wraps"}
    #: functions whose caching decorators are the subject of C11 (verified there: tree_copy.decorated)
    CACHED_PARSERS = {"ahbicht.expressions.condition_expression_parser:parse_condition_expression_to_tree",
                      "ahbicht.expressions.ahb_expression_parser:parse_ahb_expression_to_single_requirement_indicator_expressions"}

    def check_decorators(self, fn: FuncV) -> None:
        """the body of a function is what the engine executes: a decorator it does not know (a cache, a retry, a
        wrapper ...) may change what a call does, so such a function is outside the supported subset"""
        if not fn.mod.name.startswith("ahbicht"):
            return
        for d in getattr(fn.node, "decorator_list", []):
            name = ast.unparse(d.func if isinstance(d, ast.Call) else d)
            if name in self.NEUTRAL_DECORATORS:
                continue
            if name in ("lru_cache", "functools.lru_cache", "tree_copy") and fn.qualname in self.CACHED_PARSERS:
                continue
            raise Unsupported(f"decorator @{name} on {fn.qualname} is not modelled")

    def eval_default(self, fn: FuncV, expr: ast.expr):
        st = State()
        fid = self.new_oid()
        st.frames[fid] = Frame(fid, fn.mod, None, fn.qualname + ":<defaults>")
        st.stack.append(fid)
        rs = self.eval(expr, st)
        if len(rs) != 1 or isinstance(rs[0][1], (Exc, Ref)):
            raise Unsupported("non-scalar default value")
        return rs[0][1]

    def inline_call(self, fn: FuncV, args: List[Any], kwargs: Dict[str, Any], st: State) -> List[Res]:
        if isinstance(fn.node, ast.Lambda):
            fr = Frame(self.new_oid(), fn.mod, fn.closure_fid, fn.qualname)
            err = self.bind_params(fn, args, kwargs, st, fr)
            if err is not None:
                return [err]
            st.frames[fr.fid] = fr
            st.stack.append(fr.fid)
            st.depth += 1
            out = []
            for s, v in self.eval(fn.node.body, st):
                s.stack.pop()
                s.depth -= 1
                out.append((s, v))
            return out
        self.inlined_seen.add(fn.qualname)
        self.check_decorators(fn)
        fr = Frame(self.new_oid(), fn.mod, fn.closure_fid, fn.qualname, fn.cls)
        for n in assigned_names(fn.node):
            fr.locals[n] = _UNBOUND
        err = self.bind_params(fn, args, kwargs, st, fr)
        if err is not None:
            return [err]
        st.frames[fr.fid] = fr
        st.stack.append(fr.fid)
        st.depth += 1
        out: List[Res] = []
        for s, ctl in self.exec_block(fn.node.body, st):
            s.stack.pop()
            s.depth -= 1
            if ctl is None:
                out.append((s, sv_none()))
            elif ctl[0] == "return":
                out.append((s, ctl[1]))
            elif ctl[0] == "raise":
                out.append((s, ctl[1]))
            else:
                raise Unsupported("break/continue outside a loop")
        return out

    # ------------------------------------------------------------------------------------------------ constructors
    def construct(self, st: State, c: ClassV, args: List[Any], kwargs: Dict[str, Any]) -> List[Res]:
        name = c.name
        if name in self.class_fields_hook:
            return self.class_fields_hook[name](self, st, args, kwargs)
        ci = self.repo.cls(name)
        if ci is None:
            if name in BUILTIN_EXC_BASES:
                return [(st, self.alloc(st, Obj(name, {"args": Tup(args)})))]
            raise Unsupported(f"constructor of unknown class {name}")
        if ci.is_enum:
            return self.enum_lookup(st, name, args[0])
        if ci.is_attrs:
            return self.construct_attrs(st, name, args, kwargs)
        init = self.repo.find_method(name, "__init__")
        ref = self.alloc(st, Obj(name, {}))
        if "BaseException" in self.repo.mro(name):
            st.heap[ref.oid].fields["args"] = Tup(args)
        if init is None or init[0].name in ("Transformer",):
            return [(st, ref)]
        ci2, node = init
        fv = FuncV(node, ci2.module, f"{ci2.module.name}:{ci2.name}.__init__", bound_self=ref, cls=ci2.name)
        return self.bind(self.call(fv, args, kwargs, st), lambda s, _v: [(s, ref)])

    def enum_lookup(self, st: State, cls: str, v) -> List[Res]:
        members = self.repo.enum_members(cls)
        out: List[Res] = []
        cur = st
        for i, (n, val) in enumerate(members):
            if not isinstance(v, SV):
                raise Unsupported("enum lookup by a non-scalar")
            hit = z3.Or(v.t == mk_e(self.enum_id(cls), i),
                        v.t == (mk_s(val) if isinstance(val, str) else mk_i(val)))
            nxt = None
            for s, h in self.branch(cur, hit):
                if h:
                    out.append((s, self.enum_member(cls, n)))
                else:
                    nxt = s
            if nxt is None:
                return out
            cur = nxt
        out.append(self.raise_(cur, "ValueError", sv_str(f"not a valid {cls}")))
        return out

    def construct_attrs(self, st: State, name: str, args: List[Any], kwargs: Dict[str, Any]) -> List[Res]:
        fields = self.repo.attrs_fields(name)
        ci = self.repo.cls(name)
        vals: Dict[str, Any] = {}
        if args:
            pos_fields = [f for f in fields if not self.repo.cls(f.owner).kw_only]
            if len(args) > len(pos_fields):
                return [self.raise_(st, "TypeError", sv_str("too many positional arguments"))]
            for f, v in zip(pos_fields, args):
                vals[f.name] = v
        for k, v in kwargs.items():
            if not any(f.name == k for f in fields):
                return [self.raise_(st, "TypeError", sv_str(f"unexpected keyword argument {k}"))]
            vals[k] = v
        for f in fields:
            if f.name in vals:
                continue
            if not f.has_default:
                return [self.raise_(st, "TypeError", sv_str(f"missing argument {f.name}"))]
            owner = self.repo.cls(f.owner)
            vals[f.name] = self.lookup_class_attr_default(owner, f)
        # validators (instance_of / optional(instance_of)) on scalar values
        conds = []
        for f in fields:
            chk = self.validator_cond(st, f, vals[f.name])
            if chk is not None:
                conds.append(chk)
        ok = z3.And(*conds) if conds else z3.BoolVal(True)
        out: List[Res] = []
        for s, good in self.branch(st, ok):
            if good:
                out.append((s, self.alloc(s, Obj(name, dict(vals)))))
            else:
                out.append(self.raise_(s, "TypeError", sv_str(f"attrs validator of {name} failed")))
        return out

    def lookup_class_attr_default(self, owner: ClassInfo, f):
        key = (owner.module.name, f"{owner.name}.{f.name}:default")
        if key not in self.module_cache:
            st = State()
            fid = self.new_oid()
            st.frames[fid] = Frame(fid, owner.module, None, f"{owner.module.name}:<class {owner.name}>")
            st.stack.append(fid)
            rs = self.eval(f.default, st)
            if len(rs) != 1 or isinstance(rs[0][1], (Exc, Ref)):
                raise Unsupported(f"default of {owner.name}.{f.name}")
            self.module_cache[key] = rs[0][1]
        return self.module_cache[key]

    def validator_cond(self, st: State, f, v) -> Optional[z3.BoolRef]:
        val = f.validator
        if val is None:
            return None
        optional = False
        d = _dotted_name(val.func) if isinstance(val, ast.Call) else None
        if d and d.endswith("optional") and val.args:
            optional = True
            val = val.args[0]
            d = _dotted_name(val.func) if isinstance(val, ast.Call) else None
        if not (d and d.endswith("instance_of") and val.args):
            return None  # other validators (deep_iterable, matches_re, custom) are not modelled: listed as assumption
        tname = _dotted_name(val.args[0])
        if not isinstance(v, SV):
            return None
        t = v.t
        if tname == "bool":
            c = Sc.is_b(t)
        elif tname == "str":
            c = Sc.is_s(t)
        elif tname == "int":
            c = z3.Or(Sc.is_i(t), Sc.is_b(t))
        else:
            ci = self.repo.cls(tname.split(".")[-1]) if tname else None
            if ci is None or not ci.is_enum:
                return z3.BoolVal(False) if isinstance(v, SV) and ci is not None else None
            c = self.is_enum_of(t, ci.name)
        return z3.Or(Sc.is_none(t), c) if optional else c

    # ------------------------------------------------------------------------------------------------ builtins
    def builtin(self, fn: BuiltinV, args: List[Any], kwargs: Dict[str, Any], st: State) -> List[Res]:
        name = fn.name
        if name in self.library:
            return self.library[name](self, st, args, kwargs, fn)
        m = getattr(self, "b_" + name.replace(".", "_"), None)
        if m is None:
            raise Unsupported(f"builtin / library call {name}")
        return m(st, args, kwargs, fn)

    def b_isinstance(self, st, args, kwargs, fn):
        v, c = args
        cl = list(c.items) if isinstance(c, Tup) else [c]
        if not all(isinstance(x, (ClassV, BuiltinV)) for x in cl):
            raise Unsupported("isinstance with a non-class")
        classes = [x.name for x in cl]
        return [(st, sv_bool(self.isinstance_cond(st, v, classes)))]

    def isinstance_cond(self, st: State, v, classes: List[str]) -> z3.BoolRef:
        if isinstance(v, SV):
            d = []
            for c in classes:
                if c == "str":
                    d.append(Sc.is_s(v.t))
                    d.append(z3.And(Sc.is_e(v.t), z3.Or(*[Sc.ecls(v.t) == i for n, i in self._enum_ids.items()
                                                          if self._is_str_enum(n)] or [z3.BoolVal(False)])))
                elif c == "bool":
                    d.append(Sc.is_b(v.t))
                elif c == "int":
                    d.append(z3.Or(Sc.is_i(v.t), Sc.is_b(v.t)))
                else:
                    ci = self.repo.cls(c)
                    if ci is not None and ci.is_enum:
                        d.append(self.is_enum_of(v.t, c))
                    # a scalar is never an instance of an ordinary class
            return z3.Or(*d) if d else z3.BoolVal(False)
        if isinstance(v, Ref):
            o = st.heap[v.oid]
            if isinstance(o, ListObj):
                return z3.BoolVal("list" in classes)
            if isinstance(o, DictObj):
                return z3.BoolVal("dict" in classes)
            if o.kind is not None:
                ok = [i for i, cand in enumerate(o.cands) if any(self.repo.issubclass(cand, c) for c in classes)]
                return z3.Or(*[o.kind == i for i in ok]) if ok else z3.BoolVal(False)
            return z3.BoolVal(any(self.repo.issubclass(o.cls, c) for c in classes if c not in ("list", "dict", "str")))
        if isinstance(v, Tup):
            return z3.BoolVal("tuple" in classes)
        if isinstance(v, Opaque):
            if v.tag.startswith("inst:"):
                return z3.BoolVal(v.tag[5:] in classes)
            return z3.BoolVal(False)
        if isinstance(v, (CoroV, FuncV, ClassV, L.LT)):
            return z3.BoolVal(False)
        raise Unsupported(f"isinstance of {v!r}")

    def _is_str_enum(self, cls: str) -> bool:
        m = self.repo.mro(cls)
        return "StrEnum" in m or "str" in self.repo.cls(cls).bases

    def b_getattr(self, st, args, kwargs, fn):
        o, name = args[0], args[1]
        nm = z3.simplify(Sc.sv(name.t))
        if not z3.is_string_value(nm):
            raise Unsupported("getattr with a symbolic name")
        return self.getattr(st, o, nm.as_string(), args[2] if len(args) > 2 else None)

    def b_len(self, st, args, kwargs, fn):
        v = args[0]
        if isinstance(v, Tup):
            return [(st, sv_int(len(v.items)))]
        if isinstance(v, SV):
            return [(st, SV(mk_i(z3.Length(Sc.sv(v.t))), "int"))]
        if isinstance(v, Ref):
            o = st.heap[v.oid]
            if isinstance(o, DictObj):
                if o.tail is not None:
                    raise Unsupported("len of an accumulated dict")
                return [(st, sv_int(len(o.entries)))]
            if isinstance(o, ListObj):
                if len(o.lt.segs) == 1 and isinstance(o.lt.segs[0], L.MapSeg) and not o.lt.segs[0].body.is_concrete() \
                        and self.total_alternatives(st, o.lt.segs[0]):
                    seg0 = o.lt.segs[0]   # exactly one element per index
                    return [(st, SV(mk_i(z3.If(seg0.n > 0, seg0.n, 0)), "int"))]
                return [(st, SV(mk_i(L.lt_length(o.lt, lambda a: self._abs_len(st, a))), "int"))]
        if isinstance(v, L.LT):
            return [(st, SV(mk_i(L.lt_length(v, lambda a: self._abs_len(st, a))), "int"))]
        raise Unsupported(f"len of {v!r}")

    def _abs_len(self, st, a):
        if isinstance(a, L.Abs):
            n = self.uf("len_" + a.sym, len(a.args), z3.IntSort())(*[self._as_sc(st, x) for x in a.args])
        else:
            n = self.fresh("len_of_mapped_lists", z3.IntSort())
        st.assume(n >= 0, axiom=True)
        return n

    def b_str(self, st, args, kwargs, fn):
        if not args:
            return [(st, sv_str(""))]
        v = args[0]
        if isinstance(v, Ref) and isinstance(st.heap[v.oid], Obj) and st.heap[v.oid].cls:
            fm = self.repo.find_method(st.heap[v.oid].cls, "__str__")
            if fm and fm[0].module.name.startswith("ahbicht") and not fm[0].is_enum:
                pass  # text of objects is never relied upon: opaque
        if isinstance(v, SV) and v.ty == "int" and fn.name == "str":
            # str(i) of an int: int() of the text gives i back
            return [(st, SV(mk_s(self.to_str(st, v)), "str", {"int": (z3.BoolVal(True), Sc.iv(v.t))}))]
        return [(st, SV(mk_s(self.to_str(st, v)), "str"))]

    b_repr = b_str

    def b_bool(self, st, args, kwargs, fn):
        return [(st, sv_bool(self.truth(st, args[0])))]

    def b_int(self, st, args, kwargs, fn):
        v = args[0]
        if not isinstance(v, SV):
            raise Unsupported("int() of a non-scalar")
        if v.view and "int" in v.view:
            ok, val = v.view["int"]
            out = []
            for s, good in self.branch(st, ok):
                out.append((s, SV(mk_i(val), "int")) if good else self.raise_(s, "ValueError", sv_str("invalid literal")))
            return out
        if v.ty == "int":
            return [(st, v)]
        if v.ty != "str":
            raise Unsupported("int() of a value that is not known to be a string or an int")
        sterm = Sc.sv(v.t)
        digits = z3.InRe(sterm, z3.Plus(z3.Range("0", "9")))
        out = []
        for s, good in self.branch(st, digits):
            if good:
                out.append((s, SV(mk_i(z3.StrToInt(sterm)), "int")))  # a non-empty run of ASCII digits: its decimal value
            else:
                # anything else: Python's int() raises ValueError - or accepts it (surrounding whitespace, a sign,
                # underscores between digits, decimal digits of other scripts) with a value not modelled here
                out.append(self.raise_(s.fork(), "ValueError", sv_str("invalid literal")))
                out.append((s, SV(mk_i(self.fresh("int_of_str", z3.IntSort())), "int")))
        return out

    def b_all(self, st, args, kwargs, fn):
        return self._quant(st, args[0], True)

    def b_any(self, st, args, kwargs, fn):
        return self._quant(st, args[0], False)

    def _quant(self, st: State, v, is_all: bool) -> List[Res]:
        lt = v if isinstance(v, L.LT) else self.as_lt(st, v)

        def walk(t: L.LT) -> z3.BoolRef:
            parts = []
            for s in t.segs:
                if isinstance(s, L.Unit):
                    parts.append(self.truth(st, s.v))
                elif isinstance(s, L.Guard):
                    inner = walk(s.lt)
                    parts.append(z3.Implies(s.cond, inner) if is_all else z3.And(s.cond, inner))
                elif isinstance(s, L.MapSeg):
                    inner = walk(s.body)
                    rng = z3.And(s.ivar >= 0, s.ivar < s.n)
                    parts.append(z3.ForAll([s.ivar], z3.Implies(rng, inner)) if is_all
                                 else z3.Exists([s.ivar], z3.And(rng, inner)))
                else:
                    raise Unsupported("all/any over an opaque list")
            if not parts:
                return z3.BoolVal(is_all)
            return z3.And(*parts) if is_all else z3.Or(*parts)
        return [(st, sv_bool(walk(lt)))]

    def b_range(self, st, args, kwargs, fn):
        if len(args) == 1:
            lo, hi = z3.IntVal(0), Sc.iv(args[0].t)
        elif len(args) == 2:
            lo, hi = Sc.iv(args[0].t), Sc.iv(args[1].t)
        else:
            raise Unsupported("range with a step")
        return [(st, Opaque("range", (lo, hi)))]

    def b_enumerate(self, st, args, kwargs, fn):
        lt = self.iter_lt(st, args[0])
        if lt.is_concrete():
            return [(st, Opaque("enumerate", L.LT.of([Tup([sv_int(i), x]) for i, x in enumerate(lt.concrete_items())])))]
        if len(lt.segs) == 1 and isinstance(lt.segs[0], L.MapSeg) and lt.segs[0].body.is_concrete() \
                and len(lt.segs[0].body.segs) == 1:
            seg = lt.segs[0]
            body = L.LT([L.Unit(Tup([SV(mk_i(seg.ivar), "int"), seg.body.segs[0].v]))])
            return [(st, Opaque("enumerate", L.LT([L.MapSeg(seg.ivar, seg.n, body, seg.src)])))]
        raise Unsupported("enumerate over this list term")

    def b_zip(self, st, args, kwargs, fn):
        lts = [self.iter_lt(st, a) for a in args]
        if all(t.is_concrete() for t in lts):
            return [(st, Opaque("zip", L.LT.of([Tup(list(x)) for x in zip(*[t.concrete_items() for t in lts])])))]
        if all(len(t.segs) == 1 and isinstance(t.segs[0], L.MapSeg) and t.segs[0].body.is_concrete()
               and len(t.segs[0].body.segs) == 1 for t in lts):
            segs = [t.segs[0] for t in lts]
            if all(z3.eq(s_.ivar, segs[0].ivar) and z3.eq(s_.n, segs[0].n) for s_ in segs):
                # lists indexed by the same binder over the same range: element-wise pairing
                body = L.LT([L.Unit(Tup([s_.body.segs[0].v for s_ in segs]))])
                return [(st, Opaque("zip", L.LT([L.MapSeg(segs[0].ivar, segs[0].n, body, "zip")])))]
        raise Unsupported("zip over symbolic lists of different shape")

    def b_dict(self, st, args, kwargs, fn):
        if not args:
            return [(st, self.alloc(st, DictObj([(sv_str(k), v) for k, v in kwargs.items()])))]
        src = args[0]
        lt = src.data if isinstance(src, Opaque) and src.tag in ("zip", "enumerate") else self.iter_lt(st, src)
        if lt.is_concrete():
            return [(st, self.alloc(st, DictObj(self._dedup(st, [(p.items[0], p.items[1]) for p in lt.concrete_items()]))))]
        return [(st, self.alloc(st, DictObj([], lt)))]

    def b_list(self, st, args, kwargs, fn):
        if not args:
            return [(st, self.alloc(st, ListObj(L.LT([]))))]
        return [(st, self.alloc(st, ListObj(self.iter_lt(st, args[0]))))]

    def b_tuple(self, st, args, kwargs, fn):
        lt = self.iter_lt(st, args[0]) if args else L.LT([])
        return [(st, Tup(lt.concrete_items()))]

    def b_print(self, st, args, kwargs, fn):
        return [(st, sv_none())]

    def b_list_append(self, st, args, kwargs, fn):
        o = st.heap[fn.bound.oid]
        o.lt = o.lt.cat(L.LT([L.Unit(args[0])]))
        st.log.append(("write", fn.bound.oid, "append"))
        return [(st, sv_none())]

    def b_list_extend(self, st, args, kwargs, fn):
        o = st.heap[fn.bound.oid]
        o.lt = o.lt.cat(self.iter_lt(st, args[0]))
        return [(st, sv_none())]

    def b_dict_get(self, st, args, kwargs, fn):
        """d.get(k[, default]): the value d[k], or the default (None) where d[k] raises KeyError"""
        default = args[1] if len(args) > 1 else kwargs.get("default", sv_none())
        out: List[Res] = []
        for s, v in self.subscript(st, fn.bound, args[0]):
            if isinstance(v, Exc):
                if v.cls != "KeyError":
                    out.append((s, v))
                    continue
                out.append((s, default))
            else:
                out.append((s, v))
        return out

    def _iterated_dict(self, o: DictObj) -> None:
        if o.tail is not None and not o.distinct_keys:
            self.note_assumption("iteration over a dict filled by a loop over a symbolic sequence: the inserted keys are "
                                 "taken to be pairwise distinct (a repeated key would be listed once, with its last value)")

    def b_dict_keys(self, st, args, kwargs, fn):
        o = st.heap[fn.bound.oid]
        self._iterated_dict(o)
        lt = L.LT.of([k for k, _ in o.entries])
        if o.tail is not None:
            lt = lt.cat(L.lt_map(o.tail, lambda p, b: L.LT([L.Unit(p.items[0])])))
        return [(st, lt)]

    def b_dict_values(self, st, args, kwargs, fn):
        o = st.heap[fn.bound.oid]
        self._iterated_dict(o)
        lt = L.LT.of([v for _, v in o.entries])
        if o.tail is not None:
            lt = lt.cat(L.lt_map(o.tail, lambda p, b: L.LT([L.Unit(p.items[1])])))
        return [(st, lt)]

    def b_dict_items(self, st, args, kwargs, fn):
        o = st.heap[fn.bound.oid]
        self._iterated_dict(o)
        lt = L.LT.of([Tup([k, v]) for k, v in o.entries])
        if o.tail is not None:
            lt = lt.cat(o.tail)
        return [(st, lt)]

    # str methods ---------------------------------------------------------------------------------------------
    def b_str_upper(self, st, args, kwargs, fn):
        v: SV = fn.bound
        t = z3.simplify(Sc.sv(v.t))
        if z3.is_string_value(t):
            return [(st, sv_str(t.as_string().upper()))]
        f = z3.Function("str_upper", z3.StringSort(), z3.StringSort())
        return [(st, SV(mk_s(f(Sc.sv(v.t))), "str"))]

    def b_str_lower(self, st, args, kwargs, fn):
        v: SV = fn.bound
        t = z3.simplify(Sc.sv(v.t))
        if z3.is_string_value(t):
            return [(st, sv_str(t.as_string().lower()))]
        f = z3.Function("str_lower", z3.StringSort(), z3.StringSort())
        return [(st, SV(mk_s(f(Sc.sv(v.t))), "str"))]

    def b_str_endswith(self, st, args, kwargs, fn):
        v: SV = fn.bound
        suf = z3.simplify(Sc.sv(args[0].t))
        if v.view and z3.is_string_value(suf) and f"endswith:{suf.as_string()}" in v.view:
            return [(st, sv_bool(v.view[f"endswith:{suf.as_string()}"]))]
        return [(st, sv_bool(z3.SuffixOf(Sc.sv(args[0].t), Sc.sv(v.t))))]

    def b_str_startswith(self, st, args, kwargs, fn):
        v: SV = fn.bound
        return [(st, sv_bool(z3.PrefixOf(Sc.sv(args[0].t), Sc.sv(v.t))))]

    def b_str_strip(self, st, args, kwargs, fn):
        v: SV = fn.bound
        hook = getattr(self, "strip_hook", None)
        if hook is not None:
            r = hook(self, st, v)
            if r is not None:
                return [(st, r)]
        f = z3.Function("str_strip", z3.StringSort(), z3.StringSort())
        return [(st, SV(mk_s(f(Sc.sv(v.t))), "str"))]

    def b_str_format(self, st, args, kwargs, fn):
        """'...{}...{name}...{0}'.format(...) with a literal format string and plain fields (no conversion, no format
        spec): the same text as the corresponding f-string"""
        import string
        v: SV = fn.bound
        lit = z3.simplify(Sc.sv(v.t))
        if not z3.is_string_value(lit):
            raise Unsupported("str.format on a format string that is not a literal")
        skeleton: List[str] = [""]
        holes: List[Any] = []
        auto = 0
        for text, field, spec, conv in string.Formatter().parse(lit.as_string()):
            skeleton[-1] += text
            if field is None:
                continue
            if spec or conv:
                raise Unsupported("str.format with a conversion or a format spec")
            if field == "":
                if auto >= len(args):
                    return [self.raise_(st, "IndexError", sv_str("Replacement index out of range"))]
                holes.append(args[auto])
                auto += 1
            elif field.isdigit():
                if int(field) >= len(args):
                    return [self.raise_(st, "IndexError", sv_str("Replacement index out of range"))]
                holes.append(args[int(field)])
            elif field.isidentifier():
                if field not in kwargs:
                    return [self.raise_(st, "KeyError", sv_str(field))]
                holes.append(kwargs[field])
            else:
                raise Unsupported("str.format with attribute / index fields")
            skeleton.append("")
        hook = getattr(self, "fstring_hook", None)
        if hook is not None and holes:
            r = hook(self, st, tuple(skeleton), holes)
            if r is not None:
                return [(st, r)]
        terms: List[Any] = []
        for i, piece in enumerate(skeleton):
            if piece:
                terms.append(z3.StringVal(piece))
            if i < len(holes):
                terms.append(self.to_str(st, holes[i]))
        if not terms:
            return [(st, sv_str(""))]
        return [(st, SV(mk_s(terms[0] if len(terms) == 1 else z3.Concat(*terms)), "str"))]

    def b_str_replace(self, st, args, kwargs, fn):
        v: SV = fn.bound
        f = z3.Function("str_replace_all", z3.StringSort(), z3.StringSort(), z3.StringSort(), z3.StringSort())
        return [(st, SV(mk_s(f(Sc.sv(v.t), Sc.sv(args[0].t), Sc.sv(args[1].t))), "str"))]

    def b_str_join(self, st, args, kwargs, fn):
        """sep.join(xs): exact for a list of known length whose items are strings, an unknown string otherwise"""
        sep: SV = fn.bound
        try:
            lt = self.iter_lt(st, args[0])
        except Unsupported:
            lt = None
        if lt is not None and lt.is_concrete() and isinstance(sep, SV) and sep.ty == "str":
            items = lt.concrete_items()
            if all(isinstance(x, SV) and x.ty == "str" for x in items):
                if not items:
                    return [(st, sv_str(""))]
                terms = []
                for k, x in enumerate(items):
                    if k:
                        terms.append(Sc.sv(sep.t))
                    terms.append(Sc.sv(x.t))
                return [(st, SV(mk_s(terms[0] if len(terms) == 1 else z3.Concat(*terms)), "str"))]
        return [(st, SV(mk_s(self.fresh("joined", z3.StringSort())), "str"))]


_HAVOC = type("_H", (), {"__repr__": lambda s: "<havoc>"})()
_LOOPVAR = type("_LV", (), {"__repr__": lambda s: "<loop variable after loop>"})()


def _loop_carried(body: Sequence[ast.stmt], name: str) -> bool:
    """may the value of `name` flow from one iteration into the next?  No, if a top-level statement of the body
    assigns it before any read (conservative: anything else counts as carried)"""
    for st_ in body:
        loads = any(isinstance(n, ast.Name) and n.id == name and isinstance(n.ctx, ast.Load) for n in ast.walk(st_))
        if isinstance(st_, (ast.Assign, ast.AnnAssign)):
            tg = st_.targets if isinstance(st_, ast.Assign) else [st_.target]
            value_loads = st_.value is not None and any(
                isinstance(n, ast.Name) and n.id == name for n in ast.walk(st_.value))
            if any(isinstance(t, ast.Name) and t.id == name for t in tg) and not value_loads:
                return False
        if loads or any(isinstance(n, ast.Name) and n.id == name for n in ast.walk(st_)):
            return True
    return False


def _names(t: ast.expr) -> List[str]:
    return [n.id for n in ast.walk(t) if isinstance(n, ast.Name)]


def _to_load(t: ast.expr) -> ast.expr:
    import copy
    n = copy.deepcopy(t)
    for x in ast.walk(n):
        if hasattr(x, "ctx"):
            x.ctx = ast.Load()
    return n


def _simple_name(e: ast.expr) -> str:
    if isinstance(e, ast.Name):
        return e.id
    if isinstance(e, ast.Attribute):
        return e.attr
    raise Unsupported("exception handler type expression")


def _dotted_name(e) -> Optional[str]:
    if isinstance(e, ast.Name):
        return e.id
    if isinstance(e, ast.Attribute):
        b = _dotted_name(e.value)
        return f"{b}.{e.attr}" if b else None
    return None


def _is_append(stmt: ast.stmt) -> Optional[Tuple[str, ast.expr]]:
    if isinstance(stmt, ast.Expr) and isinstance(stmt.value, ast.Call) and isinstance(stmt.value.func, ast.Attribute) \
            and stmt.value.func.attr == "append" and isinstance(stmt.value.func.value, ast.Name) \
            and len(stmt.value.args) == 1 and not stmt.value.keywords:
        return stmt.value.func.value.id, stmt.value.args[0]
    return None


def _inject_params(fn: ast.AST) -> Dict[str, str]:
    out: Dict[str, str] = {}
    for d in getattr(fn, "decorator_list", []):
        if isinstance(d, ast.Call) and _dotted_name(d.func) == "inject.params":
            for kw in d.keywords:
                out[kw.arg] = _dotted_name(kw.value) or "?"
    return out


# ---------------------------------------------------------------------------------------------------- asyncio.gather
def _gather(self: Engine, st: State, args, kwargs, fn) -> List[Res]:
    """A-ASYNCIO M2: gather(c1..cn) returns the results in argument order whatever the completion order and propagates
    an exception raised by any of them.  The awaitables are forced in argument order; that the order of forcing cannot
    be observed is the content of the frame obligations (DESIGN §2.7)."""
    if not hasattr(self, "assumed_used"):
        self.assumed_used = set()
    self.assumed_used.add("A-ASYNCIO")
    if kwargs:
        # return_exceptions=True changes what gather does with a failing awaitable: not modelled; a literally false
        # flag is the default behaviour
        re_flag = kwargs.get("return_exceptions")
        if not (set(kwargs) == {"return_exceptions"} and isinstance(re_flag, SV)
                and z3.is_false(z3.simplify(self.truth(st, re_flag)))):
            raise Unsupported(f"asyncio.gather with keyword arguments {sorted(kwargs)}")
    return [(st, CoroV(None, list(args), {}, kind="gather"))]


def _force_gather(self: Engine, st: State, g: CoroV) -> List[Res]:
    results: List[Tuple[State, Any]] = [(st, L.LT([]))]
    for a in g.args:
        nxt: List[Tuple[State, Any]] = []
        for s, acc in results:
            if isinstance(acc, Exc):
                nxt.append((s, acc))
                continue
            if isinstance(a, tuple) and a and a[0] == "*":
                for s2, r in self.force_lt(s, a[1]):
                    nxt.append((s2, r if isinstance(r, Exc) else acc.cat(r)))
            else:
                # A-ASYNCIO M2: gather wraps each awaitable in a task that runs in a COPY of the caller's context: what
                # it sets in a context variable is seen neither by its siblings nor by the caller afterwards
                from pyvc import assumed
                snap = assumed.ctx_snapshot(s)
                for s2, r in self.await_value(s, a):
                    assumed.ctx_restore(s2, snap)
                    nxt.append((s2, r if isinstance(r, Exc) else acc.cat(L.LT([L.Unit(r)]))))
        results = nxt
    out: List[Res] = []
    for s, acc in results:
        out.append((s, acc) if isinstance(acc, Exc) else (s, self.alloc(s, ListObj(acc))))
    return out


def _await_value(self: Engine, st: State, v) -> List[Res]:
    if isinstance(v, CoroV):
        return self.await_(st, v)
    if isinstance(v, Ref) and isinstance(st.heap.get(v.oid), Obj):
        from pyvc import assumed
        hook = assumed.AWAIT_HOOKS.get(st.heap[v.oid].cls)
        if hook is not None:
            return hook(self, st, v)
    raise Unsupported(f"gather of a non-awaitable {v!r}")


def _force_lt(self: Engine, st: State, lt: L.LT) -> List[Tuple[State, Any]]:
    """forces every awaitable of a list term; symbolic segments are forced for the generic element"""
    outs: List[Tuple[State, Any]] = [(st, L.LT([]))]
    for seg in lt.segs:
        nxt: List[Tuple[State, Any]] = []
        for s, acc in outs:
            if isinstance(acc, Exc):
                nxt.append((s, acc))
                continue
            if isinstance(seg, L.Unit):
                for s2, r in self.await_value(s, seg.v):
                    nxt.append((s2, r if isinstance(r, Exc) else acc.cat(L.LT([L.Unit(r)]))))
            elif isinstance(seg, L.MapSeg):
                for s2, r in self.force_mapseg(s, seg):
                    nxt.append((s2, r if isinstance(r, Exc) else acc.cat(r)))
            elif isinstance(seg, L.Guard):
                for s2, t in self.branch(s, seg.cond):
                    if t:
                        for s3, r in self.force_lt(s2, seg.lt):
                            nxt.append((s3, r if isinstance(r, Exc) else acc.cat(r)))
                    else:
                        nxt.append((s2, acc))
            else:
                raise Unsupported("gather over an opaque list")
        outs = nxt
    return outs


def _force_mapseg(self: Engine, st: State, seg: L.MapSeg) -> List[Tuple[State, Any]]:
    one = L.single_element(seg.body)
    if one is None:
        raise Unsupported(f"gather over a list term of this shape: {seg.body!r}")
    elem_guard, thunk = one   # filtered sequence: only the elements under the guard are awaited
    probe = st.fork()
    n0 = len(probe.pc)
    probe.assume(z3.And(seg.ivar >= 0, seg.ivar < seg.n) if elem_guard is None
                 else z3.And(seg.ivar >= 0, seg.ivar < seg.n, elem_guard))
    saved_ctx = self.index_ctx
    self.index_ctx = list(saved_ctx) + [seg.ivar]  # every symbol the callee introduces for the generic element is a function of its index
    try:
        rs = self.await_value(probe, thunk)
    finally:
        self.index_ctx = saved_ctx
    normal = [(s, r) for s, r in rs if not isinstance(r, Exc)]
    raising = [(s, r) for s, r in rs if isinstance(r, Exc)]
    out: List[Tuple[State, Any]] = []
    for s, r in raising:
        if self.feasible(s.pc):
            out.append((s, r))  # some element (the Skolem index ivar) raises: gather propagates it
    if len(normal) != 1:
        if elem_guard is not None:
            raise Unsupported("gather over a filtered sequence whose elements have not exactly one normal outcome")
        if not normal:
            # every element raises: only possible outcome besides the empty list
            for s, zero in self.branch(st, seg.n <= 0):
                if zero:
                    out.append((s, L.LT([])))
            return out
        raise Unsupported("an awaited element has several normal outcomes")
    s_ok, r = normal[0]
    extra = s_ok.pc[n0 + 1:]
    for k, o in s_ok.heap.items():
        st.heap.setdefault(k, o)
    rng = z3.And(seg.ivar >= 0, seg.ivar < seg.n) if elem_guard is None \
        else z3.And(seg.ivar >= 0, seg.ivar < seg.n, elem_guard)
    if extra:
        # facts the callee's contract gives about the generic element hold for every index
        st.assume(z3.ForAll([seg.ivar], z3.Implies(rng, z3.And(*extra))))
    st.log.extend(x for x in s_ok.log[len(st.log):] if x not in st.log)
    inner = L.LT([L.Unit(r)]) if elem_guard is None else L.LT([L.Guard(elem_guard, L.LT([L.Unit(r)]))])
    out.append((st, L.LT([L.MapSeg(seg.ivar, seg.n, inner, seg.src)])))
    return out


Engine.force_gather = _force_gather
Engine.await_value = _await_value
Engine.force_lt = _force_lt
Engine.force_mapseg = _force_mapseg
