"""Generator of maus AHB trees (SegmentGroup / Segment / DataElementFreeText / DataElementValuePool, wrapped into a
DeepAnwendungshandbuch) for the bounded stand-ins of C13 / C14 / C16 / C17.

A tree is kept as a small JSON-able *plan* (so that it can be pickled to workers, printed as witness and replayed):

    group    ["G", expression, [sub-group plans], [segment plans]]
    segment  ["S", expression, [data element plans]]
    freetext ["F", expression, entered_input]
    pool     ["V", [[qualifier, expression], ...], entered_input]

`build_ahb(lines)` turns a list of group plans into real maus objects with distinct, path-shaped discriminators
("G0", "G0.G1", "G0.S0", "G0.S0.D1").  Expression *slots* are numbered in document order (group, its sub-groups, its
segments each followed by its data elements, pool entries in pool order).
"""
from __future__ import annotations

import copy
import itertools
import json
import random
from typing import Any, Callable, Dict, Iterator, List, Optional, Sequence, Tuple

from maus.models.anwendungshandbuch import AhbMetaInformation, DeepAnwendungshandbuch
from maus.models.edifact_components import (
    DataElementFreeText,
    DataElementValuePool,
    Segment,
    SegmentGroup,
    ValuePoolEntry,
)

from bounded.common import F, K, U, make_cer

# ------------------------------------------------------------------------------------------- evaluation contexts
# requirement constraints 1,2,3 / hint 501 / format constraints 901,902 / package 1P
_HINTS = {"501": "Hinweis 501", "502": "Hinweis 502"}
_PACKAGES = {"1P": "[1] U [2]"}
CER_SPECS: List[Dict[str, Any]] = [
    {"rc": {"1": "F", "2": "U", "3": "K"}, "fc": {"901": True, "902": False}},   # [3] undetermined
    {"rc": {"1": "U", "2": "F", "3": "F"}, "fc": {"901": False, "902": True}},
    {"rc": {"1": "F", "2": "F", "3": "U"}, "fc": {"901": True, "902": True}},
    {"rc": {"1": "U", "2": "U", "3": "U"}, "fc": {"901": False, "902": False}},  # nothing fulfilled (C17)
    {"rc": {"1": "K", "2": "F", "3": "U"}, "fc": {"901": True, "902": True}},    # thorough extras
    {"rc": {"1": "F", "2": "K", "3": "F"}, "fc": {"901": False, "902": True}},
]
_CFV = {"F": F, "U": U, "K": K}
CERS = [make_cer(rc={k: _CFV[v] for k, v in s["rc"].items()}, fc=s["fc"], hints=_HINTS, packages=_PACKAGES)
        for s in CER_SPECS]

# ------------------------------------------------------------------------------------------- expression pools
INVALID_EXPRESSIONS = ["Muss [1] O [501]", "X [501] O [901]", "Soll [2] O [501]",  # well-formed but invalid
                       # the offending operand is itself a composition / sits deeper / left and right swapped / chained
                       "Muss ([1] U [2]) O [501]", "Kann [501] X ([2] O [3])", "Muss [1] O [2] O [501]",
                       "Soll [3] U ([2] X [901])", "Muss [1] Kann ([2] U [3]) X [502]"]
#: C13: valid, invalid, several modal marks, SOLL, UNKNOWN-yielding, hint, format constraint, package, spellings
POOL_C13 = [
    "Muss",
    "Muss [1]",
    "Soll [2]",
    "Kann [1]",
    "X [3]",                    # undetermined under CER 0 -> NotImplementedError for the run
    "Kann [3]",                 # undetermined but KANN -> optional
    "Muss [1] O [501]",         # invalid
    "Muss [1] Soll [2] Kann",   # several modal marks
    "Soll [2] U [501]",         # hint
    "X [1][901]",               # format constraint
    "M [2] U [902]",            # format constraint (unfulfilled under CER 0)
    "Muss [1P]",                # package
    "s [2] k [1]",              # lower-case one-letter spellings
    "O [2] O [3]",              # prefix operator O, undetermined under CER 0
    "U",
]
POOL_C13_SMALL = [POOL_C13[i] for i in (0, 1, 2, 3, 4, 5, 6, 7, 8, 9)]
#: C14: SOLL in all spellings and positions (+ a few expressions without SOLL)
POOL_C14 = [
    "Soll",
    "S [1]",
    "soll [2]",
    "SOLL [3]",                 # undetermined under CER 0: NotImplementedError iff the flag is True
    "Muss [1] Soll [2] Kann",
    "s [2] k [1]",
    "Soll [1] U [501]",
    "sOLL [2][901]",
    "Soll [1P]",
    "Soll [2] O [501]",         # invalid
    "Muss [2] S",
    "Muss",
    "Kann [1]",
    "X [2]",
]
#: C16 base expressions (valid ones; a few can be undetermined)
POOL_C16_VALID = ["Muss", "Muss [1]", "Soll [2]", "Kann [1]", "X [2]", "Muss [1] Soll [2] Kann", "Kann [3]",
                  "X [1][901]", "Muss [2] U [501]", "X [3]"]
#: value-pool entry expressions: bare, fulfilled / unfulfilled / undetermined (depending on the CER), invalid
POOL_ENTRY = ["X", "X [1]", "X [2]", "X [3]", "X [1] O [501]"]
POOL_ENTRY_THOROUGH = POOL_ENTRY + ["Muss [2] Kann [1]", "X [1P]"]

QUALIFIERS = ["A", "B", "C", "Z4", "E5"]
FOREIGN_VALUE = "ZZ9"
FREETEXT_INPUTS = [None, "", "abc"]


# ------------------------------------------------------------------------------------------- plans
def group(expr: str, groups: Sequence[list] = (), segments: Sequence[list] = ()) -> list:
    return ["G", expr, list(groups), list(segments)]


def segment(expr: str, elements: Sequence[list] = ()) -> list:
    return ["S", expr, list(elements)]


def freetext(expr: str, entered: Optional[str] = None) -> list:
    return ["F", expr, entered]


def valuepool(entry_expressions: Sequence[str], entered: Optional[str] = None) -> list:
    return ["V", [[QUALIFIERS[i], e] for i, e in enumerate(entry_expressions)], entered]


def canon(x: Any) -> str:
    return json.dumps(x, ensure_ascii=False, separators=(",", ":"))


# ------------------------------------------------------------------------------------------- building maus objects
def build_element(p: list, disc: str):
    if p[0] == "F":
        return DataElementFreeText(discriminator=disc, ahb_expression=p[1], entered_input=p[2],
                                   data_element_id="1234")
    assert p[0] == "V", p
    return DataElementValuePool(
        discriminator=disc, data_element_id="4321", entered_input=p[2],
        value_pool=[ValuePoolEntry(qualifier=q, meaning=f"meaning of {q}", ahb_expression=e) for q, e in p[1]])


def build_segment(p: list, disc: str) -> Segment:
    assert p[0] == "S", p
    return Segment(discriminator=disc, ahb_expression=p[1], section_name="sec",
                   data_elements=[build_element(d, f"{disc}.D{i}") for i, d in enumerate(p[2])])


def build_group(p: list, disc: str) -> SegmentGroup:
    assert p[0] == "G", p
    subs = [build_group(g, f"{disc}.G{i}") for i, g in enumerate(p[2])]
    segs = [build_segment(s, f"{disc}.S{i}") for i, s in enumerate(p[3])]
    # the maus model allows None as well as [] for "no children": use both (None at even nesting depth)
    none_for_empty = disc.count(".") % 2 == 0
    return SegmentGroup(discriminator=disc, ahb_expression=p[1],
                        segment_groups=subs if (subs or not none_for_empty) else None,
                        segments=segs if (segs or not none_for_empty) else None)


def build_ahb(lines: Sequence[list]) -> DeepAnwendungshandbuch:
    return DeepAnwendungshandbuch(meta=AhbMetaInformation(pruefidentifikator="11042"),
                                  lines=[build_group(g, f"G{i}") for i, g in enumerate(lines)])


def all_discriminators(lines: Sequence[list]) -> List[str]:
    out: List[str] = []

    def seg(p, disc):
        out.append(disc)
        for i, _ in enumerate(p[2]):
            out.append(f"{disc}.D{i}")

    def grp(p, disc):
        out.append(disc)
        for i, g in enumerate(p[2]):
            grp(g, f"{disc}.G{i}")
        for i, s in enumerate(p[3]):
            seg(s, f"{disc}.S{i}")

    for i, g in enumerate(lines):
        grp(g, f"G{i}")
    return out


# ------------------------------------------------------------------------------------------- expression slots
def slots(lines: Sequence[list]) -> List[Tuple[str, str, Optional[str], str]]:
    """-> [(kind 'G'|'S'|'F'|'E', discriminator of the reporting node, qualifier | None, expression)] in doc order"""
    out: List[Tuple[str, str, Optional[str], str]] = []

    def seg(p, disc):
        out.append(("S", disc, None, p[1]))
        for i, d in enumerate(p[2]):
            if d[0] == "F":
                out.append(("F", f"{disc}.D{i}", None, d[1]))
            else:
                for q, e in d[1]:
                    out.append(("E", f"{disc}.D{i}", q, e))

    def grp(p, disc):
        out.append(("G", disc, None, p[1]))
        for i, g in enumerate(p[2]):
            grp(g, f"{disc}.G{i}")
        for i, s in enumerate(p[3]):
            seg(s, f"{disc}.S{i}")

    for i, g in enumerate(lines):
        grp(g, f"G{i}")
    return out


def map_slots(lines: Sequence[list], fn: Callable[[int, str, str], str]) -> List[list]:
    """copy of the plan in which the expression of slot i (doc order) is fn(i, kind, expression)"""
    counter = itertools.count()

    def el(d):
        if d[0] == "F":
            return ["F", fn(next(counter), "F", d[1]), d[2]]
        return ["V", [[q, fn(next(counter), "E", e)] for q, e in d[1]], d[2]]

    def seg(p):
        e = fn(next(counter), "S", p[1])
        return ["S", e, [el(d) for d in p[2]]]

    def grp(p):
        e = fn(next(counter), "G", p[1])
        subs = [grp(g) for g in p[2]]
        segs = [seg(s) for s in p[3]]
        return ["G", e, subs, segs]

    return [grp(g) for g in lines]


def levels(lines: Sequence[list]) -> int:
    """number of levels (group=1, + sub-groups, + segment, + data element)"""
    def seg(p):
        return 2 if p[2] else 1

    def grp(p):
        below = [grp(g) for g in p[2]] + [seg(s) for s in p[3]]
        return 1 + (max(below) if below else 0)

    return max((grp(g) for g in lines), default=0)


def node_count(lines: Sequence[list]) -> int:
    return len(all_discriminators(lines))


# ------------------------------------------------------------------------------------------- shapes
def element_shapes(max_pool: int = 2) -> List[list]:
    return [["F", None, None]] + [["V", [[QUALIFIERS[i], None] for i in range(k)], None]
                                  for k in range(1, max_pool + 1)]


def segment_shapes(max_elements: int, max_pool: int = 2) -> List[list]:
    els = element_shapes(max_pool)
    out = []
    for n in range(0, max_elements + 1):
        for combo in itertools.product(els, repeat=n):
            out.append(["S", None, [copy.deepcopy(c) for c in combo]])
    return out


def group_shapes(depth: int, max_groups: int, max_segments: int, max_elements: int, max_pool: int = 2
                 ) -> Iterator[list]:
    """all group shapes (expressions and inputs left None) with at most `depth` nested group levels — grows very
    fast; meant for tiny bounds"""
    segs = segment_shapes(max_elements, max_pool)
    seg_lists = [list(c) for n in range(0, max_segments + 1) for c in itertools.product(segs, repeat=n)]
    if depth <= 1:
        sub_lists: List[List[list]] = [[]]
    else:
        subs = list(group_shapes(depth - 1, max_groups, max_segments, max_elements, max_pool))
        sub_lists = [list(c) for n in range(0, max_groups + 1) for c in itertools.product(subs, repeat=n)]
    for sl in sub_lists:
        for sg in seg_lists:
            yield ["G", None, copy.deepcopy(sl), copy.deepcopy(sg)]


def fill(shape_lines: Sequence[list], expressions: Sequence[str], freetext_inputs: Sequence[Optional[str]] = (),
         pool_inputs: Sequence[Optional[str]] = ()) -> List[list]:
    """fills the expression slots (doc order) and the inputs (doc order per kind; missing = None)"""
    lines = map_slots(shape_lines, lambda i, k, e: expressions[i])
    fi, pi = iter(freetext_inputs), iter(pool_inputs)

    def seg(p):
        for d in p[2]:
            d[2] = next(fi, None) if d[0] == "F" else next(pi, None)

    def grp(p):
        for g in p[2]:
            grp(g)
        for s in p[3]:
            seg(s)

    for g in lines:
        grp(g)
    return lines


def slot_count(shape_lines: Sequence[list]) -> int:
    return len(slots(shape_lines))


# ------------------------------------------------------------------------------------------- seeded random trees
def pool_inputs_for(entries: Sequence[Sequence[str]]) -> List[Optional[str]]:
    """absent, empty, every qualifier of the pool (offered or not, depending on the evaluation), a foreign value"""
    return [None, ""] + [q for q, _ in entries] + [FOREIGN_VALUE]


def random_element(rng: random.Random, expr_pool: Sequence[str], entry_pool: Sequence[str], max_pool: int) -> list:
    if rng.random() < 0.5:
        return ["F", rng.choice(expr_pool), rng.choice(FREETEXT_INPUTS)]
    k = rng.randint(1, max_pool)
    entries = [[QUALIFIERS[i], rng.choice(entry_pool)] for i in range(k)]
    return ["V", entries, rng.choice(pool_inputs_for(entries))]


def random_segment(rng: random.Random, expr_pool, entry_pool, branching: int, max_pool: int) -> list:
    return ["S", rng.choice(expr_pool),
            [random_element(rng, expr_pool, entry_pool, max_pool) for _ in range(rng.randint(0, branching))]]


def random_group(rng: random.Random, depth: int, branching: int, expr_pool, entry_pool, max_pool: int,
                 nonempty: bool = False) -> list:
    n_sub = rng.randint(0, branching) if depth > 1 else 0
    n_seg = rng.randint(0, branching)
    if nonempty and n_sub + n_seg == 0:
        n_seg = 1
    return ["G", rng.choice(expr_pool),
            [random_group(rng, depth - 1, branching, expr_pool, entry_pool, max_pool) for _ in range(n_sub)],
            [random_segment(rng, expr_pool, entry_pool, branching, max_pool) for _ in range(n_seg)]]


def random_lines(rng: random.Random, depth: int, branching: int, expr_pool: Sequence[str],
                 entry_pool: Sequence[str] = tuple(POOL_ENTRY), max_pool: int = 3, max_lines: int = 2) -> List[list]:
    """1..max_lines root groups with ≤ depth nested group levels, ≤ branching sub-groups / segments / data elements
    per node, pools of ≤ max_pool entries; the first root group always has a child"""
    n = rng.randint(1, max_lines)
    return [random_group(rng, depth, branching, expr_pool, entry_pool, max_pool, nonempty=(i == 0))
            for i in range(n)]


# ------------------------------------------------------------------------------------------- running the real code
# (shared by c13/c14/c16/c17: the evaluation callback of the oracle and the calls of the real validate_* functions)
import asyncio  # noqa: E402

from ahbicht.expressions import InvalidExpressionError  # noqa: E402
from ahbicht.models.validation_values import RequirementValidationValue  # noqa: E402

from bounded import common  # noqa: E402
from specs.validation_spec import Invalid, Outcome  # noqa: E402

_EVAL_CACHE: Dict[Tuple[str, int], Any] = {}


def evaluator(cer_idx: int) -> Callable[[str], Any]:
    """callback for the oracle: the REAL expression evaluation (subject of other properties) under CERS[cer_idx]"""
    def ev(expression: str):
        key = (expression, cer_idx)
        if key not in _EVAL_CACHE:
            try:
                r = common.evaluate(expression, CERS[cer_idx])
            except InvalidExpressionError as err:
                _EVAL_CACHE[key] = Invalid(err.error_message)
            except Exception as err:  # noqa
                # an expression of the pool of structurally INVALID expressions (invalid by construction, whatever the
                # evaluation does): the oracle still says 'invalid'; what validation makes of it is judged by the caller
                if expression not in INVALID_EXPRESSIONS:
                    raise
                _EVAL_CACHE[key] = Invalid(f"<evaluation raised {type(err).__name__} instead of InvalidExpressionError>")
            else:
                rc, fc = r.requirement_constraint_evaluation_result, r.format_constraint_evaluation_result
                _EVAL_CACHE[key] = Outcome(r.requirement_indicator.name, rc.requirement_constraints_fulfilled,
                                           rc.hints, fc.format_constraints_fulfilled, fc.error_message)
        return _EVAL_CACHE[key]
    return ev


def warm_cache(expressions: Sequence[str], cer_indices: Sequence[int]) -> None:
    """evaluate every pool expression once in the parent so that forked workers inherit the results"""
    common.configure_inject()
    for c in cer_indices:
        ev = evaluator(c)
        for e in expressions:
            ev(e)


def call_real(function_name: str, cer_idx: int, *args) -> Tuple[str, Any]:
    """runs ahbicht.validation.validation.<function_name>(*args) under CERS[cer_idx].
    -> ("ok", result) | ("raised", "<ExceptionType>: message")"""
    import ahbicht.validation.validation as v
    fn = getattr(v, function_name)

    async def go():
        common.set_cer(CERS[cer_idx])
        return await fn(*args)

    try:
        return "ok", asyncio.run(go())
    except (KeyboardInterrupt, SystemExit, MemoryError):
        raise
    except BaseException as err:  # noqa: the verdict about an escaping exception is the caller's
        return "raised", f"{type(err).__name__}: {str(err)[:160]}"


def plain(results: Any) -> List[Dict[str, Any]]:
    """ValidationResultInContext list (or single) -> JSON-able, comparable records"""
    if not isinstance(results, list):
        results = [results]
    out = []
    for r in results:
        vr = r.validation_result
        rec: Dict[str, Any] = {"discriminator": r.discriminator, "status": str(vr.requirement_validation),
                               "hints": vr.hints, "class": type(vr).__name__}
        if hasattr(vr, "format_validation_fulfilled"):
            rec["format_ok"] = vr.format_validation_fulfilled
            rec["format_message"] = vr.format_error_message
            rec["possible_values"] = None if vr.possible_values is None else list(vr.possible_values.keys())
            rec["data_type"] = None if vr.data_element_data_type is None else str(vr.data_element_data_type.value)
        out.append(rec)
    return out


def status_value(name: Optional[str]):
    return None if name is None else RequirementValidationValue(name)


# ------------------------------------------------------------------------------------------- common driver
import hashlib  # noqa: E402
import time  # noqa: E402


def run_cases(ctx, clause: str, cases: List[dict], check_fn: Callable[[dict], dict], module: str, rule: str,
              bound: str, exhaustive: bool, max_violations: int = 5) -> int:
    """Runs check_fn (module level, returns {"verdict": "ok"|"mismatch", "message", "runs", "nontrivial", ...}) over
    all cases in the fork pool, replays every disagreement once more in this process (only a reproduced disagreement
    is a witness), reports the smallest few and records the bounded part.  -> number of disagreeing cases"""
    t0 = time.time()
    results = common.pmap(check_fn, cases)
    evaluations = sum(r["runs"] for r in results)
    nontrivial = {canon(c) for c, r in zip(cases, results) if r["nontrivial"]}
    raised = sum(1 for r in results if r.get("raised"))
    bad = [(c, r) for c, r in zip(cases, results) if r["verdict"] != "ok"]
    bad.sort(key=lambda cr: (len(canon(cr[0])), canon(cr[0])))
    reported, seen_messages = 0, set()
    if bad:
        common.configure_inject()
    for c, _ in bad:
        if reported >= max_violations:
            break
        again = check_fn(c)                                         # replay on the real code in this process
        if again["verdict"] == "ok":
            ctx.note(f"{clause}: a disagreement did not reproduce on replay (not reported): {canon(c)[:200]}")
            continue
        kind = again.get("kind", again["message"][:60])
        if kind in seen_messages and reported >= 2:
            continue                                                # prefer different kinds of disagreement
        seen_messages.add(kind)
        reported += 1
        sig = f"{clause}:{hashlib.sha1(canon(c).encode()).hexdigest()[:12]}"
        ctx.violation(
            obligation=f"bounded/{clause}-w{reported}", message=again["message"],
            witness={"case": c, "observed": again.get("observed"), "expected": again.get("expected")},
            replayed=True, signature=sig,
            replay_code=("import logging; logging.disable(logging.CRITICAL)\n"
                         "from bounded.common import configure_inject; configure_inject()\n"
                         f"from {module} import check_case\n"
                         f"print(check_case({c!r}))  # verdict 'ok' = property holds on this input"))
    samples = [c for c, r in zip(cases, results) if r["nontrivial"]][:: max(1, len(nontrivial) // 3 or 1)][:3]
    ctx.bounded(clause, evaluations, len(nontrivial),
                rule + f" [{len(cases)} cases, {raised} of them end in the documented NotImplementedError]",
                samples, exhaustive=exhaustive, bound=bound, seconds=time.time() - t0)
    return len(bad)
