"""Contracts of the requirement-constraint transformer callbacks (C04, C05, C06; the format-constraint view of C07 is
in contracts/fc_view.py).  Nodes are objects whose class is symbolic among the four condition-node classes; `wf` is
the representation invariant ConditionNodeBuilder and the callbacks themselves establish."""
import z3

from ahbicht.expressions import InvalidExpressionError
from ahbicht.models.condition_nodes import (ConditionFulfilledValue, EvaluatedComposition, Hint, RequirementConstraint,
                                            UnevaluatedFormatConstraint)
from pyvc.contracts import AnyOf, Const, Enum, Inst, Node, Opt, Str, contract
from pyvc.fxview import IS_KEY, WF_OF
from pyvc.values import Sc
from specs.ghost import fx_is_key, fx_meaning, fx_wellformed
from specs.logic import F, K, N, U, and4, or4, xor4

T = "ahbicht.expressions.requirement_constraint_expression_evaluation:RequirementConstraintTransformer."
CANDS = ["RequirementConstraint", "Hint", "UnevaluatedFormatConstraint", "EvaluatedComposition"]
RC, HINT, UFC, EC = 0, 1, 2, 3


def _wf(ex, st, o):
    """well-formed node: Hint/UFC are NEUTRAL (class defaults, never overridden by ConditionNodeBuilder); a requirement
    constraint carries F/U/UNKNOWN (the quantifier of C04); a Hint has a hint text; an EvaluatedComposition's
    format-constraint expression is None or non-empty (established by every callback, see post_wf)"""
    cf = o.fields["conditions_fulfilled"].t
    n = ex.enum_member("ConditionFulfilledValue", "NEUTRAL").t
    st.assume(z3.Implies(z3.Or(o.kind == HINT, o.kind == UFC), cf == n))
    st.assume(z3.Implies(o.kind == RC, cf != n))
    st.assume(z3.Implies(o.kind == HINT, Sc.is_s(o.fields["hint"].t)))
    fce = o.fields["format_constraints_expression"].t
    st.assume(z3.Or(Sc.is_none(fce), z3.And(Sc.is_s(fce), z3.Length(Sc.sv(fce)) > 0, WF_OF(Sc.sv(fce)))))
    st.assume(IS_KEY(Sc.sv(o.fields["condition_key"].t)))


def node():
    return Node(CANDS, dict(conditions_fulfilled=Enum("ConditionFulfilledValue"), condition_key=Str(nonempty=True),
                            hint=Opt(Str()), format_constraints_expression=Opt(Str())), wf=_wf)


SELF = Inst("RequirementConstraintTransformer")
CLAUSE_PROPS = {"post_cf": ["C04", "C05"], "post_wf": ["C04", "C07"], "post_fc_view": ["C07"],
                "post_keeps_hint_of_hint_partner": ["C04"],
                # C05 says "... keeps the expression VALID and leaves the outcome unchanged": the raise conditions serve it too
                "raises-InvalidExpressionError": ["C04", "C05", "C06"], "raises-NotImplementedError": ["C04", "C05", "C06"],
                "raises-only-declared": ["C04", "C05", "C06"]}
EC_RESULT = Inst("EvaluatedComposition", conditions_fulfilled=Enum("ConditionFulfilledValue"), hint=Opt(Str()),
                 format_constraints_expression=Opt(Str()))


def wf_result(result):
    """what every callback guarantees about its result (so that results are admissible operands again)"""
    return isinstance(result, EvaluatedComposition) \
        and isinstance(result.conditions_fulfilled, ConditionFulfilledValue) \
        and (result.format_constraints_expression is None
             or (isinstance(result.format_constraints_expression, str) and result.format_constraints_expression != ""
                 and fx_wellformed(result.format_constraints_expression)))


# ---- C07: abstract view of the collected format-constraint expression ------------------------------------------------
def fcv(n):
    """canonical meaning of the format constraints an operand contributes; None = contributes nothing"""
    if isinstance(n, UnevaluatedFormatConstraint):
        return "[" + n.condition_key + "]"
    if isinstance(n, EvaluatedComposition):
        return fx_meaning(n.format_constraints_expression)
    return None


def join(op, a, b):
    """sub-expressions contributing no format constraint are omitted, operators are kept"""
    if a is None:
        return b
    if b is None:
        return a
    return "(" + a + op + b + ")"


def invalid_mix(left, right):
    """the structural criterion of C06 on evaluated operands: a single hint against a single format constraint, or a
    neutral operand against a non-neutral one"""
    return (isinstance(left, Hint) and isinstance(right, UnevaluatedFormatConstraint)) \
        or (isinstance(right, Hint) and isinstance(left, UnevaluatedFormatConstraint)) \
        or ((left.conditions_fulfilled == N) != (right.conditions_fulfilled == N))


@contract(T + "and_composition", prop=["C04", "C05", "C06"])
class AndComposition:
    """never raises; EvaluatedComposition with cf = and4(left.cf, right.cf)"""
    runtime_checkable = True
    returns = EC_RESULT
    clause_props = CLAUSE_PROPS
    params = dict(self=SELF, left=node(), right=node())
    raises = {}

    def post_cf(self, left, right, result):
        return result.conditions_fulfilled == and4(left.conditions_fulfilled, right.conditions_fulfilled)

    def post_wf(self, left, right, result):
        return wf_result(result)

    def post_fc_view(self, left, right, result):
        return fx_meaning(result.format_constraints_expression) == join("U", fcv(left), fcv(right))

    def call_native(args):
        from ahbicht.expressions.requirement_constraint_expression_evaluation import RequirementConstraintTransformer
        return RequirementConstraintTransformer({}).and_composition(args["left"], args["right"])


@contract(T + "_or_xor_composition", prop=["C04", "C05", "C06"])
class OrXorComposition:
    """raises InvalidExpressionError iff invalid_mix(left, right); otherwise cf = or4 / xor4 by the literal passed"""
    runtime_checkable = True
    returns = EC_RESULT
    clause_props = CLAUSE_PROPS
    params = dict(self=SELF, left=node(), right=node(),
                  composition=AnyOf(Const("or_composition"), Const("xor_composition")))
    raises = {"InvalidExpressionError": "raises_invalid"}

    def raises_invalid(left, right, composition):
        return invalid_mix(left, right)

    def post_cf(self, left, right, composition, result):
        if composition == "or_composition":
            return result.conditions_fulfilled == or4(left.conditions_fulfilled, right.conditions_fulfilled)
        return result.conditions_fulfilled == xor4(left.conditions_fulfilled, right.conditions_fulfilled)

    def post_wf(self, left, right, composition, result):
        return wf_result(result)

    def call_native(args):
        from ahbicht.expressions.requirement_constraint_expression_evaluation import RequirementConstraintTransformer
        return RequirementConstraintTransformer({})._or_xor_composition(args["left"], args["right"], args["composition"])


@contract(T + "or_composition", prop=["C04", "C05", "C06"])
class OrComposition:
    runtime_checkable = True
    returns = EC_RESULT
    clause_props = CLAUSE_PROPS
    params = dict(self=SELF, left=node(), right=node())
    raises = {"InvalidExpressionError": "raises_invalid"}

    def raises_invalid(left, right):
        return invalid_mix(left, right)

    def post_cf(self, left, right, result):
        return result.conditions_fulfilled == or4(left.conditions_fulfilled, right.conditions_fulfilled)

    def post_wf(self, left, right, result):
        return wf_result(result)

    def post_fc_view(self, left, right, result):
        return fx_meaning(result.format_constraints_expression) == join("O", fcv(left), fcv(right))

    def call_native(args):
        from ahbicht.expressions.requirement_constraint_expression_evaluation import RequirementConstraintTransformer
        return RequirementConstraintTransformer({}).or_composition(args["left"], args["right"])


@contract(T + "xor_composition", prop=["C04", "C05", "C06"])
class XorComposition:
    runtime_checkable = True
    returns = EC_RESULT
    clause_props = CLAUSE_PROPS
    params = dict(self=SELF, left=node(), right=node())
    raises = {"InvalidExpressionError": "raises_invalid"}

    def raises_invalid(left, right):
        return invalid_mix(left, right)

    def post_cf(self, left, right, result):
        return result.conditions_fulfilled == xor4(left.conditions_fulfilled, right.conditions_fulfilled)

    def post_wf(self, left, right, result):
        return wf_result(result)

    def post_fc_view(self, left, right, result):
        return fx_meaning(result.format_constraints_expression) == join("X", fcv(left), fcv(right))

    def call_native(args):
        from ahbicht.expressions.requirement_constraint_expression_evaluation import RequirementConstraintTransformer
        return RequirementConstraintTransformer({}).xor_composition(args["left"], args["right"])


def then_fc_view(format_constraint, other_condition, result):
    if other_condition.conditions_fulfilled == F or isinstance(other_condition, Hint):
        return fx_meaning(result.format_constraints_expression) == \
            join("U", "[" + format_constraint.condition_key + "]", fcv(other_condition))
    return result.format_constraints_expression is None


def then_also_unsupported(other_condition):
    return other_condition.conditions_fulfilled == N and not isinstance(other_condition, Hint)


@contract(T + "_then_also", prop=["C04", "C05", "C06"])
class ThenAlso:
    """keeps the partner's state; NotImplementedError iff the partner is neutral and not a Hint; never
    InvalidExpressionError"""
    runtime_checkable = True
    returns = EC_RESULT
    clause_props = CLAUSE_PROPS
    params = dict(self=SELF, format_constraint=node(), other_condition=node())
    raises = {"NotImplementedError": "raises_unsupported"}

    def raises_unsupported(format_constraint, other_condition):
        return then_also_unsupported(other_condition)

    def post_cf(self, format_constraint, other_condition, result):
        return result.conditions_fulfilled == other_condition.conditions_fulfilled

    def post_wf(self, format_constraint, other_condition, result):
        return wf_result(result)

    def post_keeps_hint_of_hint_partner(self, format_constraint, other_condition, result):
        return not isinstance(other_condition, Hint) or result.hint == other_condition.hint

    def post_fc_view(self, format_constraint, other_condition, result):
        """C07: the attached constraint takes part iff the partner is FULFILLED or a hint"""
        if not isinstance(format_constraint, UnevaluatedFormatConstraint):
            return True
        if other_condition.conditions_fulfilled == F or isinstance(other_condition, Hint):
            return fx_meaning(result.format_constraints_expression) == \
                join("U", "[" + format_constraint.condition_key + "]", fcv(other_condition))
        return result.format_constraints_expression is None

    def call_native(args):
        from ahbicht.expressions.requirement_constraint_expression_evaluation import RequirementConstraintTransformer
        return RequirementConstraintTransformer({})._then_also(args["format_constraint"], args["other_condition"])


@contract(T + "then_also_composition", prop=["C04", "C05", "C06"])
class ThenAlsoComposition:
    """whichever side the unevaluated format constraint is on, the OTHER operand's state is kept"""
    runtime_checkable = True
    returns = EC_RESULT
    clause_props = CLAUSE_PROPS
    params = dict(self=SELF, left=node(), right=node())
    raises = {"NotImplementedError": "raises_unsupported"}

    def pre(self, left, right):
        # the quantifier of C04-C07: juxtaposition attaches ONE format constraint to a hint or to a requirement-
        # constrained operand
        return isinstance(left, UnevaluatedFormatConstraint) != isinstance(right, UnevaluatedFormatConstraint)

    def raises_unsupported(left, right):
        if isinstance(left, UnevaluatedFormatConstraint):
            return then_also_unsupported(right)
        return then_also_unsupported(left)

    def post_cf(self, left, right, result):
        if isinstance(left, UnevaluatedFormatConstraint):
            return result.conditions_fulfilled == right.conditions_fulfilled
        return result.conditions_fulfilled == left.conditions_fulfilled

    def post_wf(self, left, right, result):
        return wf_result(result)

    def post_fc_view(self, left, right, result):
        """C07: the attached constraint takes part iff the partner is FULFILLED or a hint"""
        if isinstance(left, UnevaluatedFormatConstraint):
            return then_fc_view(left, right, result)
        return then_fc_view(right, left, result)

    def call_native(args):
        from ahbicht.expressions.requirement_constraint_expression_evaluation import RequirementConstraintTransformer
        return RequirementConstraintTransformer({}).then_also_composition(args["left"], args["right"])
