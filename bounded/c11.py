"""C11 (bounded stand-in) – parsing is a pure function of the string, whatever happened before.

Histories over BOTH cached parsers (`parse_condition_expression_to_tree`,
`parse_ahb_expression_to_single_requirement_indicator_expressions`): sequences of parse calls of repeated ("hot")
and fresh strings – more than 1024 distinct strings per parser in the eviction histories, so that entries of the
`lru_cache(maxsize=1024)` are evicted and re-created – interleaved with random IN-PLACE edits of previously returned
trees (replace / remove / append a child, replace a token, mutate a token's attributes in place, rename a node; at a
random depth of a random earlier tree).  After every edit the string the edited tree came from is parsed again.

Oracle (clause ``history``): EVERY parse call of the history returns a tree that is structurally equal – Lark
`Tree.data`, children recursively, token type, token value and token text; `meta` excluded as in `Tree.__eq__` – to
the reference parse obtained WITHOUT the cache.  Reference = the module level Lark instance of the same module,
`condition_expression_parser._parser.parse(s)` / `ahb_expression_parser._parser.parse(s)`, i.e. exactly what the
body of the undecorated function computes for a well-formed string (this was preferred over digging the undecorated
function out of `parse_....__closure__[0].cell_contents.__wrapped__`; the closure is only used to find
`cache_clear` / `cache_info`, so that every history starts from an empty cache and hits / misses / evictions can be
counted).  A few malformed strings are part of the histories: for them the cached entry point has to raise
SyntaxError every time while the reference raises Lark's UnexpectedInput.

Clause ``evaluation``: the results of evaluating a few AHB expressions (whose strings and sub-expression strings are
among the hot strings of the history, i.e. the trees the evaluation re-reads from the cache have been handed out and
edited) are the same after the history as before any edit.

A violation is shrunk to the triple  parse(s) -> edit -> parse(s)  (replayed from an empty cache); if no single edit
reproduces it, to the sub-history of the operations on that string, else the whole prefix is reported.

Bound: histories of <= 2000 operations (thorough; quick: 400, plus eviction histories in both tiers), the string and
edit generators below, seeds from `random.Random(seed)`.
"""
from __future__ import annotations

import random
import time
from typing import Any, Dict, List, Optional, Tuple

import ahbicht.content_evaluation  # noqa: F401
from ahbicht.expressions import ahb_expression_parser as aep
from ahbicht.expressions import condition_expression_parser as cep
from lark import Token, Tree
from lark.exceptions import UnexpectedInput

from bounded import common
from bounded.common import F, U, make_cer
from bounded.sched import pmap

MAX_VIOLATIONS = 5
_MODULES = {"cond": (cep, "parse_condition_expression_to_tree"),
            "ahb": (aep, "parse_ahb_expression_to_single_requirement_indicator_expressions")}


# ------------------------------------------------------------------------------------------------ the two parsers
def parse(parser: str, text: str) -> Tree:
    """the cached, public entry point (looked up at call time)"""
    module, name = _MODULES[parser]
    return getattr(module, name)(text)


def reference(parser: str, text: str) -> Tree:
    """parse WITHOUT the cache: the module level Lark instance"""
    return _MODULES[parser][0]._parser.parse(text)  # pylint:disable=protected-access


def _lru(parser: str) -> Any:
    """the functools.lru_cache wrapper behind the decorated entry point (found through closures / __wrapped__)"""
    module, name = _MODULES[parser]
    stack, seen = [getattr(module, name)], set()
    while stack:
        fn = stack.pop()
        if id(fn) in seen:
            continue
        seen.add(id(fn))
        if hasattr(fn, "cache_clear") and hasattr(fn, "cache_info"):
            return fn
        for cell in getattr(fn, "__closure__", None) or ():
            try:
                content = cell.cell_contents
            except ValueError:
                continue
            if callable(content):
                stack.append(content)
        if getattr(fn, "__wrapped__", None) is not None:
            stack.append(fn.__wrapped__)
    return None


def clear_caches() -> bool:
    ok = True
    for parser in _MODULES:
        lru = _lru(parser)
        if lru is None:
            ok = False
        else:
            lru.cache_clear()
    return ok


def difference(got: Any, want: Any, path: Tuple[int, ...] = ()) -> Optional[str]:
    """None if structurally equal, else a description of the first difference"""
    if isinstance(want, Tree):
        if not isinstance(got, Tree):
            return f"at {list(path)}: expected a Tree {want.data!r} but got {got!r}"
        if got.data != want.data or type(got.data) is not type(want.data):
            return f"at {list(path)}: node {got.data!r} instead of {want.data!r}"
        if len(got.children) != len(want.children):
            return f"at {list(path)}: {len(got.children)} children instead of {len(want.children)}"
        for i, (g, w) in enumerate(zip(got.children, want.children)):
            d = difference(g, w, path + (i,))
            if d:
                return d
        return None
    if isinstance(want, Token):
        if not isinstance(got, Token):
            return f"at {list(path)}: expected Token {want.type}:{want.value!r} but got {got!r}"
        if (got.type, got.value, str(got)) != (want.type, want.value, str(want)):
            return (f"at {list(path)}: token {got.type}:{got.value!r}/{str(got)!r} instead of "
                    f"{want.type}:{want.value!r}/{str(want)!r}")
        return None
    return None if (type(got) is type(want) and got == want) else f"at {list(path)}: {got!r} instead of {want!r}"


def show(node: Any) -> Any:
    if isinstance(node, Tree):
        return [str(node.data), [show(c) for c in node.children]]
    if isinstance(node, Token):
        return f"{node.type}:{node.value}"
    return repr(node)


# ------------------------------------------------------------------------------------------------ edits
KINDS = ["replace_child", "remove_child", "append_child", "change_token", "mutate_token", "rename_node"]


def _payload(code: int) -> Any:
    return [Token("CONDITION_KEY", "999"), Tree("condition", [Token("CONDITION_KEY", "998")]), "junk",
            Tree("or_composition", [Tree("condition", [Token("CONDITION_KEY", "997")]), Token("PACKAGE_KEY", "9P")])
            ][code % 4]


def _subtrees(tree: Tree) -> List[Tuple[Tuple[int, ...], Tree]]:
    out, stack = [], [((), tree)]
    while stack:
        path, node = stack.pop()
        out.append((path, node))
        for i, child in enumerate(node.children):
            if isinstance(child, Tree):
                stack.append((path + (i,), child))
    return sorted(out, key=lambda x: x[0])


def random_edit(tree: Tree, rng: random.Random) -> Optional[dict]:
    """an edit at a random depth of `tree`: first a depth is drawn, then a node of that depth"""
    nodes = _subtrees(tree)
    depth = rng.choice(sorted({len(p) for p, _ in nodes}))
    path, node = rng.choice([x for x in nodes if len(x[0]) == depth])
    kind = rng.choice(KINDS)
    tokens = [i for i, c in enumerate(node.children) if isinstance(c, Token)]
    if kind in ("change_token", "mutate_token") and not tokens:
        kind = "replace_child"
    if kind in ("replace_child", "remove_child") and not node.children:
        kind = "append_child"
    index = rng.choice(tokens) if kind in ("change_token", "mutate_token") else \
        (rng.randrange(len(node.children)) if node.children else 0)
    return {"kind": kind, "path": list(path), "index": index, "payload": rng.randrange(4)}


def apply_edit(tree: Tree, edit: dict) -> bool:
    """applies the in-place edit; False if the tree does not have that place (any more)"""
    node: Any = tree
    for i in edit["path"]:
        if not isinstance(node, Tree) or i >= len(node.children):
            return False
        node = node.children[i]
    if not isinstance(node, Tree):
        return False
    kind, index = edit["kind"], edit["index"]
    if kind == "append_child":
        node.children.append(_payload(edit["payload"]))
        return True
    if kind == "rename_node":
        node.data = "hacked_" + str(node.data)
        return True
    if index >= len(node.children):
        return False
    if kind == "replace_child":
        node.children[index] = _payload(edit["payload"])
    elif kind == "remove_child":
        del node.children[index]
    elif kind == "change_token":
        old = node.children[index]
        if not isinstance(old, Token):
            return False
        node.children[index] = Token(old.type, old.value + "7")
    elif kind == "mutate_token":
        old = node.children[index]
        if not isinstance(old, Token):
            return False
        old.value = "666"  # attributes of a lark Token are mutable in place
        old.type = "HACKED"
    else:
        raise ValueError(kind)
    return True


# ------------------------------------------------------------------------------------------------ strings
EVALUATED = ["Muss [1] U ([2] O [3])[901]", "Muss [1] Soll [2][902] Kann [3]", "X [3] O [1][UB3]",
             "Muss ([1] U [501]) O [2]", "Kann"]
_EVAL_CER = {"rc": {"1": F, "2": U, "3": F, "492": F, "493": U}, "fc": {"901": True, "902": False, "932": True,
                                                                          "934": False},
             "hints": {"501": "Hinweis 501"}}
HOT = {
    "cond": ["[1]", "[1] U [2]", "[1] U ([2] O [3])[901]", "([1] X [2]) U [3P] O [UB1]", "[1P0..1] U [501]",
             "[932][492]X[934][493]", "[901]", "[902]", "[901] U [902]", "[2] O [1] U [3] X [4] [905]"],
    "ahb": EVALUATED + ["Muss [1] U [2]", "Muss [1] Soll [2] Kann [3]", "X", "Muss [1] Kann", "x [1]",
                        "Muss [1P] U [UB2] Soll [2]"],
}
BAD = {"cond": ["[1] U", "([1]", "[1] Q [2]"], "ahb": ["[1]", "Muss [1] Foo", ""]}


def fresh(parser: str, n: int) -> str:
    """pairwise distinct well-formed strings (n = counter; the key 10000 + n occurs in no other string)"""
    a, b, c, big = 1 + n % 450, 1 + (n * 7) % 450, 901 + n % 90, 10000 + n
    if parser == "cond":
        return [f"[{a}] U ([{b}] O [{big}])", f"[{big}][{c}] X [{a}]", f"([{big}] O [{a}P]) U [{b}]",
                f"[{a}] [{c}] U [{big}] O [UB{1 + n % 3}]"][n % 4]
    return [f"Muss [{a}] U [{big}]", f"Muss [{big}] Soll [{b}] Kann", f"X [{big}][{c}]",
            f"Soll ([{a}] O [{big}]) Kann [{b}]"][n % 4]


def _strings_evaluation_parses() -> List[str]:
    """the condition expression strings the resolver hands to the condition parser when the EVALUATED expressions are
    evaluated (values of the CONDITION_EXPRESSION tokens, taken from the uncached reference parse)"""
    out = []
    for expression in EVALUATED:
        for token in reference("ahb", expression).scan_values(lambda v: isinstance(v, Token)):
            if token.type == "CONDITION_EXPRESSION" and token.value not in out:
                out.append(token.value)
    return out


HOT["cond"] = HOT["cond"] + [s for s in _strings_evaluation_parses() if s not in HOT["cond"]]


# ------------------------------------------------------------------------------------------------ histories
def make_history(kind: str, n_ops: int, rng: random.Random) -> List[dict]:
    """a history is a list of operations {"op": "parse", "p": parser, "s": string} and
    {"op": "edit", "of": k, "edit": {...}} where k is the number of the parse operation whose RETURNED tree is edited
    (edits are drawn while the history is executed, see `execute`; here only the parse skeleton and the places where
    an edit is to be drawn are fixed: {"op": "edit?"})."""
    ops: List[dict] = []
    counter = {"cond": rng.randrange(1, 400), "ahb": rng.randrange(1, 400)}

    def parse_op(parser: str, text: str) -> None:
        ops.append({"op": "parse", "p": parser, "s": text})

    def fresh_op(parser: str) -> None:
        counter[parser] += 1
        parse_op(parser, fresh(parser, counter[parser]))

    if kind.startswith("evict-"):
        victim = kind.split("-")[1]
        for text in HOT[victim]:
            parse_op(victim, text)
            ops.append({"op": "edit?", "recent": 1})
        for i in range(1040):  # more distinct strings than the cache holds (short ones: parsing is the cost here)
            counter[victim] += 1
            big = 10000 + counter[victim]
            parse_op(victim, fresh(victim, counter[victim]) if i % 8 == 0 else
                     (f"[{big}]" if victim == "cond" else f"X [{big}]"))
            if i % 9 == 0:
                ops.append({"op": "edit?", "recent": 3})
        for text in HOT[victim]:  # evicted meanwhile: miss, re-parse
            parse_op(victim, text)
            ops.append({"op": "edit?", "recent": 1})
            parse_op(victim, text)  # hit on the re-created entry
        other = "ahb" if victim == "cond" else "cond"
        for text in HOT[other][:6]:
            parse_op(other, text)
            ops.append({"op": "edit?", "recent": 1})
        return ops
    while len(ops) < n_ops:
        parser = "cond" if rng.random() < 0.6 else "ahb"
        roll = rng.random()
        if roll < 0.45:
            parse_op(parser, rng.choice(HOT[parser]))
        elif roll < 0.97:
            fresh_op(parser)
        else:
            parse_op(parser, rng.choice(BAD[parser]))
        if rng.random() < 0.6:
            ops.append({"op": "edit?", "recent": rng.choice([1, 1, 5, 40, 10 ** 6])})
    return ops[:n_ops]


def execute(ops: List[dict], rng: Optional[random.Random], stop_at_first: bool = True) -> dict:
    """runs a history from EMPTY caches.  'edit?' places are filled by drawing an edit with `rng` (the concrete edit
    is written back into the returned `performed` list, which is therefore exactly replayable with rng=None).  After
    every edit the string the edited tree came from is parsed again.  Every parse is compared with the reference."""
    cleared = clear_caches()
    returned: List[Tuple[str, str, Tree]] = []  # every tree a parse operation returned
    performed: List[dict] = []
    problems: List[dict] = []
    cases = set()
    stats = {"parse": 0, "edit": 0, "hit": 0, "miss": 0, "evicted_reparse": 0, "distinct": {"cond": set(), "ahb": set()}}
    parsed_before = {"cond": set(), "ahb": set()}
    pending_edit: Dict[Tuple[str, str], dict] = {}

    def do_parse(parser: str, text: str) -> None:
        lru = _lru(parser)
        before = lru.cache_info() if lru is not None else None
        stats["parse"] += 1
        stats["distinct"][parser].add(text)
        try:
            want: Any = reference(parser, text)
        except UnexpectedInput:
            want = SyntaxError
        try:
            got: Any = parse(parser, text)
        except SyntaxError:
            got = SyntaxError
        performed.append({"op": "parse", "p": parser, "s": text})
        state = "?"
        if before is not None:
            after = lru.cache_info()
            state = "hit" if after.hits > before.hits else "miss"
            stats[state] += 1
            if state == "miss" and text in parsed_before[parser] and want is not SyntaxError:
                state = "evicted"
                stats["evicted_reparse"] += 1
        parsed_before[parser].add(text)
        if want is SyntaxError or got is SyntaxError:
            diff = None if want is got else f"expected {'SyntaxError' if want is SyntaxError else 'a tree'} but got " \
                                            f"{'SyntaxError' if got is SyntaxError else 'a tree'}"
        else:
            diff = difference(got, want)
            returned.append((parser, text, got))
        edit = pending_edit.pop((parser, text), None)
        if edit is not None:
            cases.add((parser, text, edit["kind"], len(edit["path"]), state))
        if diff:
            problems.append({"at": len(performed) - 1, "p": parser, "s": text, "difference": diff,
                             "got": show(got) if got is not SyntaxError else "SyntaxError",
                             "expected": show(want) if want is not SyntaxError else "SyntaxError", "cache": state})

    for op in ops:
        if problems and stop_at_first:
            break
        if op["op"] == "parse":
            do_parse(op["p"], op["s"])
            continue
        if not returned:
            continue
        if op["op"] == "edit?":
            k = len(returned) - 1 - rng.randrange(min(op["recent"], len(returned)))
            parser, text, tree = returned[k]
            edit = random_edit(tree, rng)
        else:
            k, edit = op["of"], op["edit"]
            if k >= len(returned):
                continue
            parser, text, tree = returned[k]
        if apply_edit(tree, edit):
            stats["edit"] += 1
            performed.append({"op": "edit", "of": k, "p": parser, "s": text, "edit": edit})
            pending_edit[(parser, text)] = edit
            if op["op"] == "edit?":
                do_parse(parser, text)  # the touched string
    stats["distinct"] = {p: len(v) for p, v in stats["distinct"].items()}
    return {"performed": performed, "problems": problems, "cases": cases, "stats": stats, "cleared": cleared}


def replay_ops(ops: List[dict]) -> dict:
    """re-runs an explicit history (no random choices left) from empty caches"""
    result = execute(ops, None)
    return {"failing": bool(result["problems"]), "problems": result["problems"][:1]}


def replay_triple(parser: str, text: str, edit: dict) -> dict:
    """parse(s) -> edit of the returned tree -> parse(s), from empty caches"""
    clear_caches()
    first = parse(parser, text)
    before = show(first)
    applied = apply_edit(first, edit)
    second = parse(parser, text)
    diff = difference(second, reference(parser, text))
    return {"failing": bool(diff), "difference": diff, "edit_applied": applied, "first_parse": before,
            "second_parse": show(second), "expected": show(reference(parser, text))}


def shrink(performed: List[dict], problem: dict) -> dict:
    parser, text = problem["p"], problem["s"]
    prefix = performed[: problem["at"] + 1]
    for op in reversed(prefix):
        if op["op"] == "edit" and (op["p"], op["s"]) == (parser, text):
            triple = replay_triple(parser, text, op["edit"])
            if triple["failing"]:
                return {"form": "triple", "parser": parser, "string": text, "edit": op["edit"], **triple}
    # sub-history of the operations on that string (indices of edited trees renumbered)
    sub, renumber, count = [], {}, 0
    n_returned = -1
    for op in prefix:
        if op["op"] == "parse":
            try:
                reference(op["p"], op["s"])
                n_returned += 1
                is_tree = True
            except UnexpectedInput:
                is_tree = False
            if (op["p"], op["s"]) == (parser, text):
                sub.append(op)
                if is_tree:
                    renumber[n_returned] = count
                    count += 1
        elif (op["p"], op["s"]) == (parser, text) and op["of"] in renumber:
            sub.append({**op, "of": renumber[op["of"]]})
    if replay_ops(sub)["failing"]:
        return {"form": "sub-history", "parser": parser, "string": text, "ops": sub, **replay_ops(sub)}
    return {"form": "prefix", "parser": parser, "string": text, "ops": prefix, **replay_ops(prefix)}


# ------------------------------------------------------------------------------------------------ jobs
def _evaluate_all() -> List[Any]:
    cer = make_cer(**_EVAL_CER)
    out = []
    for expression in EVALUATED:
        try:
            out.append(repr(common.evaluate(expression, cer)))
        except Exception as error:  # pylint:disable=broad-except  (the outcome, whatever it is, has to be stable)
            out.append(f"raised {type(error).__name__}: {error}")
    return out


def _history_job(job: Tuple[str, int, int]) -> dict:
    kind, n_ops, seed = job
    common.configure_inject()
    rng = random.Random(seed)
    clear_caches()
    baseline = _evaluate_all()  # before any edit (this also fills the caches with the strings evaluation uses)
    ops = make_history(kind, n_ops, rng)
    # `execute` starts from empty caches; the evaluated expressions are hot strings, their trees get edited
    result = execute(ops, rng)
    after = _evaluate_all()
    out = {"kind": kind, "seed": seed, "ops": len(result["performed"]), "stats": result["stats"],
           "cases": result["cases"], "cleared": result["cleared"], "violations": [], "evaluation_differs": None}
    if result["problems"]:
        out["violations"].append(shrink(result["performed"], result["problems"][0]))
    if after != baseline:
        i = next(i for i, (a, b) in enumerate(zip(after, baseline)) if a != b)
        out["evaluation_differs"] = {"expression": EVALUATED[i], "before": baseline[i], "after": after[i],
                                     "history": {"kind": kind, "n_ops": n_ops, "seed": seed}}
    return out


def replay_evaluation(kind: str, n_ops: int, seed: int) -> dict:
    """re-runs a whole seeded history and the evaluations before / after it"""
    out = _history_job((kind, n_ops, seed))
    return {"failing": out["evaluation_differs"] is not None, "evaluation_differs": out["evaluation_differs"]}


# ------------------------------------------------------------------------------------------------ trees from the resolver
# The property is about the trees the two parsers return; the resolver, the package expansion and the time-condition
# replacement hand out trees as well - built from the very same cache.  Editing THOSE trees must not show in later
# parses either ("no matter what callers did with trees returned earlier").
_RESOLVER_STRINGS = ["[1] U [2]", "[UB3]", "[UB1] O [3]", "[1P] U [2]", "[4] X [1P] O [2P0..1]", "Muss [1] U [2]",
                     "Muss [UB3] Soll [2]", "Muss [1P] Kann [2] O [3]", "X [5] U [UB2]", "Soll ([1] O [2])[901] Kann"]
_RESOLVER_PACKAGES = {"1P": "[7] U [8]", "2P": "[9][901]"}


def _producers() -> Dict[str, Any]:
    from ahbicht.expressions import expression_resolver as er

    def resolver(rp: bool, rt: bool):
        return lambda s: common.run(er.parse_expression_including_unresolved_subexpressions(
            s, resolve_packages=rp, replace_time_conditions=rt))

    return {"cond": lambda s: parse("cond", s), "ahb": lambda s: parse("ahb", s),
            "resolve(packages=False,time=False)": resolver(False, False),
            "resolve(packages=False,time=True)": resolver(False, True),
            "resolve(packages=True,time=True)": resolver(True, True),
            "expand_time_conditions(parse)": lambda s: er.expand_time_conditions(parse("cond", s)),
            "expand_packages(parse)": lambda s: common.run(er.expand_packages(parse("cond", s)))}


def _applicable(producer: str, text: str) -> bool:
    is_ahb = text.split(" ")[0] in ("Muss", "Soll", "Kann", "X", "O", "U")
    if producer == "ahb":
        return is_ahb
    if producer in ("cond", "expand_time_conditions(parse)", "expand_packages(parse)"):
        return not is_ahb
    return True


def _vandalise(tree: Tree) -> int:
    """in-place edits at every depth of a tree a caller was handed"""
    edits = 0
    for sub in list(tree.iter_subtrees()):
        if sub.children:
            sub.children[0] = Token("CONDITION_KEY", "777")
            edits += 1
        sub.children.append(Tree("condition", [Token("CONDITION_KEY", "888")]))
        sub.data = "edited_" + str(sub.data)
        edits += 2
    return edits


def _observe_all(text: str) -> Dict[str, Any]:
    out = {}
    for name, fn in _producers().items():
        if _applicable(name, text):
            try:
                out[name] = show(fn(text))
            except Exception as error:  # pylint:disable=broad-except  (the outcome, whatever it is, has to be stable)
                out[name] = f"raised {type(error).__name__}"
    # the strings the resolver parses internally are strings of the condition parser as well
    for inner in ("[932][492]X[934][493]", "[7] U [8]", "[9][901]"):
        out[f"cond({inner})"] = show(parse("cond", inner))
    return out


def replay_alias(producer: str, text: str) -> dict:
    """from empty caches: observe every tree source for `text`, obtain a tree from `producer`, edit it in place at every
    depth, observe again"""
    common.configure_inject()
    common.set_cer(make_cer(packages=dict(_RESOLVER_PACKAGES)))
    clear_caches()
    before = _observe_all(text)
    for inner, key in (("[932][492]X[934][493]", "cond([932][492]X[934][493])"),):
        expected = show(reference("cond", inner))
        if before[key] != expected:
            return {"failing": True, "producer": producer, "string": text, "observer": key, "before": expected,
                    "after": before[key], "edits": 0}
    tree = _producers()[producer](text)
    edits = _vandalise(tree) if isinstance(tree, Tree) else 0
    after = _observe_all(text)
    for key in before:
        if before[key] != after[key]:
            return {"failing": True, "producer": producer, "string": text, "observer": key, "before": before[key],
                    "after": after[key], "edits": edits}
    return {"failing": False, "producer": producer, "string": text, "edits": edits, "observers": len(before)}


def _alias_job(job: Tuple[str, str]) -> dict:
    return replay_alias(*job)


def run_resolver_histories(ctx) -> None:
    t0 = time.time()
    jobs = [(p, s) for s in _RESOLVER_STRINGS for p in _producers() if _applicable(p, s)]
    results = pmap(_alias_job, jobs)
    bad = [r for r in results if r["failing"]]
    ctx.bounded("history/trees-handed-out-by-resolver-and-expansions", evaluations=sum(2 * r.get("observers", 8) + 1 for r in results),
                distinct_nontrivial=len({(r["producer"], r["string"]) for r in results if r["edits"] > 0}),
                rule="a case = (tree source, string): the tree obtained from that source was edited in place at every depth "
                     "(child replaced, child appended, node renamed) and every tree source was observed before and after",
                samples=[{"producer": r["producer"], "string": r["string"], "edits": r["edits"]} for r in results[:3]],
                exhaustive=True, bound=f"{len(_RESOLVER_STRINGS)} strings x the tree sources applicable to them "
                                       f"({len(jobs)} histories obtain / edit / observe, each from empty caches)",
                seconds=time.time() - t0)
    seen = set()
    for r in bad:
        key = (r["producer"], r["observer"])
        if key in seen or len(seen) >= MAX_VIOLATIONS:
            continue
        again = replay_alias(r["producer"], r["string"])
        if not again["failing"]:
            raise RuntimeError(f"C11 harness: alias witness does not reproduce: {r!r}"[:800])
        seen.add(key)
        ctx.violation(obligation=f"bounded/history-resolver.{len(seen)}",
                      message=(f"after editing in place the tree returned by {r['producer']}({r['string']!r}), "
                               f"{again['observer']} returns {again['after']} instead of {again['before']}")[:1500],
                      witness=again, replayed=True, signature=f"alias:{r['producer']}:{r['observer']}"[:160],
                      replay_code=f"from bounded import c11\nprint(c11.replay_alias({r['producer']!r}, {r['string']!r}))")


def run(ctx, tier: str, seed: int) -> None:
    thorough = tier == "thorough"
    rng = random.Random(seed)
    t0 = time.time()
    n_ops = 2000 if thorough else 400
    jobs: List[Tuple[str, int, int]] = [("random", n_ops, rng.randrange(2 ** 30)) for _ in range(48 if thorough else 14)]
    jobs += [(f"evict-{p}", 0, rng.randrange(2 ** 30)) for p in ("cond", "ahb")] * (8 if thorough else 1)
    results = pmap(_history_job, jobs)
    if not all(r["cleared"] for r in results):
        ctx.note("C11: the lru_cache behind a parser could not be found through the closures: histories did not start "
                 "from an empty cache, hit/miss statistics unavailable")
    cases = set().union(*[r["cases"] for r in results])
    total = {k: sum(r["stats"][k] for r in results) for k in ("parse", "edit", "hit", "miss", "evicted_reparse")}
    most_distinct = max(max(r["stats"]["distinct"].values()) for r in results)
    ctx.bounded("history", evaluations=total["parse"], distinct_nontrivial=len(cases),
                rule="a case = (parser, string, kind of in-place edit of a tree returned earlier for that string, depth of "
                     "the edited node, cache state hit/miss/evicted of the following parse of the same string); counted "
                     "only when the edit was applied and the string was parsed again",
                samples=[{"history": r["kind"], "seed": r["seed"], "operations": r["ops"], **r["stats"]}
                         for r in results[:: max(1, len(results) // 5)]],
                exhaustive=False,
                bound=f"{len(jobs)} histories ({sum(1 for j in jobs if j[0] == 'random')} random of {n_ops} operations, "
                      f"{sum(1 for j in jobs if j[0] != 'random')} eviction histories with 1040 fresh strings between two "
                      f"rounds over the hot strings); {total['parse']} parse calls ({total['hit']} hits, {total['miss']} "
                      f"misses, {total['evicted_reparse']} re-parses after eviction), {total['edit']} in-place edits, up to "
                      f"{most_distinct} distinct strings per parser and history",
                seconds=time.time() - t0)
    # ---- violations of the history clause: shrunk witnesses, replayed here
    reported, seen = 0, set()
    witnesses = sorted((w for r in results for w in r["violations"]),
                       key=lambda w: ({"triple": 0, "sub-history": 1, "prefix": 2}[w["form"]], len(repr(w))))
    for witness in witnesses:
        if reported >= MAX_VIOLATIONS:
            break
        if witness["form"] == "triple":
            key = (witness["parser"], witness["string"], witness["edit"]["kind"])
            if key in seen:
                continue
            seen.add(key)
            again = replay_triple(witness["parser"], witness["string"], witness["edit"])
            code = (f"from bounded import c11\nprint(c11.replay_triple({witness['parser']!r}, {witness['string']!r}, "
                    f"{witness['edit']!r}))")
            message = (f"parse({witness['string']!r}) -> {witness['edit']['kind']} at path {witness['edit']['path']} of the "
                       f"returned tree -> parse({witness['string']!r}) returns {again['second_parse']} instead of "
                       f"{again['expected']}: {again['difference']}")
        else:
            again = replay_ops(witness["ops"])
            code = f"from bounded import c11\nprint(c11.replay_ops({witness['ops']!r}))"
            message = (f"history of {len(witness['ops'])} operations on {witness['string']!r} ({witness['form']}): "
                       f"{again['problems'][:1]}")
        if not again["failing"]:
            raise RuntimeError(f"C11 harness: shrunk witness does not reproduce: {witness!r}"[:800])
        ctx.violation(obligation="bounded/history" + (f".{reported}" if reported else ""), message=message[:1500],
                      witness={k: v for k, v in witness.items() if k != "failing"}, replayed=True,
                      signature=f"history:{witness['parser']}:{witness['string']}:{witness['form']}"[:160],
                      replay_code=code)
        reported += 1
    # ---- evaluation clause
    differing = [r["evaluation_differs"] for r in results if r["evaluation_differs"]]
    ctx.bounded("evaluation", evaluations=2 * len(EVALUATED) * len(results), distinct_nontrivial=len(
        {(r["kind"], r["seed"], e) for r in results for e in EVALUATED if r["stats"]["edit"] > 0}),
                rule="a case = (history, evaluated expression); non-trivial iff the history contained in-place edits (the "
                     "strings the evaluation parses are hot strings of every history)",
                samples=[{"expressions": EVALUATED}], exhaustive=False,
                bound=f"{len(EVALUATED)} expressions evaluated before and after each of the {len(results)} histories",
                seconds=0.0)
    for n, witness in enumerate(differing[:MAX_VIOLATIONS if not reported else 1]):
        history = witness["history"]
        again = replay_evaluation(history["kind"], history["n_ops"], history["seed"])
        if not again["failing"]:
            raise RuntimeError(f"C11 harness: evaluation difference does not reproduce: {witness!r}"[:800])
        ctx.violation(obligation="bounded/evaluation" + (f".{n}" if n else ""),
                      message=(f"evaluating {witness['expression']!r} gives {witness['after']} after the history "
                               f"{history} but {witness['before']} before any edit")[:1500],
                      witness=witness, replayed=True, signature=f"evaluation:{witness['expression']}",
                      replay_code=f"from bounded import c11\nprint(c11.replay_evaluation({history['kind']!r}, "
                                  f"{history['n_ops']}, {history['seed']}))")
    run_resolver_histories(ctx)
    common.configure_inject()
