"""Side-car contracts: registry, parameter specifications (how a symbolic argument is built and how a counter-model
is turned back into a real Python object) and the modular application of a contract at a call site.

A contract is a class in /verif/contracts/*.py decorated with @contract(target).  Its `pre`, `post_*`, `raises_*`
and `model` functions are written in the Python subset the executor understands: the SAME text is executed
symbolically (from its AST) for the verification conditions and natively when a counter-model is replayed.
"""
from __future__ import annotations

import ast
import importlib
from typing import Any, Callable, Dict, List, Optional, Sequence, Tuple

import z3

from pyvc import lists as L
from pyvc.state import Frame, State
from pyvc.values import (DictObj, Exc, FuncV, ListObj, Obj, Opaque, Ref, Sc, SV, Tup, Unsupported, mk_b, mk_e, mk_i,
                         mk_s, sv_bool, sv_none, truthy)

REGISTRY: Dict[str, "Contract"] = {}


def contract(target: str, prop: Sequence[str] = (), name: Optional[str] = None, key: Optional[str] = None):
    """`key`: register under another key than the target (a second, non-modular contract of the same function that is
    only ever verified explicitly, e.g. a bounded-by-length view of a loop)"""
    def deco(cls):
        c = Contract(target, cls, list(prop), name or cls.__name__)
        if key:
            c.key = key
        REGISTRY[c.key] = c
        cls.__contract__ = c
        return cls
    return deco


# ------------------------------------------------------------------------------------------------- parameter specs
class PSpec:
    def make(self, ex, st: State, name: str):
        raise NotImplementedError

    def native(self, ex, st: State, model: z3.ModelRef, v):
        return to_native(ex, st, model, v)


class Enum(PSpec):
    def __init__(self, cls: str, among: Optional[Sequence[str]] = None) -> None:
        self.cls, self.among = cls, among

    def make(self, ex, st, name):
        sv, rng = ex.sym_enum(self.cls, name)
        st.assume(rng)
        if self.among is not None:
            names = [n for n, _ in ex.repo.enum_members(self.cls)]
            st.assume(z3.Or(*[Sc.eidx(sv.t) == names.index(a) for a in self.among]))
        return sv


class OneOfEnums(PSpec):
    """member of one of several enum classes (e.g. RequirementIndicator = Union[PrefixOperator, ModalMark])"""

    def __init__(self, *classes: str) -> None:
        self.classes = classes

    def make(self, ex, st, name):
        t = ex.fresh(name)
        opts = []
        for c in self.classes:
            n = len(ex.repo.enum_members(c))
            opts.append(z3.And(ex.is_enum_of(t, c), Sc.eidx(t) >= 0, Sc.eidx(t) < n))
        st.assume(z3.Or(*opts))
        return SV(t, None)


class Opt(PSpec):
    def __init__(self, inner: PSpec) -> None:
        self.inner = inner

    def make(self, ex, st, name):
        v = self.inner.make(ex, st.fork(), name)  # only to learn the shape / constraints
        if not isinstance(v, SV):
            raise Unsupported("Opt of a non-scalar specification")
        # rebuild: either None or a value satisfying the inner constraints
        t = ex.fresh(name)
        s2 = State()
        inner_v = self.inner.make(ex, s2, name + "_some")
        st.assume(z3.Or(Sc.is_none(t), z3.And(t == inner_v.t, *s2.pc)))
        return SV(t, None)


class Bool(PSpec):
    def make(self, ex, st, name):
        b = ex.fresh(name, z3.BoolSort())
        return SV(mk_b(b), "bool")


class Int(PSpec):
    def __init__(self, lo: Optional[int] = None, hi: Optional[int] = None) -> None:
        self.lo, self.hi = lo, hi

    def make(self, ex, st, name):
        i = ex.fresh(name, z3.IntSort())
        if self.lo is not None:
            st.assume(i >= self.lo)
        if self.hi is not None:
            st.assume(i <= self.hi)
        return SV(mk_i(i), "int")


class Str(PSpec):
    def __init__(self, nonempty: bool = False) -> None:
        self.nonempty = nonempty

    def make(self, ex, st, name):
        s = ex.fresh(name, z3.StringSort())
        if self.nonempty:
            st.assume(z3.Length(s) > 0)
        return SV(mk_s(s), "str")


class Const(PSpec):
    def __init__(self, value) -> None:
        self.value = value

    def make(self, ex, st, name):
        v = self.value
        if v is None:
            return sv_none()
        if isinstance(v, bool):
            return sv_bool(v)
        if isinstance(v, int):
            return SV(mk_i(v), "int")
        if isinstance(v, str):
            return SV(mk_s(v), "str")
        raise Unsupported("Const of this type")


class AnyOf(PSpec):
    """scalar that is one of several scalar specifications"""

    def __init__(self, *alts: PSpec) -> None:
        self.alts = alts

    def make(self, ex, st, name):
        t = ex.fresh(name)
        opts = []
        for i, a in enumerate(self.alts):
            s2 = State()
            v = a.make(ex, s2, f"{name}_alt{i}")
            opts.append(z3.And(t == v.t, *s2.pc))
        st.assume(z3.Or(*opts))
        return SV(t, None)


class Inst(PSpec):
    """instance of a concrete class with symbolic fields"""

    def __init__(self, cls: str, **fields: PSpec) -> None:
        self.cls, self.fields = cls, fields

    def make(self, ex, st, name):
        f = {k: spec.make(ex, st, f"{name}.{k}") for k, spec in self.fields.items()}
        return ex.alloc(st, Obj(self.cls, f, tag=name))


class Node(PSpec):
    """object whose class is symbolic among `cands`; `fields` are created for every field any candidate has;
    `wf(ex, st, obj)` may add well-formedness constraints"""

    def __init__(self, cands: Sequence[str], fields: Dict[str, PSpec], wf: Optional[Callable] = None) -> None:
        self.cands, self.fields, self.wf = list(cands), fields, wf

    def make(self, ex, st, name):
        kind = ex.fresh(name + ".kind", z3.IntSort())
        st.assume(z3.And(kind >= 0, kind < len(self.cands)))
        f = {k: spec.make(ex, st, f"{name}.{k}") for k, spec in self.fields.items()}
        o = Obj(None, f, kind=kind, cands=self.cands, tag=name)
        ref = ex.alloc(st, o)
        if self.wf:
            self.wf(ex, st, o)
        return ref


class SeqOf(PSpec):
    """list of symbolic length whose generic element is built by `elem` at a symbolic index"""

    def __init__(self, elem: Callable[[Any, State, str, Any], Any], max_len: Optional[int] = None,
                 min_len: int = 0, concrete_len: Optional[int] = None) -> None:
        self.elem, self.max_len, self.min_len, self.concrete_len = elem, max_len, min_len, concrete_len

    def make(self, ex, st, name):
        if self.concrete_len is not None:
            items = [self.elem(ex, st, f"{name}[{i}]", z3.IntVal(i)) for i in range(self.concrete_len)]
            return ex.alloc(st, ListObj(L.LT.of(items)))
        n = ex.fresh(name + ".len", z3.IntSort())
        ex.len_symbols.append(n)
        st.assume(n >= self.min_len)
        if self.max_len is not None:
            st.assume(n <= self.max_len)
        i = ex.fresh_const(name + ".i", z3.IntSort())
        el = generic_element(ex, st, i, n, lambda: self.elem(ex, st, f"{name}[i]", i))
        return ex.alloc(st, ListObj(L.LT([L.MapSeg(i, n, L.LT([L.Unit(el)]), name)])))


def generic_element(ex, st: State, i, n, build: Callable[[], Any]):
    """builds the element at the symbolic index i: every fresh symbol created meanwhile is a function of i, and every
    constraint assumed meanwhile is asserted for all indices in range"""
    n0 = len(st.pc)
    saved = ex.index_ctx
    ex.index_ctx = list(saved) + [i]
    try:
        el = build()
    finally:
        ex.index_ctx = saved
    new = st.pc[n0:]
    del st.pc[n0:]
    if new:
        st.assume(z3.ForAll([i], z3.Implies(z3.And(i >= 0, i < n), z3.And(*new))))
    _give_identity(ex, st, el, i)
    return el


def _give_identity(ex, st: State, v, i) -> None:
    if isinstance(v, (tuple, list)):
        for x in v:
            _give_identity(ex, st, x, i)
    elif isinstance(v, Tup):
        for x in v.items:
            _give_identity(ex, st, x, i)
    elif isinstance(v, Ref):
        o = st.heap.get(v.oid)
        if isinstance(o, Obj) and o.ident is None:
            ctx = list(ex.index_ctx) + [i]
            o.ident = mk_i(z3.Function(f"ident!{v.oid}", *([z3.IntSort()] * len(ctx)), z3.IntSort())(*ctx))
            for x in o.fields.values():
                _give_identity(ex, st, x, i)


class DictOf(PSpec):
    """mapping with an arbitrary number of entries: a symbolic sequence of (key, value) pairs with distinct keys;
    `key(ex, st, name, i)` / `value(ex, st, name, i)` build the entry at the symbolic index i"""

    def __init__(self, key: Callable, value: Callable) -> None:
        self.key, self.value = key, value

    def make(self, ex, st, name):
        n = ex.fresh(name + ".len", z3.IntSort())
        ex.len_symbols.append(n)
        st.assume(n >= 0)
        i = ex.fresh_const(name + ".i", z3.IntSort())
        k, v = generic_element(ex, st, i, n, lambda: (self.key(ex, st, f"{name}.key", i),
                                                      self.value(ex, st, f"{name}.val", i)))
        j = ex.fresh_const(name + ".j", z3.IntSort())
        kj = ex.subst(st, k, i, j)
        # keys of a dict are pairwise distinct
        st.assume(z3.ForAll([i, j], z3.Implies(z3.And(i >= 0, i < n, j >= 0, j < n, k.t == kj.t), i == j)))
        return ex.alloc(st, DictObj([], L.LT([L.MapSeg(i, n, L.LT([L.Unit(Tup([k, v]))]), name)]), distinct_keys=True))


def indexed(name: str, i, sort=None):
    """uninterpreted function of the index: the i-th element's attribute"""
    f = z3.Function(name, z3.IntSort(), sort if sort is not None else Sc)
    return f(i)


class Raw(PSpec):
    """value produced by an arbitrary maker function(ex, st, name)"""

    def __init__(self, fn: Callable) -> None:
        self.fn = fn

    def make(self, ex, st, name):
        return self.fn(ex, st, name)


# ------------------------------------------------------------------------------------------------- model -> native
def to_native(ex, st: State, model: z3.ModelRef, v):
    """concrete Python value for a symbolic value under a z3 model (None if it cannot be built)"""
    if isinstance(v, SV):
        t = model.eval(v.t, model_completion=True)
        return sc_to_native(ex, t)
    if isinstance(v, Tup):
        return tuple(to_native(ex, st, model, x) for x in v.items)
    if isinstance(v, Ref):
        o = st.heap[v.oid]
        if isinstance(o, Obj):
            cls = o.cls
            if o.kind is not None:
                k = model.eval(o.kind, model_completion=True).as_long()
                cls = o.cands[k]
            ci = ex.repo.cls(cls)
            if ci is None:
                return {"__class__": cls, **{k: to_native(ex, st, model, x) for k, x in o.fields.items()}}
            mod = importlib.import_module(ci.module.name)
            klass = getattr(mod, cls)
            fields = {f.name for f in ex.repo.attrs_fields(cls)} if ci.is_attrs else set(o.fields)
            kw = {k: to_native(ex, st, model, x) for k, x in o.fields.items() if k in fields}
            try:
                return klass(**kw)
            except Exception as exc:  # noqa
                return {"__class__": cls, "__error__": repr(exc), **kw}
        if isinstance(o, ListObj):
            if o.lt.is_concrete():
                return [to_native(ex, st, model, x) for x in o.lt.concrete_items()]
            segs = o.lt.segs
            if len(segs) == 1 and isinstance(segs[0], L.MapSeg) and segs[0].body.is_concrete() \
                    and len(segs[0].body.segs) == 1:
                seg = segs[0]
                n = model.eval(seg.n, model_completion=True).as_long()
                if 0 <= n <= 12:
                    return [to_native(ex, st, model, ex.subst(st, seg.body.segs[0].v, seg.ivar, z3.IntVal(k)))
                            for k in range(n)]
            return None
        if isinstance(o, DictObj):
            return {to_native(ex, st, model, k): to_native(ex, st, model, x) for k, x in o.entries}
    return None


def sc_to_native(ex, t):
    d = t.decl().name()
    if d == "none":
        return None
    if d == "b":
        return z3.is_true(t.arg(0))
    if d == "i":
        return t.arg(0).as_long()
    if d == "s":
        return t.arg(0).as_string()
    if d == "e":
        cid, idx = t.arg(0).as_long(), t.arg(1).as_long()
        cls = ex._enum_by_id.get(cid)
        if cls is None:
            return f"<enum {cid}:{idx}>"
        ci = ex.repo.cls(cls)
        mod = importlib.import_module(ci.module.name)
        members = ex.repo.enum_members(cls)
        if 0 <= idx < len(members):
            return getattr(getattr(mod, cls), members[idx][0])
        return f"<{cls}#{idx}>"
    return repr(t)


# ------------------------------------------------------------------------------------------------- contracts
class Contract:
    def __init__(self, target: str, cls, props: List[str], name: str) -> None:
        self.target = target          # 'pkg.mod:Class.method'
        self.key = target
        self.cls = cls
        self.props = props
        self.name = name
        self.sidecar_module = cls.__module__
        self.params: Dict[str, PSpec] = dict(getattr(cls, "params", {}))
        self.cases: Optional[List[Dict[str, PSpec]]] = getattr(cls, "cases", None)  # alternative param shapes
        self.posts: List[str] = [n for n in cls.__dict__ if n.startswith("post_")]
        self.raises: Dict[str, Optional[str]] = dict(getattr(cls, "raises", {}))  # exc class -> iff-condition fn | None
        self.has_pre = "pre" in cls.__dict__
        self.has_model = "model" in cls.__dict__
        self.returns: Optional[PSpec] = getattr(cls, "returns", None)
        self.hook: Optional[Callable] = getattr(cls, "hook", None)  # python-level model (ex, st, bound) -> [Res]
        self.setup: Optional[Callable] = getattr(cls, "setup", None)  # (ex, st, params) extra state before the body
        self.self_spec: Optional[PSpec] = getattr(cls, "self_spec", None)
        self.frame_ok: Sequence[str] = getattr(cls, "modifies", ())
        self.concretize: Optional[Callable] = getattr(cls, "concretize", None)
        self.call_native: Optional[Callable] = getattr(cls, "call_native", None)
        self.loops: Dict[int, Any] = getattr(cls, "loops", {})
        self.ghost_out: Sequence[str] = getattr(cls, "ghost_out", ())
        self.clause_props: Dict[str, Sequence[str]] = getattr(cls, "clause_props", {})
        self.never_raises: Sequence[str] = getattr(cls, "never_raises", ())
        self.ghost_specs: Dict[str, Callable] = getattr(cls, "ghost_specs", {})
        self.ghost_inherit: Dict[str, Callable] = getattr(cls, "ghost_inherit", {})
        self.runtime_checkable: bool = bool(getattr(cls, "runtime_checkable", False))
        self.case_posts: Dict[int, Sequence[str]] = getattr(cls, "case_posts", {})

    def clauses_for(self, prop: Optional[str]) -> Optional[List[str]]:
        """names of the clauses that serve property `prop` (None = all); a clause without an entry in `clause_props`
        serves every property of the contract"""
        if prop is None:
            return None
        names = list(self.posts) + [f"raises-{k}" for k, v in self.raises.items() if v] + ["raises-only-declared"]
        return [n for n in names if prop in self.clause_props.get(n, self.props)]
        self.notes: str = (cls.__doc__ or "").strip()

    # --- AST of a clause -------------------------------------------------------------------------------------
    def clause_fn(self, ex, clause: str) -> FuncV:
        mod = ex.repo.modules[self.sidecar_module]
        ci = mod.classes[self.cls.__name__]
        if clause not in ci.methods:
            raise Unsupported(f"contract clause {self.cls.__name__}.{clause} not found in side-car source")
        return FuncV(ci.methods[clause], mod, f"{self.sidecar_module}:{self.cls.__name__}.{clause}")

    def call_clause(self, ex, st: State, clause: str, env: Dict[str, Any]) -> List[Tuple[State, Any]]:
        fv = self.clause_fn(ex, clause)
        names = [a.arg for a in fv.node.args.args]
        missing = [n for n in names if n not in env]
        if missing:
            raise Unsupported(f"clause {clause} needs unknown parameters {missing}")
        saved = (ex.no_contract_for,)
        return ex.inline_call(fv, [], {n: env[n] for n in names}, st)

    # --- modular application at a call site ------------------------------------------------------------------
    def apply(self, ex, st: State, fn: FuncV, args: List[Any], kwargs: Dict[str, Any]) -> List[Tuple[State, Any]]:
        fr = Frame(ex.new_oid(), fn.mod, None, fn.qualname + ":<callsite>")
        err = ex.bind_params(fn, args, kwargs, st, fr)
        if err is not None:
            return [err]
        bound = dict(fr.locals)
        st.log.append(("call", self.target, dict(bound)))
        for k, v in bound.items():
            st.ghost[f"{self.name}_{k}"] = v  # ghost record of the (last) call: visible to clauses as ghost_<Name>_<arg>
        st.ghost[f"{self.name}_calls"] = st.ghost.get(f"{self.name}_calls", 0) + 1
        ex.modular_calls.add(self.target) if hasattr(ex, "modular_calls") else None
        if self.has_pre:
            for s, v in self.call_clause(ex, st.fork(), "pre", bound):
                if isinstance(v, Exc):
                    raise Unsupported(f"precondition of {self.target} raised {v.cls}")
                ex.side_obligations.append((f"callsite/{self.target.split(':')[-1]}/pre", list(s.pc),
                                            ex.truth(s, v), f"precondition of {self.target} at a call site"))
        if self.hook is not None:
            rs = self.hook(ex, st, bound)
        elif self.has_model:
            rs = []
            for cls, cond in self.raises.items():
                if not cond:  # may be raised at any time (e.g. an overflow inside a library call)
                    s_r = st.fork()
                    s_r.ghost["raised_" + cls] = SV(mk_b(True), "bool")
                    rs.append(ex.raise_(s_r, cls, None))
            rs.extend(self.call_clause(ex, st, "model", bound))
        else:
            rs = self.apply_relational(ex, st, bound)
        for s, v in rs:
            if not isinstance(v, Exc):
                s.ghost[f"{self.name}_result"] = v
        return rs

    def clause_formula(self, ex, st: State, clause: str, env: Dict[str, Any]) -> z3.BoolRef:
        """truth of a (pure) clause in state `st` as ONE formula: the disjunction over the clause's own paths of
        (path condition beyond st.pc) and (truthiness of the value).  `st` is not modified."""
        base = st.fork()
        n0 = len(base.pc)
        k0 = len(ex.skolems)
        disj = []
        ex.in_clause = getattr(ex, "in_clause", 0) + 1
        try:
            outcomes = self.call_clause(ex, base, clause, env)
        finally:
            ex.in_clause -= 1
        for s2, v in outcomes:
            if isinstance(v, Exc):
                if ex.feasible(s2.pc):
                    raise Unsupported(f"clause {clause} of {self.target} raised {v.cls}")
                continue
            delta = s2.pc[n0:]
            disj.append(z3.And(*delta, ex.truth(s2, v)) if delta else ex.truth(s2, v))
        if not disj:
            return z3.BoolVal(False)
        f = z3.Or(*disj) if len(disj) > 1 else disj[0]
        sk = ex.skolems[k0:]
        del ex.skolems[k0:]
        if sk:
            f = z3.Exists(sk, f)  # witnesses chosen inside the clause (e.g. the index a lookup hits)
        return f

    def apply_relational(self, ex, st: State, bound: Dict[str, Any]) -> List[Tuple[State, Any]]:
        """the general modular rule: the callee is known only through its contract - it raises exactly under its
        declared conditions (a class declared without condition may be raised at any time) and otherwise returns a
        fresh value about which nothing but the postconditions is known"""
        if self.returns is None:
            raise Unsupported(f"contract {self.target} has no `returns` specification for modular use")
        outs: List[Tuple[State, Any]] = []
        states = [st]
        for cls, cond in self.raises.items():
            nxt: List[State] = []
            for s in states:
                if not cond or cond.startswith("may_"):
                    s_r = s.fork()
                    msg = SV(mk_s(ex.fresh("msg", z3.StringSort())), "str")
                    outs.append(ex.raise_(s_r, cls, msg, error_message=msg))
                    nxt.append(s)
                    continue
                if cond.startswith("onlyif_"):  # may be raised, but only when the condition holds
                    s_r = s.fork()
                    s_r.assume(self.clause_formula(ex, s_r, cond, bound))
                    if ex.feasible(s_r.pc):
                        msg = SV(mk_s(ex.fresh("msg", z3.StringSort())), "str")
                        outs.append(ex.raise_(s_r, cls, msg, error_message=msg))
                    nxt.append(s)
                    continue
                f = self.clause_formula(ex, s, cond, bound)
                for s3, t in ex.branch(s, f):
                    if t:
                        msg = SV(mk_s(ex.fresh("msg", z3.StringSort())), "str")
                        outs.append(ex.raise_(s3, cls, msg, error_message=msg))
                    else:
                        nxt.append(s3)
            states = nxt
        for s in states:
            res = self.returns.make(ex, s, "ret_" + self.name)
            for g in self.ghost_out:
                s.ghost[g] = res  # ghost variables the callee establishes (e.g. the root the fold produced)
            for g, mk in self.ghost_specs.items():
                s.ghost[g] = mk().make(ex, s, "ghost_" + g)  # the callee's own ghost: some value of this shape
            for g, mk in self.ghost_inherit.items():
                if g not in s.ghost:  # ambient ghost state (e.g. the context-local text): unknown if never set
                    s.ghost[g] = mk().make(ex, s, "ghost_" + g)
            env = dict(bound)
            env["result"] = res
            for gk, gv in s.ghost.items():
                if isinstance(gk, str) and not isinstance(gv, (int, list, dict)):
                    env["ghost_" + gk] = gv
            for p in self.posts:
                names = [a.arg for a in self.clause_fn(ex, p).node.args.args]
                known = set(self.ghost_out) | set(self.ghost_specs) | set(self.ghost_inherit)
                if any(n.startswith("ghost_") and n[6:] not in known for n in names):
                    continue  # a clause about the callee's internal calls: has no meaning at a call site
                s.assume(self.clause_formula(ex, s, p, env))
            if ex.feasible(s.pc):
                outs.append((s, res))
        return outs


# ------------------------------------------------------------------------------------------------- lemmas
LEMMAS: Dict[str, "Lemma"] = {}


class Lemma:
    def __init__(self, fn, params: Dict[str, PSpec], props: List[str], name: str, expect_sat: bool = False) -> None:
        self.fn, self.params, self.props, self.name = fn, params, props, name
        self.module = fn.__module__
        self.expect_sat = expect_sat  # canary: a deliberately false statement that must be refuted


def lemma(params: Dict[str, PSpec], prop: Sequence[str] = (), canary: bool = False):
    """A lemma is a Python-subset function returning a truth value that must hold for all parameter values; it may
    call spec functions and real functions (the latter through their contracts)."""
    def deco(fn):
        l = Lemma(fn, params, list(prop), fn.__name__, canary)
        LEMMAS[f"{fn.__module__}:{fn.__name__}"] = l
        return fn
    return deco
