#!/bin/bash
# developer helper: verify every contract whose key contains $1 against /repo (or $AHBICHT_REPO)
cd /verif; export AHBICHT_REPO="${AHBICHT_REPO:-/repo}"; PYTHONPATH=$AHBICHT_REPO/src:/verif exec .venv/bin/python -W ignore tools/target1.py "$@"
