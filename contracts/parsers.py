"""Contracts of the two parsing functions (C02 exceptional postcondition; the accepted language itself is decided by
the bounded stand-in, see DESIGN §4 C01/C02) and of the key extraction used by ConditionNodeBuilder (C18)."""
import z3

from pyvc.contracts import Raw, Str, contract
from pyvc.values import Opaque, Sc, SV, mk_s


def _parse_hook(real_name):
    def hook(ex, st, bound):
        """modular view: a Tree remembering its source text, or SyntaxError.  A CONSTANT argument is folded through the
        real parser (complete for that one input)."""
        arg = list(bound.values())[0]
        const = z3.simplify(Sc.sv(arg.t)) if isinstance(arg, SV) else None
        if const is not None and z3.is_string_value(const):
            import importlib
            mod, fn = real_name.split(":")
            try:
                getattr(importlib.import_module(mod), fn)(const.as_string())
                return [(st, Opaque("inst:Tree", arg))]
            except SyntaxError:
                return [ex.raise_(st, "SyntaxError", SV(mk_s("not well-formed"), "str"))]
        msg = SV(mk_s(ex.fresh("msg", z3.StringSort())), "str")
        return [ex.raise_(st.fork(), "SyntaxError", msg), (st, Opaque("inst:Tree", arg))]
    return hook


def tree():
    return Raw(lambda ex, st, name: Opaque("inst:Tree"))


@contract("ahbicht.expressions.condition_expression_parser:parse_condition_expression_to_tree", prop=["C02"])
class ParseCondition:
    """for every str: returns a Tree or raises SyntaxError - nothing else (given A-LARK-PARSE)"""
    params = dict(condition_expression=Str())
    raises = {"SyntaxError": None}
    returns = tree()
    hook = _parse_hook("ahbicht.expressions.condition_expression_parser:parse_condition_expression_to_tree")


@contract("ahbicht.expressions.ahb_expression_parser:parse_ahb_expression_to_single_requirement_indicator_expressions",
          prop=["C02"])
class ParseAhb:
    params = dict(ahb_expression=Str())
    raises = {"SyntaxError": None}
    returns = tree()
    hook = _parse_hook(
        "ahbicht.expressions.ahb_expression_parser:parse_ahb_expression_to_single_requirement_indicator_expressions")
