"""Contracts of ahbicht.expressions.ahb_expression_evaluation (C09) and utility_functions.gather_if_necessary (C12)."""
import z3

from ahbicht.models.enums import ModalMark, PrefixOperator
from pyvc import assumed
from pyvc import lists as L
from pyvc.contracts import Bool, Enum, Inst, OneOfEnums, Opt, Raw, SeqOf, Str, contract
from pyvc.values import CoroV, ListObj, Opaque, Ref, Sc, SV
from pyvc.values import mk_s as mk_s_
from specs.ghost import abstract_value

A = "ahbicht.expressions.ahb_expression_evaluation:"
AT = A + "AhbExpressionTransformer."
SELF = Inst("AhbExpressionTransformer")
IND = OneOfEnums("ModalMark", "PrefixOperator")


def rc_result():
    return Inst("RequirementConstraintEvaluationResult", requirement_constraints_fulfilled=Opt(Bool()),
                requirement_is_conditional=Opt(Bool()), format_constraints_expression=Opt(Str()), hints=Opt(Str()))


def fc_result():
    return Inst("FormatConstraintEvaluationResult", format_constraints_fulfilled=Bool(), error_message=Opt(Str()))


def ahb_result():
    return Inst("AhbExpressionEvaluationResult", requirement_indicator=IND,
                requirement_constraint_evaluation_result=rc_result(), format_constraint_evaluation_result=fc_result())


def _part(ex, st, name, i):
    return ahb_result().make(ex, st, name)


def _part_coro(ex, st, name, i):
    """the i-th element of the list handed to _ahb_expression_async: an AWAITABLE that yields the part's result or
    raises InvalidExpressionError (iff part_invalid(i)) / an evaluator's exception"""
    res = ahb_result().make(ex, st, name + ".result")
    return CoroV(Opaque("part-coro", {"result": res, "idx": SV(Sc.i(i), "int")}), [], {})


def _part_run(ex, st, args, kwargs, fn):
    from pyvc import ghosts
    (_, inv), = ghosts.abstract_value(ex, st, [SV(mk_s_("part_invalid"), "str"), fn.data["idx"]], {}, None)
    outs = []
    for s, bad in ex.branch(st, Sc.is_b(inv.t) & Sc.bv(inv.t)):
        if bad:
            outs.append(ex.raise_(s, "InvalidExpressionError", None, error_message=ex.fresh_sv("reason", "str")))
        else:
            outs.append(ex.raise_(s.fork(), "Exception", None))
            outs.append((s, fn.data["result"]))
    return outs


assumed.LIBRARY["part-coro()"] = _part_run


def part_invalid(i):
    """ghost: evaluating the i-th part raises the invalid-expression error"""
    return abstract_value("part_invalid", i) is True


@contract("ahbicht.utility_functions:gather_if_necessary", prop=["C09", "C12"])
class GatherIfNecessary:
    """modular view: the list of the (awaited or plain) items in the order of the input"""
    params = dict(results_and_awaitable_results=SeqOf(_part))
    raises = {"Exception": None, "InvalidExpressionError": None, "NotImplementedError": None}

    def hook(ex, st, bound):
        """modular view: ALL awaitables of the list are awaited (an exception of any of them propagates); plain items
        are passed through; positions are kept"""
        lt = ex.as_lt(st, bound["results_and_awaitable_results"])
        if not any(isinstance(x, CoroV) for seg in lt.segs for x in _units(seg)):
            outs = [ex.raise_(st.fork(), k, None) for k in ("Exception", "InvalidExpressionError", "NotImplementedError")]
            outs.append((st, bound["results_and_awaitable_results"]))
            return outs
        outs = []
        for s, r in ex.force_lt(st, lt):
            outs.append((s, r) if not isinstance(r, L.LT) else (s, ex.alloc(s, ListObj(r))))
        return outs

    def post_same_items_same_order(results_and_awaitable_results, result):
        return result == results_and_awaitable_results


def _units(seg):
    if isinstance(seg, L.Unit):
        return [seg.v]
    if isinstance(seg, L.MapSeg):
        return [u.v for u in seg.body.segs if isinstance(u, L.Unit)]
    return []


def fulfilled(p):
    return p.requirement_constraint_evaluation_result.requirement_constraints_fulfilled


@contract(AT + "_ahb_expression_async", prop=["C09"])
class AhbExpressionAsync:
    """returns the FIRST part whose requirement constraints are fulfilled (True; None and False are skipped),
    otherwise the LAST part; marks the selected fulfilled part conditional iff there is more than one part"""
    cases = [dict(self=SELF, list_of_single_requirement_indicator_expressions=SeqOf(_part, min_len=1)),
             dict(self=SELF, list_of_single_requirement_indicator_expressions=SeqOf(_part_coro, min_len=1))]
    raises = {"Exception": None, "InvalidExpressionError": "onlyif_parts_are_awaitables", "NotImplementedError": None}
    clause_props = {"post_every_part_is_evaluated": ["C09", "C06", "C16"]}
    case_posts = {0: ["post_first_fulfilled_else_last", "post_indicator_and_results_are_the_parts_own",
                      "post_conditional_if_several_parts"], 1: ["post_every_part_is_evaluated"]}

    def onlyif_parts_are_awaitables(self, list_of_single_requirement_indicator_expressions):
        return True

    def post_every_part_is_evaluated(self, list_of_single_requirement_indicator_expressions, result):
        """C06/C16: EVERY part is evaluated, whatever the outcome of earlier parts - a normal return means no part
        is invalid (validity must not depend on condition states)"""
        n = len(list_of_single_requirement_indicator_expressions)
        return all(not part_invalid(i) for i in range(n))

    def post_first_fulfilled_else_last(self, list_of_single_requirement_indicator_expressions, result):
        parts = list_of_single_requirement_indicator_expressions
        n = len(parts)
        if any(fulfilled(parts[k]) is True and result is parts[k]
               and all(not (fulfilled(parts[j]) is True) for j in range(k)) for k in range(n)):
            return True
        return all(not (fulfilled(parts[j]) is True) for j in range(n)) and result is parts[n - 1]

    def post_indicator_and_results_are_the_parts_own(self, list_of_single_requirement_indicator_expressions, result):
        parts = list_of_single_requirement_indicator_expressions
        return any(result is parts[k] and result.requirement_indicator == parts[k].requirement_indicator
                   and fulfilled(result) == fulfilled(parts[k])
                   and result.requirement_constraint_evaluation_result.hints
                   == parts[k].requirement_constraint_evaluation_result.hints
                   and result.requirement_constraint_evaluation_result.format_constraints_expression
                   == parts[k].requirement_constraint_evaluation_result.format_constraints_expression
                   and result.format_constraint_evaluation_result.format_constraints_fulfilled
                   == parts[k].format_constraint_evaluation_result.format_constraints_fulfilled
                   and result.format_constraint_evaluation_result.error_message
                   == parts[k].format_constraint_evaluation_result.error_message
                   for k in range(len(parts)))

    def post_conditional_if_several_parts(self, list_of_single_requirement_indicator_expressions, result):
        """several parts: a fulfilled selected part is reported conditional; otherwise the part's own flag is kept"""
        parts = list_of_single_requirement_indicator_expressions
        if fulfilled(result) is True and len(parts) > 1:
            return result.requirement_constraint_evaluation_result.requirement_is_conditional is True
        return any(result is parts[k] and result.requirement_constraint_evaluation_result.requirement_is_conditional
                   == parts[k].requirement_constraint_evaluation_result.requirement_is_conditional
                   for k in range(len(parts)))


@contract(AT + "requirement_indicator", prop=["C09"])
class BareIndicator:
    """a bare indicator counts as fulfilled and unconditional, no hints, no format constraints"""
    runtime_checkable = True
    params = dict(self=SELF, requirement_indicator=IND)
    raises = {}

    def call_native(args):
        # the method is wrapped by lark's v_args(inline=True): it is called with the list of children
        from ahbicht.expressions.ahb_expression_evaluation import AhbExpressionTransformer
        return AhbExpressionTransformer().requirement_indicator([args["requirement_indicator"]])

    def post_fulfilled_unconditional(self, requirement_indicator, result):
        rc = result.requirement_constraint_evaluation_result
        fc = result.format_constraint_evaluation_result
        return result.requirement_indicator == requirement_indicator \
            and rc.requirement_constraints_fulfilled is True and rc.requirement_is_conditional is False \
            and rc.format_constraints_expression is None and rc.hints is None \
            and fc.format_constraints_fulfilled is True and fc.error_message is None


@contract(AT + "_single_requirement_indicator_expression_async", prop=["C09"])
class SinglePart:
    """the three result fields are the indicator passed in, the requirement evaluation of THIS part's condition
    expression and the format evaluation of ITS format-constraint expression"""
    params = dict(self=SELF, requirement_indicator=IND, condition_expression=Str())
    raises = {"Exception": None, "InvalidExpressionError": None, "NotImplementedError": None, "SyntaxError": None,
              "ValueError": None}

    def post_own_results(self, requirement_indicator, condition_expression, result,
                         ghost_RequirementConstraintEvaluation_condition_expression,
                         ghost_RequirementConstraintEvaluation_result,
                         ghost_FormatConstraintEvaluation_format_constraints_expression,
                         ghost_FormatConstraintEvaluation_result):
        return result.requirement_indicator == requirement_indicator \
            and ghost_RequirementConstraintEvaluation_condition_expression == condition_expression \
            and result.requirement_constraint_evaluation_result is ghost_RequirementConstraintEvaluation_result \
            and ghost_FormatConstraintEvaluation_format_constraints_expression \
            == ghost_RequirementConstraintEvaluation_result.format_constraints_expression \
            and result.format_constraint_evaluation_result is ghost_FormatConstraintEvaluation_result


# evaluate_ahb_expression_tree: what the fold over AhbExpressionTransformer produces is the coroutine of the root
def _root_coro():
    return Raw(lambda ex, st, name: CoroV(Opaque("ahb-root-coro"), [], {}))


def _root_coro_run(ex, st, args, kwargs, fn):
    outs = []
    for k in ("Exception", "InvalidExpressionError", "NotImplementedError"):
        outs.append(ex.raise_(st.fork(), k, None))
    outs.append((st, ahb_result().make(ex, st, "root_result")))
    return outs


assumed.FOLD_RESULT["AhbExpressionTransformer"] = _root_coro
assumed.LIBRARY["ahb-root-coro()"] = _root_coro_run


# ---- gather_if_necessary: own body, bounded by length (all awaitability patterns, symbolic contents) -------------------------
import itertools as _it  # noqa: E402

from pyvc.contracts import Raw as _Raw  # noqa: E402


def _mixed_list(pattern):
    def mk(ex, st, name):
        items = []
        for k, is_aw in enumerate(pattern):
            res = ahb_result().make(ex, st, f"{name}[{k}]")
            items.append(CoroV(Opaque("item-coro", {"result": res}), [], {}) if is_aw else res)
        return ex.alloc(st, ListObj(L.LT.of(items)))
    return _Raw(mk)


def _item_run(ex, st, args, kwargs, fn):
    # an awaitable item is user code: it yields its value, or raises - an ordinary Exception or the library's
    # InvalidExpressionError, which derives from BaseException (C16 relies on it passing through)
    return [ex.raise_(st.fork(), "Exception", None),
            ex.raise_(st.fork(), "InvalidExpressionError", None, error_message=ex.fresh_sv("reason", "str")),
            (st, fn.data["result"])]


assumed.LIBRARY["item-coro()"] = _item_run


def _isawaitable(ex, st, args, kwargs, fn):
    from pyvc.values import sv_bool
    assumed.used(ex, "A-STDLIB inspect.iscoroutinefunction / isawaitable are pure predicates")
    return [(st, sv_bool(isinstance(args[0], CoroV)))]


assumed.LIBRARY["inspect.isawaitable"] = _isawaitable


def _g_item_values(ex, st, args, kwargs, fn):
    """ghost: the list of values the items stand for: the awaited result of an awaitable, the item itself otherwise"""
    lt = ex.as_lt(st, args[0])
    vals = [x.fn.data["result"] if isinstance(x, CoroV) else x for x in lt.concrete_items()]
    return [(st, ex.alloc(st, ListObj(L.LT.of(vals))))]


assumed.LIBRARY["ghost.item_values"] = _g_item_values
from specs.ghost import item_values  # noqa: E402


@contract("ahbicht.utility_functions:gather_if_necessary", prop=["C12", "C16", "C06"], name="GatherIfNecessaryBody",
          key="ahbicht.utility_functions:gather_if_necessary#body")
class GatherIfNecessaryBody:
    """own body, for every list of length <= 4 and every pattern of awaitable / plain items (contents symbolic): the
    result holds, position by position, the awaited value of an awaitable and the item itself otherwise.  Labelled
    bounded (by length): the index bookkeeping through a loop-carried counter is outside the generic-iteration rule."""
    cases = [dict(results_and_awaitable_results=_mixed_list(p)) for k in range(0, 5)
             for p in _it.product([False, True], repeat=k)]
    raises = {"Exception": None, "InvalidExpressionError": None}   # only what an item raises (both pass through)

    def post_positions_are_kept(results_and_awaitable_results, result):
        return result == item_values(results_and_awaitable_results)


# ---- gather_if_necessary: own body for a list of ANY length (loop invariant + theory of filtered sequences) ---------------
from pyvc.values import Obj as _Obj, mk_b as _mk_b, mk_i as _mk_i, sv_bool as _sv_bool  # noqa: E402
from specs.ghost import count_awaitables_before  # noqa: E402


def _mixed_item(ex, st, name, i):
    """generic item of the heterogeneous list: awaitable or not (symbolic), with the value it stands for when awaited"""
    return ex.alloc(st, _Obj("MixedItem", {"aw": SV(_mk_b(ex.fresh(name + ".awaitable", z3.BoolSort())), "bool"),
                                           "val": ahb_result().make(ex, st, name + ".awaited")}, tag=name))


def _is_mixed(st, v):
    return isinstance(v, Ref) and isinstance(st.heap.get(v.oid), _Obj) and st.heap[v.oid].cls == "MixedItem"


def _isawaitable_sym(ex, st, args, kwargs, fn):
    assumed.used(ex, "A-STDLIB inspect.iscoroutinefunction / isawaitable are pure predicates")
    if _is_mixed(st, args[0]):
        return [(st, st.heap[args[0].oid].fields["aw"])]
    return [(st, _sv_bool(isinstance(args[0], CoroV)))]


assumed.LIBRARY["inspect.isawaitable"] = _isawaitable_sym


def _await_mixed(ex, st, ref):
    """awaiting an awaitable item yields the value it stands for, or raises (the awaitable is user code)"""
    return [ex.raise_(st.fork(), "Exception", None),
            ex.raise_(st.fork(), "InvalidExpressionError", None, error_message=ex.fresh_sv("reason", "str")),
            (st, st.heap[ref.oid].fields["val"])]


assumed.AWAIT_HOOKS["MixedItem"] = _await_mixed


def _g_item_values_sym(ex, st, args, kwargs, fn):
    lt = ex.as_lt(st, args[0])
    if lt.is_concrete():
        return _g_item_values(ex, st, args, kwargs, fn)

    def f(item, binders):
        if not _is_mixed(st, item):
            raise L.ShapeMismatch("item_values of a list whose items are not mixed items")
        aw = Sc.bv(st.heap[item.oid].fields["aw"].t)
        return L.LT([L.Guard(aw, L.LT([L.Unit(st.heap[item.oid].fields["val"])])),
                     L.Guard(z3.Not(aw), L.LT([L.Unit(item)]))])
    return [(st, ex.alloc(st, ListObj(L.lt_map(lt, f))))]


assumed.LIBRARY["ghost.item_values"] = _g_item_values_sym


def _g_count_awaitables_before(ex, st, args, kwargs, fn):
    """ghost: cnt(k) of the filtered sequence [x for x in items if isawaitable(x)] (pyvc/listtheory.py)"""
    from pyvc.values import Unsupported
    lt = ex.as_lt(st, args[0])
    k = args[1]
    if lt.is_concrete():
        if not z3.is_int_value(z3.simplify(Sc.iv(k.t))):
            raise Unsupported("count_awaitables_before of a concrete list at a symbolic index")
        kk = z3.simplify(Sc.iv(k.t)).as_long()
        return [(st, SV(_mk_i(sum(1 for x in lt.concrete_items()[:kk] if isinstance(x, CoroV))), "int"))]
    if not (len(lt.segs) == 1 and isinstance(lt.segs[0], L.MapSeg) and len(lt.segs[0].body.segs) == 1
            and isinstance(lt.segs[0].body.segs[0], L.Unit) and _is_mixed(st, lt.segs[0].body.segs[0].v)):
        raise Unsupported("count_awaitables_before of a list of this shape")
    seg = lt.segs[0]
    aw = Sc.bv(st.heap[seg.body.segs[0].v.oid].fields["aw"].t)
    cnt, _sel = ex.filters.get(st, seg.ivar, seg.n, aw)
    return [(st, SV(_mk_i(cnt(Sc.iv(k.t))), "int"))]


assumed.LIBRARY["ghost.count_awaitables_before"] = _g_count_awaitables_before


@contract("ahbicht.utility_functions:gather_if_necessary", prop=["C12", "C16", "C06"], name="GatherIfNecessaryLoop",
          key="ahbicht.utility_functions:gather_if_necessary#loop")
class GatherIfNecessaryLoop:
    """own body, for a list of ANY length whose items are awaitable or not in any pattern: the result holds, position by
    position, the awaited value of an awaitable and the item itself otherwise, and the index bookkeeping never leaves
    the list of awaited results.  The loop-carried counter is handled by the loop invariant below; that the counter
    addresses the right awaited result is the theory of filtered sequences (pyvc/listtheory.py, lemmas proved each run)."""
    params = dict(results_and_awaitable_results=SeqOf(_mixed_item))
    raises = {"Exception": None, "InvalidExpressionError": None}   # only what an item raises (both pass through)
    never_raises = ["IndexError"]
    loop_invariants = {0: "inv_counter_is_the_number_of_awaitables_seen"}

    def concretize(ex, s, m, values):
        """counter-model -> [{"awaitable": bool, "value": result object}, ...] (made into real coroutines / plain
        objects by call_native)"""
        from pyvc.contracts import to_native
        items = to_native(ex, s, m, values["results_and_awaitable_results"])
        return {"results_and_awaitable_results": [{"awaitable": bool(d["aw"]), "value": d["val"]} for d in items]}

    def call_native(args):
        from ahbicht.utility_functions import gather_if_necessary

        async def later(v):
            return v
        return gather_if_necessary([later(d["value"]) if d["awaitable"] else d["value"]
                                    for d in args["results_and_awaitable_results"]])

    def inv_counter_is_the_number_of_awaitables_seen(results_and_awaitable_results, carried_int_0, iteration):
        """carried_int_0: the (only) integer the loop carries from one iteration to the next - in the code at hand
        `awaited_results_index`; named by its role, so that renaming the local does not touch the invariant"""
        return carried_int_0 == count_awaitables_before(results_and_awaitable_results, iteration)

    def post_positions_are_kept(results_and_awaitable_results, result):
        return result == item_values(results_and_awaitable_results)
