"""Adversarial schedule harness (`sched`, DESIGN §3) shared by the bounded stand-ins of C12 and C15.

Every single evaluation call of the user-supplied asynchronous pieces (one requirement-constraint key, one
format-constraint key, one hint key, one package occurrence) registers itself with a *controller*, performs an
optional number of bare ``await asyncio.sleep(0)`` yields and then blocks on its own ``asyncio.Event`` (its *gate*).
A controller task waits until the system under test is *quiescent* (everything that has been started is blocked at
a gate and the event loop has nothing else to run) and then opens gates in a CHOSEN order.  No timing is involved:
the completion order of the awaitables ahbicht gathers is forced by the order in which the gates are opened.

Two ways of choosing:

* ``mode="rounds"`` – the gates blocked at a quiescent point form a *round*; they are opened in the order given by a
  permutation of the round (registration order = identity); after each opening the system runs to quiescence again
  (so completion order == opening order); gates that appear meanwhile (format constraints are only evaluated after
  the requirement constraints of the same part have finished, ...) belong to the next round.
* ``mode="steps"`` – at every quiescent point ONE of all currently blocked gates is chosen (this additionally
  produces interleavings across stages, e.g. one modal-mark part / data element finishing completely before the
  requirement constraints of its sibling are released).

All choices go through a `Chooser`: a replayable decision vector (prefix, then 0 or seeded random).  Exhaustive
enumeration = depth first search over decision vectors (`all_schedules`).

The values the evaluators produce come from a plain table: the `ContentEvaluationResult` that
`bounded.common.set_cer` stored for the *current context* and that ahbicht injects as `EvaluatableData.body`
(provider based injection, evaluated in the calling task's context).  The reference run is the very same table with
the very same evaluator objects and no controller installed: then no evaluator ever suspends.

A timeout, a deadlock or a non-reproducible decision vector is a HARNESS problem: `HarnessError` (a RuntimeError,
=> checker crash), never a violation.
"""
from __future__ import annotations

import asyncio
import contextvars
import json
import math
import random
from dataclasses import dataclass, field
from typing import Any, Callable, Dict, Iterator, List, Optional, Sequence, Tuple

import inject
import ahbicht.content_evaluation  # noqa: F401  (import order, see README_API)
from ahbicht.content_evaluation.evaluationdatatypes import EvaluatableData, EvaluatableDataProvider, EvaluationContext
from ahbicht.content_evaluation.fc_evaluators import FcEvaluator, text_to_be_evaluated_by_format_constraint
from ahbicht.content_evaluation.rc_evaluators import RcEvaluator
from ahbicht.content_evaluation.token_logic_provider import SingletonTokenLogicProvider
from ahbicht.expressions.hints_provider import HintsProvider
from ahbicht.expressions.package_expansion import PackageResolver
from ahbicht.models.condition_nodes import EvaluatedFormatConstraint
from ahbicht.models.content_evaluation_result import ContentEvaluationResult, ContentEvaluationResultSchema
from ahbicht.models.mapping_results import PackageKeyConditionExpressionMapping
from efoli import EdifactFormat, EdifactFormatVersion

from bounded import common

RUN_TIMEOUT_S = 20.0
_MAX_SPINS = 200_000  # upper bound of sleep(0) rounds while waiting for quiescence (harness error beyond)
_STABLE_SPINS = 64  # fall-back quiescence criterion if the loop's ready queue cannot be inspected
FORMAT, VERSION = EdifactFormat.UTILMD, EdifactFormatVersion.FV2210


class HarnessError(RuntimeError):
    """the schedule harness itself failed (timeout, deadlock, irreproducible schedule) – never a verdict"""


# ------------------------------------------------------------------------------------------------ choices
class Chooser:
    """Replayable decisions: the first len(prefix) branching decisions are replayed, later ones are 0 (or seeded
    random).  Only real branchings (n > 1) are recorded."""

    def __init__(self, prefix: Sequence[int] = (), rng: Optional[random.Random] = None) -> None:
        self.prefix = list(prefix)
        self.rng = rng
        self.trace: List[Tuple[int, int]] = []

    def decide(self, n: int) -> int:
        if n <= 1:
            return 0
        i = len(self.trace)
        if i < len(self.prefix):
            c = self.prefix[i]
            if not 0 <= c < n:
                raise HarnessError(f"decision {i}: replayed choice {c} not in range({n}) – schedule not reproducible")
        elif self.rng is not None:
            c = self.rng.randrange(n)
        else:
            c = 0
        self.trace.append((c, n))
        return c


def nth_permutation(k: int, idx: int) -> List[int]:
    """idx-th permutation of range(k) in lexicographic order (0 = identity)."""
    items = list(range(k))
    out = []
    for i in range(k, 0, -1):
        f = math.factorial(i - 1)
        q, idx = divmod(idx, f)
        out.append(items.pop(q))
    return out


# ------------------------------------------------------------------------------------------------ controller
class _Gate:
    __slots__ = ("label", "seq", "event", "blocked", "released", "done")

    def __init__(self, label: str, seq: int) -> None:
        self.label, self.seq = label, seq
        self.event = asyncio.Event()
        self.blocked = self.released = self.done = False


RUN_TAG: contextvars.ContextVar[str] = contextvars.ContextVar("verif_sched_run_tag", default="")
"""tag of the concurrently running evaluation the current task belongs to (set by the caller inside each task)"""


class Controller:
    def __init__(self, chooser: Chooser, mode: str = "rounds", yp: int = 0, settle: bool = True) -> None:
        assert mode in ("rounds", "steps")
        self.chooser, self.mode, self.yp, self.settle = chooser, mode, yp, settle
        self.gates: List[_Gate] = []
        self.n_done = 0
        self.completion: List[str] = []  # labels in the order in which the evaluations completed
        self.log: List[dict] = []  # one entry per round / step: blocked labels and opening order
        self.task: Optional[asyncio.Future] = None
        self._occ: Dict[str, int] = {}

    # ---- called by the evaluators
    async def pass_gate(self, kind: str, key: str) -> None:
        base = f"{RUN_TAG.get()}{kind}{key}"
        occ = self._occ.get(base, 0)
        self._occ[base] = occ + 1
        gate = _Gate(f"{base}#{occ}", len(self.gates))
        self.gates.append(gate)
        # yield pattern: 0 yields if yp == 0, otherwise a deterministic number in 0..3 that differs between gates
        for _ in range(0 if self.yp == 0 else ((gate.seq + 1) * self.yp) % 4):
            await asyncio.sleep(0)
        gate.blocked = True
        await gate.event.wait()
        gate.done = True
        self.n_done += 1
        self.completion.append(gate.label)

    # ---- controller side
    def _blocked(self) -> List[_Gate]:
        return [g for g in self.gates if g.blocked and not g.released]

    async def quiesce(self) -> None:
        """returns when nothing but the controller can run: every started evaluation is blocked at its gate (or has
        finished) and the loop's ready queue is empty.  Exact if the loop exposes `_ready` (CPython's
        BaseEventLoop); otherwise: the counters did not change for _STABLE_SPINS consecutive loop iterations."""
        loop = asyncio.get_running_loop()
        ready = getattr(loop, "_ready", None)
        last, stable = None, 0
        for _ in range(_MAX_SPINS):
            await asyncio.sleep(0)
            sig = (len(self.gates), sum(1 for g in self.gates if g.blocked), self.n_done,
                   self.task.done() if self.task is not None else None)
            if ready is not None:
                if len(ready) == 0:
                    if any(not g.blocked for g in self.gates):  # a started evaluation that is still in its pre-yields
                        raise HarnessError("ready queue empty but an evaluation is neither blocked nor finished")
                    return
            else:
                stable = stable + 1 if sig == last else 0
                if stable >= _STABLE_SPINS and all(g.blocked for g in self.gates):
                    return
            last = sig
        raise HarnessError("system under test did not become quiescent")

    async def _open(self, gate: _Gate) -> None:
        gate.released = True
        gate.event.set()
        if self.settle:
            await self.quiesce()

    async def drive(self, task: asyncio.Future) -> None:
        self.task = task
        while True:
            await self.quiesce()
            if task.done():
                break
            blocked = self._blocked()
            if not blocked:
                raise HarnessError("deadlock: the system under test is neither finished nor blocked at a gate")
            if self.mode == "rounds":
                perm = nth_permutation(len(blocked), self.chooser.decide(math.factorial(len(blocked))))
                order = [blocked[i] for i in perm]
                self.log.append({"blocked": [g.label for g in blocked], "opened": [g.label for g in order]})
                for gate in order:
                    await self._open(gate)
            else:
                gate = blocked[self.chooser.decide(len(blocked))]
                self.log.append({"blocked": [g.label for g in blocked], "opened": [gate.label]})
                await self._open(gate)
        # the task finished (possibly with an exception that made a gather return early): let stragglers finish
        for _ in range(1000):
            rest = self._blocked()
            if not rest:
                break
            for gate in rest:
                gate.released = True
                gate.event.set()
            await self.quiesce()


_CTL: Optional[Controller] = None  # one controller per asyncio.run; None = reference mode (nothing ever yields)
_OBS: Optional[List[dict]] = None  # observations of the evaluators (what data / which input each call saw)
_schema = ContentEvaluationResultSchema()
_table_cache: Dict[int, Tuple[Any, ContentEvaluationResult]] = {}


async def _gate(kind: str, key: str) -> None:
    ctl = _CTL
    if ctl is not None:
        await ctl.pass_gate(kind, key)


def body_key(body: Any) -> str:
    return json.dumps(body, sort_keys=True, ensure_ascii=False)


def _table(body: Any) -> ContentEvaluationResult:
    hit = _table_cache.get(id(body))
    if hit is not None and hit[0] is body:
        return hit[1]
    if body is None:
        raise HarnessError("no content evaluation result was set in this context (bounded.common.set_cer)")
    cer = _schema.load(body)
    _table_cache[id(body)] = (body, cer)  # keeps `body` alive, so the id cannot be reused
    return cer


def _observe(kind: str, key: str, body: Any, **more: Any) -> None:
    if _OBS is not None:
        _OBS.append({"kind": kind, "key": key, "run": RUN_TAG.get(), "body": body_key(body), **more})


# ------------------------------------------------------------------------------------------------ evaluators
class _Injected:
    @inject.params(evaluatable_data=EvaluatableDataProvider)
    def _data(self, evaluatable_data: EvaluatableData) -> EvaluatableData:  # provider called in the caller's context
        return evaluatable_data


class SchedRcEvaluator(RcEvaluator):
    """every key is 'implemented' by an async method that passes its gate and then looks the value up in the table
    found in the evaluatable data it was handed.  The real RcEvaluator.evaluate_conditions /
    evaluate_single_condition run unchanged."""
    edifact_format, edifact_format_version = FORMAT, VERSION

    def _get_default_context(self) -> EvaluationContext:
        return EvaluationContext(scope=None)

    def get_evaluation_method(self, condition_key: str) -> Optional[Callable]:
        async def evaluate(evaluatable_data: EvaluatableData, context: EvaluationContext):
            await _gate("rc", condition_key)
            _observe("rc", condition_key, evaluatable_data.body)
            try:
                return _table(evaluatable_data.body).requirement_constraints[condition_key]
            except KeyError as key_error:
                raise NotImplementedError(f"No result was provided for condition '{condition_key}'.") from key_error

        return evaluate


def echo_verdict(key: str, entered_input: Optional[str]) -> bool:
    """verdict of the echoing format constraints: a function of (key, input) only"""
    text = entered_input or ""
    return "okall" in text or f"ok{key}" in text


def echo_message(key: str, entered_input: Optional[str]) -> str:
    return f"[{key}] rejects <{entered_input}>"


class SchedFcEvaluator(FcEvaluator, _Injected):
    """format constraints: 931..935 are the shipped ones (called after the gate); all others come from the table or,
    with echo=True, judge and *echo* the input the real FcEvaluator.evaluate_single_format_constraint handed in."""
    edifact_format, edifact_format_version = FORMAT, VERSION

    def __init__(self, echo: bool = False) -> None:
        super().__init__()
        self.echo = echo

    def get_evaluation_method(self, condition_key: str) -> Optional[Callable]:
        shipped = self._evaluation_methods.get(condition_key)

        async def evaluate(entered_input: Optional[str]):
            await _gate("fc", condition_key)
            body = self._data().body  # pylint:disable=no-value-for-parameter
            _observe("fc", condition_key, body, input=entered_input,
                     ctx_after_gate=text_to_be_evaluated_by_format_constraint.get())
            if shipped is not None:
                return shipped(entered_input)
            if self.echo:
                ok = echo_verdict(condition_key, entered_input)
                return EvaluatedFormatConstraint(format_constraint_fulfilled=ok,
                                                 error_message=None if ok else echo_message(condition_key,
                                                                                            entered_input))
            try:
                entry = _table(body).format_constraints[condition_key]
            except KeyError as key_error:
                raise NotImplementedError(f"No result was provided for {condition_key}.") from key_error
            return EvaluatedFormatConstraint(format_constraint_fulfilled=entry.format_constraint_fulfilled,
                                             error_message=entry.error_message)

        return evaluate


class SchedHintsProvider(HintsProvider, _Injected):
    edifact_format, edifact_format_version = FORMAT, VERSION

    async def get_hint_text(self, condition_key: str) -> Optional[str]:
        await _gate("hint", condition_key)
        body = self._data().body  # pylint:disable=no-value-for-parameter
        _observe("hint", condition_key, body)
        return _table(body).hints.get(condition_key)


class SchedPackageResolver(PackageResolver, _Injected):
    edifact_format, edifact_format_version = FORMAT, VERSION

    async def get_condition_expression(self, package_key: str) -> PackageKeyConditionExpressionMapping:
        await _gate("pkg", package_key)
        body = self._data().body  # pylint:disable=no-value-for-parameter
        _observe("pkg", package_key, body)
        return PackageKeyConditionExpressionMapping(
            edifact_format=FORMAT, package_key=package_key,
            package_expression=(_table(body).packages or {}).get(package_key))


def make_pieces(echo: bool = False):
    return SchedRcEvaluator(), SchedFcEvaluator(echo=echo), SchedHintsProvider(), SchedPackageResolver()


def install(echo: bool = False):
    """(re)configures inject with the gated evaluators; returns them (rc, fc, hints, packages)"""
    pieces = make_pieces(echo)
    common.configure_inject(token_logic_provider=SingletonTokenLogicProvider(list(pieces)))
    return pieces


# ------------------------------------------------------------------------------------------------ running
@dataclass
class Run:
    value: Any = None  # result of the coroutine (None if it raised)
    exc: Optional[Tuple[str, str]] = None  # (type name, message) of the exception the system under test raised
    decisions: List[int] = field(default_factory=list)  # replayable decision vector
    branching: List[int] = field(default_factory=list)  # number of options at every decision
    log: List[dict] = field(default_factory=list)  # rounds / steps: blocked gates and opening order
    completion: List[str] = field(default_factory=list)  # labels of the evaluations in completion order
    obs: List[dict] = field(default_factory=list)

    def outcome(self) -> Any:
        return ("raised", self.exc) if self.exc is not None else ("returned", self.value)

    def schedule(self) -> dict:
        return {"decisions": self.decisions, "log": self.log}


def _run_loop(main_coro) -> Any:
    async def guarded():
        try:
            return await asyncio.wait_for(main_coro, RUN_TIMEOUT_S)
        except asyncio.TimeoutError as timeout:
            raise HarnessError(f"run exceeded {RUN_TIMEOUT_S} s (harness problem, not a verdict)") from timeout

    return asyncio.run(guarded())  # a fresh event loop per run


def _finish(task: "asyncio.Future", run: Run, post: Optional[Callable[[Any], Any]]) -> None:
    if task.cancelled():
        raise HarnessError("the system under test was cancelled")
    error = task.exception()
    if error is not None:
        if isinstance(error, (HarnessError, asyncio.CancelledError)):
            raise error
        run.exc = (type(error).__name__, str(error))
    else:
        run.value = post(task.result()) if post else task.result()


def run_reference(make_coro: Callable[[], Any], post: Optional[Callable[[Any], Any]] = None,
                  observe: bool = False) -> Run:
    """runs make_coro() with NO controller: no evaluator ever suspends."""
    global _CTL, _OBS  # pylint:disable=global-statement
    run = Run()
    _CTL, _OBS = None, ([] if observe else None)
    _table_cache.clear()

    async def main():
        task = asyncio.ensure_future(make_coro())
        await asyncio.wait([task])
        return task

    try:
        _finish(_run_loop(main()), run, post)
        run.obs = _OBS or []
    finally:
        _OBS = None
    return run


def run_scheduled(make_coro: Callable[[], Any], decisions: Sequence[int] = (), rng: Optional[random.Random] = None,
                  mode: str = "rounds", yp: int = 0, settle: bool = True,
                  post: Optional[Callable[[Any], Any]] = None, observe: bool = False) -> Run:
    """runs make_coro() as a task under a controller that forces the completion order chosen by `decisions` (then 0,
    or `rng`)."""
    global _CTL, _OBS  # pylint:disable=global-statement
    chooser = Chooser(decisions, rng)
    run = Run()
    _OBS = [] if observe else None
    _table_cache.clear()

    async def main():
        global _CTL  # pylint:disable=global-statement
        _CTL = Controller(chooser, mode=mode, yp=yp, settle=settle)  # (asyncio.Event wants the running loop on 3.9)
        task = asyncio.ensure_future(make_coro())
        await _CTL.drive(task)
        return task

    try:
        task = _run_loop(main())
        ctl = _CTL
        _finish(task, run, post)
        run.decisions = [c for c, _ in chooser.trace]
        run.branching = [n for _, n in chooser.trace]
        run.log, run.completion = ctl.log, ctl.completion
        run.obs = _OBS or []
    finally:
        _CTL, _OBS = None, None
    return run


def all_schedules(make_coro: Callable[[], Any], limit: int, **kw: Any) -> Iterator[Run]:
    """depth first enumeration of ALL decision vectors (complete iff the iterator ends before `limit` runs; the caller
    sizes the space first with `space_size`)."""
    prefix: List[int] = []
    for _ in range(limit):
        run = run_scheduled(make_coro, decisions=prefix, **kw)
        yield run
        i = len(run.decisions) - 1
        while i >= 0 and run.decisions[i] + 1 >= run.branching[i]:
            i -= 1
        if i < 0:
            return
        prefix = run.decisions[:i] + [run.decisions[i] + 1]


def space_size(run: Run) -> int:
    """product of the branching factors along one run (= size of the schedule space when the gate structure does not
    depend on the schedule; only an estimate otherwise, used to pick between exhaustive enumeration and sampling)."""
    size = 1
    for n in run.branching:
        size *= n
    return size


def explore(make_coro: Callable[[], Any], limit: int, rng: random.Random, **kw: Any) -> Tuple[List[Run], bool]:
    """all schedules if there are at most `limit`, otherwise identity + reverse-ish + seeded samples (`limit` runs).
    Returns (runs, exhaustive)."""
    first = run_scheduled(make_coro, **kw)
    if space_size(first) <= limit:
        runs = list(all_schedules(make_coro, limit + 1, **kw))
        if len(runs) <= limit:
            return runs, True
        # the decision tree is not uniform (steps mode: the number of blocked gates depends on earlier choices) and
        # larger than estimated along the default path: sample instead
    runs = [first]
    seen = {tuple(first.decisions)}
    attempts = 0
    while len(runs) < limit and attempts < 4 * limit:
        attempts += 1
        run = run_scheduled(make_coro, rng=rng, **kw)
        if tuple(run.decisions) not in seen:
            seen.add(tuple(run.decisions))
            runs.append(run)
    return runs, False


# ------------------------------------------------------------------------------------------------ process pool
def _init_worker() -> None:
    import logging  # pylint:disable=import-outside-toplevel
    logging.disable(logging.CRITICAL)


def pmap(fn: Callable[[Any], Any], items: Sequence[Any], nproc: int = common.NPROC) -> List[Any]:
    """order preserving parallel map over a fork pool, one item per task (`bounded.common.pmap` runs fewer than 64
    items serially, but one item here is a whole batch of schedules).  `fn` must be module level and must call
    `install()` itself."""
    import multiprocessing as mp  # pylint:disable=import-outside-toplevel
    items = list(items)
    if len(items) <= 1 or nproc <= 1:
        return [fn(x) for x in items]
    with mp.get_context("fork").Pool(min(nproc, len(items)), initializer=_init_worker) as pool:
        return pool.map(fn, items, chunksize=1)
