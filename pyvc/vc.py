"""Verification-condition generation and discharge for one function under contract (DESIGN §2.1 steps 2-5)."""
from __future__ import annotations

import ast
import asyncio
import os
import subprocess
import tempfile
import importlib
import time
import traceback
from dataclasses import dataclass, field
from pathlib import Path
from typing import Any, Dict, List, Optional, Tuple

import z3

from pyvc import lists as L
from pyvc.contracts import REGISTRY, Contract, to_native
from pyvc.engine import Engine
from pyvc.frontend import Repo
from pyvc.state import Frame, State
from pyvc.values import Exc, FuncV, Ref, Sc, SV, Unsupported

VERIF = Path(__file__).resolve().parent.parent


@dataclass
class Obl:
    name: str
    status: str = "discharged"       # discharged | violated | undecided
    paths: int = 0
    seconds: float = 0.0
    detail: str = ""
    model: Any = None                # (State, z3 model) of the first counter-example
    witness: Any = None              # native arguments
    replayed: bool = False
    replay_msg: str = ""
    solver_output: str = ""


def build_engine(timeout_ms: int = 10000) -> Engine:
    import pyvc.assumed as assumed
    repo = Repo()
    for pkg in ("specs", "contracts"):
        root = VERIF / pkg
        for path in sorted(root.rglob("*.py")):
            rel = path.relative_to(VERIF).with_suffix("")
            parts = list(rel.parts)
            if parts[-1] == "__init__":
                parts = parts[:-1]
            repo._load_module(".".join(parts), path)
    import maus.models.edifact_components as _mc
    repo.load_external("maus.models.edifact_components", Path(_mc.__file__))
    ex = Engine(repo, contracts=REGISTRY, library=dict(assumed.LIBRARY), timeout_ms=timeout_ms)
    ex.attr_library = dict(assumed.ATTR_LIBRARY)
    ex.class_fields_hook = dict(assumed.CLASS_HOOKS)
    ex.modular_calls = set()
    assumed.install(ex)
    return ex


class Verifier:
    def __init__(self, timeout_ms: int = 10000) -> None:
        self.ex = build_engine(timeout_ms)
        self.timeout_ms = timeout_ms
        self.solver_time = 0.0
        self.stats = {"paths": 0, "queries": 0, "second_backend_queries": 0, "cvc5_unsat": 0, "cvc5_unknown": 0,
                      "cvc5_sat": 0, "z3old_unsat": 0, "z3old_unknown": 0, "z3old_sat": 0}
        self.second_backend = os.environ.get("VERIF_SECOND_BACKEND", "") == "1"
        self.second_backend_limit = int(os.environ.get("VERIF_SECOND_BACKEND_LIMIT", "150"))
        self.disagreements: List[str] = []
        self.crosscheck = os.environ.get("VERIF_CROSSCHECK", "") == "1"
        self.cross = {"paths_replayed": 0, "agree": 0, "skipped": 0, "disagreements": []}

    # ------------------------------------------------------------------------------------------------ solver
    def prove(self, pc: List[z3.BoolRef], goal: z3.BoolRef) -> Tuple[str, Any, str]:
        """unsat of pc ∧ ¬goal  ->  ('unsat', None) ; ('sat', model) ; ('unknown', reason)"""
        t0 = time.time()
        g = z3.simplify(goal)
        if z3.is_true(g):
            return "unsat", None, ""
        s = z3.Solver()
        s.set("timeout", self.timeout_ms)
        for a in self.ex.all_axioms():
            s.add(a)
        s.add(*pc)
        s.add(z3.Not(goal))
        r = s.check()
        self.stats["queries"] += 1
        dt = time.time() - t0
        self.solver_time += dt
        self.stats["max_query_ms"] = max(self.stats.get("max_query_ms", 0), int(dt * 1000))
        if r == z3.unsat:
            if self.second_backend and self.stats["second_backend_queries"] < self.second_backend_limit:
                self._second_opinion(s)
            return "unsat", None, ""
        if r == z3.sat:
            model = s.model()
            # prefer a counter-model with short sequences (replayable)
            lens = [n for n in self.ex.len_symbols if z3.is_const(n)]
            if lens:
                for k in (1, 2, 3, 5):
                    s.push()
                    s.add(*[n <= k for n in lens])
                    if s.check() == z3.sat:
                        model = s.model()
                        s.pop()
                        break
                    s.pop()
            return "sat", model, ""
        return "unknown", None, s.reason_unknown()

    def _second_opinion(self, solver: z3.Solver) -> None:
        """thorough tier: the same query as SMT-LIB2 text to cvc5 1.0.3 and to the Debian z3 4.8.12; an answer `sat`
        where the API said `unsat` is a disagreement between back ends (reported as a checker problem)"""
        self.stats["second_backend_queries"] += 1
        text = "(set-logic ALL)\n" + solver.sexpr() + "\n(check-sat)\n"
        with tempfile.NamedTemporaryFile("w", suffix=".smt2", delete=False, dir=os.environ.get("VERIF_TMP") or None) as f:
            f.write(text)
            name = f.name
        try:
            for tag, cmd in (("cvc5", ["/usr/bin/cvc5", "--lang", "smt2", "--strings-exp", "--tlimit=4000", name]),
                             ("z3old", ["/usr/bin/z3", "-T:4", name])):
                try:
                    r = subprocess.run(cmd, capture_output=True, text=True, timeout=12)
                    out = (r.stdout.strip().splitlines() or ["unknown"])[0]
                except (subprocess.TimeoutExpired, OSError):
                    out = "unknown"
                if out == "unsat":
                    self.stats[tag + "_unsat"] += 1
                elif out == "sat":
                    self.stats[tag + "_sat"] += 1
                    self.disagreements.append(f"{tag} answers sat where the z3 API answered unsat")
                else:
                    self.stats[tag + "_unknown"] += 1
        finally:
            os.unlink(name)

    # ------------------------------------------------------------------------------------------------ verify
    def verify(self, target: str, only: Optional[List[str]] = None) -> List[Obl]:
        c = REGISTRY[target]
        ex = self.ex
        key = target
        target = c.target
        fname = key.split(":")[-1]
        obls: Dict[str, Obl] = {}

        def ob(name: str) -> Obl:
            full = f"{fname}/{name}"
            if full not in obls:
                obls[full] = Obl(full)
            return obls[full]

        t_start = time.time()
        try:
            mod, node, ci = ex.repo.function(target)
        except Exception as e:  # contract target not found: undecided, never a violation
            o = ob("target-found")
            o.status, o.detail = "undecided", str(e)
            return list(obls.values())
        cases = c.cases or [c.params]
        clause_names = list(c.posts) + [f"raises-{k}" for k, v in c.raises.items() if v] + ["raises-only-declared"]
        self._only = set(only) if only is not None else None
        for n in clause_names:
            if self._only is None or n in self._only:
                ob(n)
        feasible_paths = 0
        try:
            for ci_idx, params in enumerate(cases):
                ex.new_target()
                ex.side_obligations = []
                self._case_posts = c.case_posts.get(ci_idx)
                self._case_raises = getattr(c.cls, "case_raises", {}).get(ci_idx)
                st = State()
                fid = ex.new_oid()
                st.frames[fid] = Frame(fid, mod, None, f"{target}:<harness>")
                st.stack.append(fid)
                values = {n: spec.make(ex, st, n) for n, spec in params.items()}
                if c.setup:
                    c.setup(ex, st, values)
                pre_states: List[State] = [st]
                if c.has_pre:
                    pre_states = []
                    for s, v in c.call_clause(ex, st, "pre", values):
                        if isinstance(v, Exc):
                            raise Unsupported(f"pre raised {v.cls}")
                        s.assume(ex.truth(s, v))
                        if ex.feasible(s.pc):
                            pre_states.append(s)
                for s0 in pre_states:
                    ex.no_contract_for = None  # only the outermost call is executed; recursion uses the contract
                    ex.verifying = c          # loop invariants of the side-car apply to the loops of this function
                    fv = FuncV(node, mod, target, cls=ci.name if ci else None)
                    kwargs = dict(values)
                    if "self" in kwargs:
                        fv = fv.bind(kwargs.pop("self"))
                    s0.ghost["entry_pc_len"] = len(s0.pc)
                    outcomes = ex.inline_call(fv, [], kwargs, s0)
                    ex.no_contract_for = None
                    for s, res in outcomes:
                        if not ex.feasible(s.pc):
                            continue
                        feasible_paths += 1
                        self.check_outcome(c, s, res, values, ob)
                        if self.crosscheck and c.runtime_checkable and self.cross["paths_replayed"] < 900:
                            self.cross_check_path(c, s, res, values)
                # side obligations collected during execution (call-site preconditions, type assumptions)
                for name, pc, cond, why in ex.side_obligations:
                    o = ob(name)
                    o.paths += 1
                    r, m, reason = self.prove(pc, cond)
                    if r == "sat" and name.startswith("loop-invariant/"):
                        # the declared invariant is not inductive for this code: nothing is refuted (the bookkeeping
                        # may have been rewritten), but everything proved UNDER the invariant is undecided with it
                        if o.status == "discharged":
                            o.status, o.detail = "undecided", f"{why}: not established (counter-model of the step)"
                            o.solver_output = str(m)[:2000]
                        for o2 in obls.values():
                            if o2.status == "discharged" and o2 is not o and not o2.name.split("/", 1)[-1].startswith("loop-invariant/"):
                                o2.status = "undecided"
                                o2.detail = f"proved only under the loop invariant {name.split('/')[1]}, which could not be established"
                    elif r == "sat" and o.status == "discharged":
                        o.status, o.detail = "violated", why
                        o.model = (None, m)
                        o.solver_output = str(m)[:2000]
                    elif r == "unknown" and o.status == "discharged":
                        o.status, o.detail = "undecided", reason
        except Unsupported as u:
            ex.no_contract_for = None
            for o in obls.values():
                if o.status == "discharged":
                    o.status, o.detail = "undecided", f"unsupported: {u}"
        except L.ShapeMismatch as sm:
            ex.no_contract_for = None
            for o in obls.values():
                if o.status == "discharged":
                    o.status, o.detail = "undecided", f"list shapes could not be aligned: {str(sm)[:300]}"
        except (KeyboardInterrupt, SystemExit):
            raise
        except Exception as e:  # noqa
            # the encoder or a library model met a situation it was not written for (typically: changed code hands a
            # value of an unexpected kind to a modelled library call).  Nothing is decided for this function; the
            # check goes on (an encoder error on the unchanged tree shows up as undecided obligations just the same).
            import traceback
            tb = traceback.extract_tb(e.__traceback__)
            where = f"{tb[-1].filename.split('/')[-1]}:{tb[-1].lineno}" if tb else "?"
            ex.no_contract_for = None
            for o in obls.values():
                if o.status == "discharged":
                    o.status = "undecided"
                    o.detail = f"encoder error ({type(e).__name__}: {str(e)[:160]} at {where}): nothing decided"
        if feasible_paths == 0 and all(o.status == "discharged" for o in obls.values()):
            o = ob("reachable")
            o.status, o.detail = "undecided", "no feasible path: vacuous contract (checker problem)"
        for o in obls.values():
            if o.status == "discharged" and o.paths == 0 and "/post_" in o.name:
                # vacuity guard: a postcondition that no normal path ever reached proves nothing
                o.status, o.detail = "undecided", "vacuous: no normal path reaches this postcondition (checker problem)"
        dt = time.time() - t_start
        for o in obls.values():
            o.seconds = round(dt / max(1, len(obls)), 4)
        self.stats["paths"] += feasible_paths
        return list(obls.values())

    def cross_check_path(self, c: Contract, s: State, res, values: Dict[str, Any]) -> None:
        """translation validation of the encoder on one symbolic path: a model of the path condition is turned into
        real arguments, the real function is run under CPython, and the outcome (returns / raises which class, scalar
        fields of the result) must be the one the symbolic summary predicts for that path"""
        for gk, gv in s.ghost.items():
            if isinstance(gk, str) and gk.startswith("raised_") and isinstance(gv, SV) and z3.is_true(z3.simplify(Sc.bv(gv.t))):
                self.cross["skipped"] += 1  # the path took a nondeterministic 'may raise' branch of a library model
                return
        sol = z3.Solver()
        sol.set("timeout", 3000)
        for a in self.ex.all_axioms():
            sol.add(a)
        sol.add(*s.pc)
        if sol.check() != z3.sat:
            self.cross["skipped"] += 1
            return
        terms = self._scalar_terms(s, values)
        for round_ in range(2):  # two mutually different models per path
            m = sol.model()
            self._cross_one(c, s, res, values, m)
            if not terms:
                break
            sol.add(z3.Or(*[t != m.eval(t, model_completion=True) for t in terms]))
            if sol.check() != z3.sat:
                break

    def _native_to_sc(self, v):
        from pyvc.values import NONE, mk_b, mk_e, mk_i
        import enum
        if v is None:
            return NONE
        if isinstance(v, bool):
            return mk_b(v)
        if isinstance(v, enum.Enum):
            cls = type(v).__name__
            try:
                names = [n for n, _ in self.ex.repo.enum_members(cls)]
                return mk_e(self.ex.enum_id(cls), names.index(v.name))
            except Exception:  # noqa
                return None
        if isinstance(v, int):
            return mk_i(v)
        return None

    def _scalar_terms(self, s: State, values: Dict[str, Any]) -> List[Any]:
        out: List[Any] = []

        def walk(v, depth=0):
            if isinstance(v, SV):
                if not z3.is_app(v.t) or v.t.num_args() > 0 or z3.is_const(v.t):
                    out.append(v.t)
            elif isinstance(v, Ref) and depth < 3:
                o = s.heap.get(v.oid)
                if hasattr(o, "fields"):
                    if getattr(o, "kind", None) is not None:
                        out.append(o.kind)
                    for x in o.fields.values():
                        walk(x, depth + 1)
        for v in values.values():
            walk(v)
        return [t for t in out if not z3.is_string(t)][:12]

    def _cross_one(self, c: Contract, s: State, res, values: Dict[str, Any], m) -> None:
        from pyvc.replay import run_native
        from pyvc.contracts import sc_to_native
        try:
            args = c.concretize(self.ex, s, m, values) if c.concretize else \
                {k: to_native(self.ex, s, m, v) for k, v in values.items()}
        except Exception:  # noqa
            args = None
        from checks.common import _faithful
        if args is None or not _faithful(args, c):
            self.cross["skipped"] += 1
            return
        kind, val = run_native(c, args)
        self.cross["paths_replayed"] += 1
        predicted = f"raise:{res.cls}" if isinstance(res, Exc) else "return"
        actual = f"raise:{type(val).__name__}" if kind == "raise" else "return"
        ok = predicted == actual
        detail = ""
        if ok and kind == "return":
            # the real result must be one of the behaviours the summary allows for these arguments (a summary that
            # went through a modular callee is an over-approximation: its free symbols may take the real values)
            try:
                eqs = []
                if isinstance(res, SV) and res.ty != "str":
                    t = self._native_to_sc(val)
                    if t is not None:
                        eqs.append(res.t == t)
                elif isinstance(res, Ref) and hasattr(s.heap.get(res.oid), "fields"):
                    for fname, fv in s.heap[res.oid].fields.items():
                        if isinstance(fv, SV) and hasattr(val, fname):
                            got = getattr(val, fname)
                            import enum as _enum
                            if isinstance(got, str) and not isinstance(got, _enum.Enum):
                                eqs.append(Sc.is_s(fv.t))
                                continue
                            t = self._native_to_sc(got)
                            if t is not None:
                                eqs.append(fv.t == t)
                if eqs:
                    chk = z3.Solver()
                    chk.set("timeout", 3000)
                    for a_ in self.ex.all_axioms():
                        chk.add(a_)
                    chk.add(*s.pc)
                    for t in self._scalar_terms(s, values):
                        chk.add(t == m.eval(t, model_completion=True))
                    chk.add(*eqs)
                    if chk.check() == z3.unsat:
                        ok, detail = False, f"the real result {val!r} is not among the behaviours of the summary"
            except Exception as e:  # noqa
                detail = f"comparison failed: {e}"
        if ok:
            self.cross["agree"] += 1
        else:
            self.cross["disagreements"].append(f"{c.target}: summary predicts {predicted}, CPython gives {actual} "
                                               f"{detail} on {str(args)[:200]}")

    def check_outcome(self, c: Contract, s: State, res, values: Dict[str, Any], ob) -> None:
        ex = self.ex
        if isinstance(res, Exc):
            allowed = None
            mro = ex.repo.mro(res.cls)
            for k in c.raises:
                if k in mro:
                    allowed = k
                    break
            if any(k in mro for k in c.never_raises):
                allowed = None  # explicitly forbidden (e.g. lark's VisitError must never escape)
            if self._only is not None and "raises-only-declared" not in self._only and allowed is None:
                return
            if allowed is None:
                o = ob("raises-only-declared")
                o.paths += 1
                if o.status != "violated":
                    r, m, reason = self.prove(s.pc, z3.BoolVal(False))
                    if r == "sat":
                        o.status, o.detail = "violated", f"raises undeclared {res.cls}"
                        o.model = (s, m)
                        o._values = values  # type: ignore[attr-defined]
                        o.solver_output = f"feasible path raising {res.cls}; model: {str(m)[:1500]}"
                    elif r == "unknown":
                        o.status, o.detail = "undecided", reason
                return
            if self._only is None or "raises-only-declared" in self._only:
                ob("raises-only-declared").paths += 1
            cond_fn = c.raises[allowed]
            if cond_fn and getattr(self, "_case_raises", None) is not None and allowed not in self._case_raises:
                cond_fn = None  # this case only checks that the exception is a declared one
            if cond_fn and (self._only is None or f"raises-{allowed}" in self._only):
                self.check_clause(c, s, cond_fn, values, None, ob(f"raises-{allowed}"), negate=False,
                                  what=f"raises {res.cls} although the contract's condition for it is false")
            return
        # normal outcome: every `raises X iff cond` clause must have a false cond; every post must hold
        for k, cond_fn in c.raises.items():
            if getattr(self, "_case_raises", None) is not None and k not in self._case_raises:
                continue
            if cond_fn and not cond_fn.startswith(("may_", "onlyif_")) and (self._only is None or f"raises-{k}" in self._only):
                self.check_clause(c, s, cond_fn, values, res, ob(f"raises-{k}"), negate=True,
                                  what=f"returns normally although the contract demands {k}")
        for p in c.posts:
            if getattr(self, "_case_posts", None) is not None and p not in self._case_posts:
                continue
            if self._only is None or p in self._only:
                self.check_clause(c, s, p, values, res, ob(p), negate=False, what=f"postcondition {p} fails")

    def check_clause(self, c: Contract, s: State, clause: str, values: Dict[str, Any], result, o: Obl, negate: bool,
                     what: str) -> None:
        ex = self.ex
        env = dict(values)
        env["result"] = result
        for gk, gv in s.ghost.items():
            if isinstance(gk, str) and not isinstance(gv, (int, list, dict)):
                env["ghost_" + gk] = gv
        try:
            goal = c.clause_formula(ex, s, clause, env)
        except (Unsupported, L.ShapeMismatch) as u:
            if o.status == "discharged":
                o.status, o.detail = "undecided", f"{type(u).__name__}: {str(u)[:300]}"
            return
        o.paths += 1
        if negate:
            goal = z3.Not(goal)
        r, m, reason = self.prove(s.pc, goal)
        if r == "sat":
            if o.status != "violated":
                o.status, o.detail = "violated", what
                o.model = (s, m)
                o.solver_output = str(m)[:2000]
                o._values = values  # type: ignore[attr-defined]
                o._query = (list(s.pc), goal)  # type: ignore[attr-defined]
        elif r == "unknown" and o.status == "discharged":
            o.status, o.detail = "undecided", f"solver: {reason}"

    # ------------------------------------------------------------------------------------------------ replay
    def more_models(self, o: Obl, limit: int = 8):
        """further counter-models of a violated obligation that differ in at least one scalar input"""
        q = getattr(o, "_query", None)
        values = getattr(o, "_values", None)
        if q is None or values is None or o.model is None or o.model[0] is None:
            return
        s, m = o.model
        pc, goal = q
        sol = z3.Solver()
        sol.set("timeout", 4000)
        for a in self.ex.all_axioms():
            sol.add(a)
        sol.add(*pc)
        sol.add(z3.Not(goal))
        terms = [t for t in self._scalar_terms(s, values)
                 if not (z3.is_app(t) and t.decl().name() == "s")]      # strings are cheap to vary and change nothing
        terms += self._ghost_apps(list(pc) + [goal])                     # values of ghost functions that matter
        if not terms:
            return
        lens = [n for n in self.ex.len_symbols if z3.is_const(n)]
        if lens:
            sol.push()
            sol.add(*[n <= 2 for n in lens])
            if sol.check() != z3.sat:
                sol.pop()
        for _ in range(limit):
            sol.add(z3.Or(*[t != m.eval(t, model_completion=True) for t in terms]))
            if sol.check() != z3.sat:
                return
            m = sol.model()
            yield m

    def _ghost_apps(self, formulas, limit: int = 10) -> List[Any]:
        """ground applications of ghost functions (g_ev_*) occurring in the formulas"""
        seen, out = set(), []

        def walk(t):
            if t.get_id() in seen or len(out) >= limit:
                return
            seen.add(t.get_id())
            if z3.is_quantifier(t):
                return  # applications under a binder are not ground
            if z3.is_app(t):
                nm = t.decl().name()
                if nm in ("g_ev_invalid", "g_ev_indicator", "g_ev_fulfilled") and all(not z3.is_var(a) for a in t.children()):
                    out.append(t)
                for a in t.children():
                    walk(a)
        for f in formulas:
            walk(f)
        return out

    def concretize(self, c: Contract, o: Obl) -> Optional[Dict[str, Any]]:
        if o.model is None or o.model[0] is None:
            return None
        s, m = o.model
        values = getattr(o, "_values", None)
        if values is None:
            return None
        try:
            if c.concretize:
                return c.concretize(self.ex, s, m, values)
            return {k: to_native(self.ex, s, m, v) for k, v in values.items()}
        except Exception as e:  # noqa
            o.replay_msg = f"could not build native arguments: {type(e).__name__}: {e}"
            return None


def _verify_lemma(self: Verifier, key: str) -> Obl:
    from pyvc.contracts import LEMMAS
    lm = LEMMAS[key]
    ex = self.ex
    o = Obl(f"lemma/{lm.name}")
    t0 = time.time()
    try:
        mod = ex.repo.modules[lm.module]
        node = mod.functions[lm.name]
        st = State()
        fid = ex.new_oid()
        st.frames[fid] = Frame(fid, mod, None, f"{key}:<harness>")
        st.stack.append(fid)
        values = {n: spec.make(ex, st, n) for n, spec in lm.params.items()}
        fv = FuncV(node, mod, key)
        ex.new_target()
        ex.side_obligations = []
        for s, v in ex.inline_call(fv, [], values, st):
            o.paths += 1
            if isinstance(v, Exc):
                if ex.feasible(s.pc) and o.status == "discharged":
                    o.status, o.detail = "violated", f"lemma body raises {v.cls}"
                    r, m, _ = self.prove(s.pc, z3.BoolVal(False))
                    o.model, o._values = (s, m), values
                continue
            r, m, reason = self.prove(s.pc, ex.truth(s, v))
            if r == "sat" and o.status != "violated":
                o.status, o.detail = "violated", "lemma is false for the counter-model"
                o.model, o._values = (s, m), values
                o.solver_output = str(m)[:1500]
            elif r == "unknown" and o.status == "discharged":
                o.status, o.detail = "undecided", reason
    except (Unsupported, L.ShapeMismatch) as u:
        o.status, o.detail = "undecided", f"{type(u).__name__}: {str(u)[:300]}"
    o.seconds = round(time.time() - t0, 4)
    if lm.expect_sat:
        # canary: must be refuted, otherwise the checker is vacuous
        if o.status == "violated":
            o.status, o.detail, o.model = "discharged", "canary refuted as expected", None
        else:
            o.status, o.detail = "undecided", "CANARY NOT REFUTED: checker is vacuous"
    return o


Verifier.verify_lemma = _verify_lemma
