"""subprocess entry: install contracts over the real functions, run the repository's test suite, print JSON stats"""
import json
import logging
import os
import sys


def main() -> int:
    pass  # logging stays enabled: some repository tests assert on log records
    targets = json.loads(sys.argv[1])
    import ahbicht.content_evaluation  # noqa: F401
    from checks.common import load_sidecars
    from vlib import runtime
    load_sidecars()
    n = runtime.install(targets)
    repo = os.environ.get("AHBICHT_REPO", "/repo")
    root = repo if os.path.isdir(os.path.join(repo, "unittests")) else "/repo"
    import io
    import contextlib
    buf = io.StringIO()
    with contextlib.redirect_stdout(buf), contextlib.redirect_stderr(buf):
        rc, _ = runtime.run_suite(root)
    tail = buf.getvalue().strip().splitlines()[-1:] if buf.getvalue().strip() else [""]
    print("RUNTIME-JSON " + json.dumps({"installed": n, "pytest_exit": rc, "pytest_tail": tail[0][:200],
                                        "stats": runtime.STATS, "fired": runtime.FIRED[:20]}))
    return 0


if __name__ == "__main__":
    sys.exit(main())
