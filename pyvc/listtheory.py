"""Theory of filtered sequences, used when real code keeps an index into `[x for x in xs if c(x)]` (or into
`gather(*that)`) by counting: for a sequence of symbolic length n and a predicate c on indices

    cnt(k)  = number of indices j < k with c(j)                      (defined by recursion: F0, F1)
    sel(m)  = index in the source of the m-th element of the filtered sequence

The filtered sequence has length cnt(n) and its m-th element is the source element at index sel(m).  Besides the
defining equations the engine uses three facts about cnt / sel that need induction, which an SMT solver does not do
unprompted.  They are proved HERE, once per run, for an uninterpreted predicate c and symbolic n, by explicit induction
(base and step are separate solver queries; the induction principle over the naturals is the only meta-level step):

    MONO    0 <= a <= b <= n                 ->  cnt(a) <= cnt(b)
    STRICT  0 <= a <  b <= n  and  c(a)      ->  cnt(a) <  cnt(b)          (from MONO and F1, no induction)
    SEL     0 <= m < cnt(k), 0 <= k <= n     ->  exists i < k.  c(i) and cnt(i) = m
                                                 (sel is the Skolem function of SEL at k = n)
"""
from __future__ import annotations

from typing import Dict, List, Tuple

import z3

I = z3.IntSort()


def _defs(cnt, c, n):
    i = z3.Int("i!lt")
    f0 = cnt(0) == 0
    f1 = z3.ForAll([i], z3.Implies(z3.And(i >= 0, i < n), cnt(i + 1) == cnt(i) + z3.If(c(i), 1, 0)))
    return f0, f1


def axioms(cnt, sel, c, n) -> List[z3.BoolRef]:
    """what the engine may assume about cnt / sel of one filtered sequence (`c`: Python callable index -> Bool term)"""
    a, b, m = z3.Int("a!lt"), z3.Int("b!lt"), z3.Int("m!lt")
    f0, f1 = _defs(cnt, c, n)
    mono = z3.ForAll([a, b], z3.Implies(z3.And(0 <= a, a <= b, b <= n), cnt(a) <= cnt(b)),
                     patterns=[z3.MultiPattern(cnt(a), cnt(b))])
    strict = z3.ForAll([a, b], z3.Implies(z3.And(0 <= a, a < b, b <= n, c(a)), cnt(a) < cnt(b)),
                       patterns=[z3.MultiPattern(cnt(a), cnt(b))])
    selax = z3.ForAll([m], z3.Implies(z3.And(0 <= m, m < cnt(n)),
                                      z3.And(0 <= sel(m), sel(m) < n, c(sel(m)), cnt(sel(m)) == m)),
                      patterns=[sel(m)])
    return [f0, f1, mono, strict, selax, cnt(n) >= 0, cnt(n) <= n]


def lemma_obligations() -> List[Tuple[str, z3.BoolRef, List[z3.BoolRef]]]:
    """[(name, goal, hypotheses)]: each is valid iff hypotheses => goal; proved for an uninterpreted predicate"""
    cnt = z3.Function("cnt!lt", I, I)
    cp = z3.Function("c!lt", I, z3.BoolSort())
    n = z3.Int("n!lt")
    a, b, k, m, i = z3.Int("a!lt"), z3.Int("b!lt"), z3.Int("k!lt"), z3.Int("m!lt"), z3.Int("j!lt")
    f0, f1 = _defs(cnt, cp, n)

    def P(bb):  # MONO up to bb
        return z3.ForAll([a], z3.Implies(z3.And(0 <= a, a <= bb), cnt(a) <= cnt(bb)))

    def Q(kk):  # SEL up to kk
        return z3.ForAll([m], z3.Implies(z3.And(0 <= m, m < cnt(kk)),
                                         z3.Exists([i], z3.And(0 <= i, i < kk, cp(i), cnt(i) == m))))

    w = z3.Function("w!lt", I, I)
    qk_skolem = z3.ForAll([a], z3.Implies(z3.And(0 <= a, a < cnt(k)), z3.And(0 <= w(a), w(a) < k, cp(w(a)), cnt(w(a)) == a)))
    wit = z3.If(m < cnt(k), w(m), k)

    def B(kk):  # cnt(kk) <= kk and >= 0
        return z3.And(cnt(kk) >= 0, cnt(kk) <= kk)
    mono = z3.ForAll([a, b], z3.Implies(z3.And(0 <= a, a <= b, b <= n), cnt(a) <= cnt(b)))
    strict = z3.ForAll([a, b], z3.Implies(z3.And(0 <= a, a < b, b <= n, cp(a)), cnt(a) < cnt(b)))
    obl = [
        ("filter/MONO/base", P(z3.IntVal(0)), [f0, f1]),
        ("filter/MONO/step", z3.Implies(z3.And(0 <= b, b < n, P(b)), P(b + 1)), [f0, f1]),
        # MONO itself is "forall b in [0, n]. P(b)", i.e. the conclusion of the induction; STRICT follows without induction
        ("filter/STRICT", strict, [f0, f1, mono]),
        ("filter/SEL/base", Q(z3.IntVal(0)), [f0, f1]),
        # step of SEL with the induction hypothesis in Skolem form (w = witness function of Q(k)) and the explicit
        # witness  m < cnt(k) ? w(m) : k  for Q(k+1)
        ("filter/SEL/step", z3.Implies(z3.And(0 <= k, k < n, 0 <= m, m < cnt(k + 1)),
                                       z3.And(0 <= wit, wit < k + 1, cp(wit), cnt(wit) == m)), [f0, f1, qk_skolem]),
        ("filter/BOUND/base", B(z3.IntVal(0)), [f0, f1]),
        ("filter/BOUND/step", z3.Implies(z3.And(0 <= k, k < n, B(k)), B(k + 1)), [f0, f1]),
    ]
    return obl


def prove_lemmas(timeout_ms: int = 20000) -> List[Tuple[str, str, float]]:
    """[(name, 'discharged' | 'undecided' | 'refuted', seconds)]"""
    import time
    out = []
    for name, goal, hyps in lemma_obligations():
        s = z3.Solver()
        s.set("timeout", timeout_ms)
        s.add(*hyps)
        s.add(z3.Not(goal))
        t = time.time()
        r = s.check()
        out.append((name, "discharged" if r == z3.unsat else "refuted" if r == z3.sat else "undecided",
                    round(time.time() - t, 3)))
    return out


def canary() -> bool:
    """a deliberately false variant (STRICT without c(a)) must NOT be provable: guards against inconsistent definitions"""
    cnt = z3.Function("cnt!lt", I, I)
    cp = z3.Function("c!lt", I, z3.BoolSort())
    n = z3.Int("n!lt")
    a, b = z3.Int("a!lt"), z3.Int("b!lt")
    f0, f1 = _defs(cnt, cp, n)
    mono = z3.ForAll([a, b], z3.Implies(z3.And(0 <= a, a <= b, b <= n), cnt(a) <= cnt(b)))
    wrong = z3.ForAll([a, b], z3.Implies(z3.And(0 <= a, a < b, b <= n), cnt(a) < cnt(b)))
    s = z3.Solver()
    s.set("timeout", 10000)
    s.add(f0, f1, mono, z3.Not(wrong))
    return s.check() != z3.unsat


class FilterFunctions:
    """cnt / sel of the filtered sequences met during one symbolic execution, keyed by the (canonical) predicate"""

    def __init__(self, ex) -> None:
        self.ex = ex
        self.table: Dict[str, Tuple[z3.FuncDeclRef, z3.FuncDeclRef, object, object]] = {}
        self.canon = z3.Int("J!canon")

    def get(self, st, ivar, n, guard):
        from pyvc.values import Unsupported
        g = z3.simplify(z3.substitute(guard, (ivar, self.canon)))
        for outer in self.ex.index_ctx:
            if _mentions(g, outer) or _mentions(n, outer):
                raise Unsupported("filtered sequence nested in another symbolic sequence")
        key = g.sexpr() + "|" + n.sexpr()
        if key not in self.table:
            k = len(self.table)
            cnt = z3.Function(f"cnt!{k}", I, I)
            sel = z3.Function(f"sel!{k}", I, I)
            self.table[key] = (cnt, sel, g, n)
            canon = self.canon
            # a conservative extension (cnt / sel are new symbols; for n >= 0 such functions exist by MONO/STRICT/SEL):
            # global, so that forks and clause evaluations see it as well
            for ax in axioms(cnt, sel, lambda t: z3.substitute(g, (canon, t)), n):
                self.ex.local_axioms.append(z3.Implies(n >= 0, ax))
        cnt, sel, g, n = self.table[key]
        return cnt, sel


def _mentions(term, var) -> bool:
    seen = set()
    stack = [term]
    while stack:
        t = stack.pop()
        if t.get_id() in seen:
            continue
        seen.add(t.get_id())
        if z3.is_app(t):
            if t.eq(var) or (z3.is_app(var) and var.num_args() == 0 and t.num_args() == 0 and t.decl().eq(var.decl())):
                return True
            stack.extend(t.children())
        elif z3.is_quantifier(t):
            stack.append(t.body())
    return False
