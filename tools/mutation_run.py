"""Systematic mutation run (developer tool, not a registered check): small syntactic mutants of the library's decision
code are generated from the AST, those that the repository's own test suite does NOT notice ("survivors") are given to
the checks of the properties the mutated file belongs to.  Output: one JSON line per mutant and a summary; the
undetected survivors are the interesting ones (equivalent mutants, behaviour no property constrains, or a gap).
usage: mutation_run.py [--n 120] [--seed 1] [--files a.py,b.py] [--out /verif/mutation/run1.jsonl]"""
import argparse
import ast
import json
import os
import random
import shutil
import subprocess
import sys
import tempfile
import time

VERIF = os.path.dirname(os.path.dirname(os.path.abspath(__file__)))
SRC = "/repo/src/ahbicht"
FILES = {
    "models/condition_nodes.py": ["C03", "C04"],
    "expressions/requirement_constraint_expression_evaluation.py": ["C04", "C05", "C06", "C07"],
    "expressions/expression_builder.py": ["C07", "C08", "C04"],
    "expressions/format_constraint_expression_evaluation.py": ["C08", "C12"],
    "expressions/ahb_expression_evaluation.py": ["C09", "C16", "C06"],
    "expressions/base_transformer.py": ["C04", "C08"],
    "expressions/expression_resolver.py": ["C10", "C02"],
    "expressions/hints_provider.py": ["C12"],
    "condition_node_builder.py": ["C12", "C04"],
    "condition_node_distinction.py": ["C18"],
    "models/categorized_key_extract.py": ["C18", "C19", "C06"],
    "content_evaluation/__init__.py": ["C06", "C02", "C12"],
    "content_evaluation/fc_evaluators.py": ["C08", "C15", "C12", "C20"],
    "content_evaluation/rc_evaluators.py": ["C12"],
    "content_evaluation/german_strom_and_gas_tag.py": ["C20"],
    "utility_functions.py": ["C12", "C11", "C16"],
    "validation/validation.py": ["C13", "C14", "C16", "C17", "C15"],
    # second group (run with --files ...): parsers' Python code, package expansion, (de)serialisation, evaluator plumbing
    "expressions/condition_expression_parser.py": ["C01", "C02", "C18", "C11"],
    "expressions/ahb_expression_parser.py": ["C02", "C09", "C11"],
    "expressions/package_expansion.py": ["C10"],
    "json_serialization/tree_schema.py": ["C19"],
    "json_serialization/concise_tree_schema.py": ["C19"],
    "json_serialization/concise_condition_key_tree_schema.py": ["C19"],
    "models/evaluation_results.py": ["C19", "C09"],
    "models/content_evaluation_result.py": ["C19", "C12"],
    "models/enums.py": ["C19", "C09"],
    "models/mapping_results.py": ["C19", "C10"],
    "content_evaluation/evaluators.py": ["C12", "C08"],
    "content_evaluation/evaluator_factory.py": ["C12", "C06"],
    "content_evaluation/token_logic_provider.py": ["C12", "C10"],
    "content_evaluation/evaluationdatatypes.py": ["C12", "C15"],
}
CMP = {ast.Eq: "!=", ast.NotEq: "==", ast.Lt: "<=", ast.LtE: "<", ast.Gt: ">=", ast.GtE: ">", ast.Is: "is not",
       ast.IsNot: "is", ast.In: "not in", ast.NotIn: "in"}


def segment(src_lines, node):
    if node.lineno != node.end_lineno:
        return None
    return src_lines[node.lineno - 1][node.col_offset:node.end_col_offset]


def mutants_of(path):
    text = open(path).read()
    lines = text.split("\n")
    tree = ast.parse(text)
    out = []

    def repl(node, new, what):
        if node.lineno != node.end_lineno:
            return
        l = lines[node.lineno - 1]
        nl = l[:node.col_offset] + new + l[node.end_col_offset:]
        if nl != l:
            out.append({"line": node.lineno, "what": what, "old": l.strip(), "new": nl.strip(), "text_line": nl})
    in_func = set()
    for fn in ast.walk(tree):
        if isinstance(fn, (ast.FunctionDef, ast.AsyncFunctionDef)):
            for n in ast.walk(fn):
                in_func.add(id(n))
    for n in ast.walk(tree):
        if id(n) not in in_func:
            continue
        if isinstance(n, ast.Compare) and len(n.ops) == 1 and type(n.ops[0]) in CMP:
            left, right = segment(lines, n.left), segment(lines, n.comparators[0])
            if left is not None and right is not None and n.lineno == n.end_lineno:
                repl(n, f"{left} {CMP[type(n.ops[0])]} {right}", "comparison operator")
        elif isinstance(n, ast.BoolOp) and len(n.values) == 2:
            a, b = segment(lines, n.values[0]), segment(lines, n.values[1])
            if a is not None and b is not None:
                repl(n, f"{a} {'or' if isinstance(n.op, ast.And) else 'and'} {b}", "and <-> or")
                repl(n, a, "dropped second operand")
        elif isinstance(n, ast.UnaryOp) and isinstance(n.op, ast.Not):
            s = segment(lines, n.operand)
            if s is not None:
                repl(n, s, "dropped not")
        elif isinstance(n, ast.Constant) and isinstance(n.value, bool):
            repl(n, str(not n.value), "boolean constant")
        elif isinstance(n, ast.Constant) and isinstance(n.value, int) and not isinstance(n.value, bool):
            repl(n, str(n.value + 1), "integer constant + 1")
            if n.value > 0:
                repl(n, str(n.value - 1), "integer constant - 1")
        elif isinstance(n, ast.Attribute) and isinstance(n.value, ast.Attribute) is False and isinstance(n.value, ast.Name):
            swaps = {"FULFILLED": "UNFULFILLED", "UNFULFILLED": "UNKNOWN", "UNKNOWN": "NEUTRAL", "NEUTRAL": "FULFILLED",
                     "MUSS": "SOLL", "SOLL": "KANN", "KANN": "MUSS", "IS_REQUIRED": "IS_OPTIONAL",
                     "IS_OPTIONAL": "IS_FORBIDDEN", "IS_FORBIDDEN": "IS_REQUIRED",
                     "IS_REQUIRED_AND_EMPTY": "IS_OPTIONAL_AND_EMPTY", "IS_REQUIRED_AND_FILLED": "IS_REQUIRED_AND_EMPTY"}
            if n.attr in swaps and n.value.id in ("ConditionFulfilledValue", "ModalMark", "RequirementValidationValue"):
                repl(n, f"{n.value.id}.{swaps[n.attr]}", "enum member")
        elif isinstance(n, ast.If) and n.lineno == n.test.end_lineno:
            s = segment(lines, n.test)
            if s is not None:
                repl(n.test, f"not ({s})", "negated if condition")
        elif isinstance(n, ast.Call) and len(n.args) == 2 and not n.keywords and n.lineno == n.end_lineno:
            a, b = segment(lines, n.args[0]), segment(lines, n.args[1])
            f = segment(lines, n.func)
            if a is not None and b is not None and f is not None and a != b:
                repl(n, f"{f}({b}, {a})", "swapped arguments")
    for m in out:
        m["file"] = path
    return out


def main():
    ap = argparse.ArgumentParser()
    ap.add_argument("--n", type=int, default=120)
    ap.add_argument("--seed", type=int, default=1)
    ap.add_argument("--files", default="")
    ap.add_argument("--out", default=VERIF + "/mutation/run.jsonl")
    a = ap.parse_args()
    files = [f for f in FILES if not a.files or f in a.files.split(",")]
    allm = []
    for f in files:
        for m in mutants_of(f"{SRC}/{f}"):
            m["rel"] = f
            allm.append(m)
    random.Random(a.seed).shuffle(allm)
    chosen = allm[:a.n]
    os.makedirs(os.path.dirname(a.out), exist_ok=True)
    print(f"{len(allm)} candidate mutants, running {len(chosen)}", flush=True)
    stats = {"killed_by_tests": 0, "survivors": 0, "detected": 0, "undecided_only": 0, "silent": 0, "broken": 0}
    with open(a.out, "a") as log:
        for k, m in enumerate(chosen):
            d = tempfile.mkdtemp(prefix="mut_")
            try:
                shutil.copytree("/repo/src", d + "/src")
                shutil.copytree("/repo/unittests", d + "/unittests")
                p = f"{d}/src/ahbicht/{m['rel']}"
                ls = open(p).read().split("\n")
                ls[m["line"] - 1] = m["text_line"]
                open(p, "w").write("\n".join(ls))
                env = dict(os.environ, PYTHONPATH=d + "/src", AHBICHT_REPO=d, VERIF_EVIDENCE_DIR=d + "/evidence",
                           VERIF_SELFTEST="1")
                t = subprocess.run("/venv/bin/python -m pytest -q -x -p no:cacheprovider --timeout=300 unittests 2>&1 | tail -1",
                                   cwd=d, env=env, shell=True, capture_output=True, text=True)
                rec = {k2: m[k2] for k2 in ("rel", "line", "what", "old", "new")}
                if " passed" not in t.stdout or "failed" in t.stdout or "error" in t.stdout:
                    stats["killed_by_tests"] += 1
                    rec["tests"] = "killed"
                else:
                    stats["survivors"] += 1
                    rec["tests"] = "survived"
                    rec["checks"] = {}
                    for prop in FILES[m["rel"]]:
                        r = subprocess.run([VERIF + "/vcheck", prop, "--tier", "quick"], cwd=VERIF, env=env,
                                           capture_output=True, text=True)
                        und = [l[:200] for l in r.stdout.splitlines() if l.startswith("UNDECIDED")][:3]
                        vio = [l[:260] for l in r.stdout.splitlines() if l.startswith("  obligation=")][:2]
                        rec["checks"][prop] = {"exit": r.returncode, "undecided": und, "violations": vio}
                    exits = [c["exit"] for c in rec["checks"].values()]
                    if any(e == 1 for e in exits):
                        stats["detected"] += 1
                        rec["verdict"] = "detected"
                    elif any(e not in (0, 1) for e in exits):
                        stats["broken"] += 1
                        rec["verdict"] = "checker-problem"
                    elif any(c["undecided"] for c in rec["checks"].values()):
                        stats["undecided_only"] += 1
                        rec["verdict"] = "undecided-only"
                    else:
                        stats["silent"] += 1
                        rec["verdict"] = "silent"
                log.write(json.dumps(rec) + "\n")
                log.flush()
                print(k + 1, rec["rel"], rec["line"], rec["what"], rec["tests"], rec.get("verdict", ""), flush=True)
            finally:
                shutil.rmtree(d, ignore_errors=True)
                shutil.rmtree(f"{VERIF}/replays", ignore_errors=True)
    print("SUMMARY", json.dumps(stats))


if __name__ == "__main__":
    main()
