import sys, z3
from checks.common import load_sidecars, verifier
from pyvc.contracts import REGISTRY
from pyvc import lists as L
load_sidecars()
v=verifier()
orig=L.lt_equal
def dbg(a,b,*r):
    try: return orig(a,b,*r)
    except L.ShapeMismatch:
        print("LEFT ",a); print("RIGHT",b); raise
L.lt_equal=dbg
import pyvc.executor as E
tgt=[t for t in REGISTRY if t.endswith(sys.argv[1])][0]
for o in v.verify(tgt): print(o.name,o.status,o.detail[:200])
