"""String view for format-constraint expressions (DESIGN §2.8 'views', C07).

The five f-string skeletons of FormatConstraintExpressionBuilder are treated as constructors of an abstract
expression term; `str.strip()` and the single-key bracket-stripping regex keep the term.  The MEANING of a view is
encoded as a canonical, fully parenthesised z3 string (`[k]`, `(aOPb)`), so that "same meaning" is string equality
of canonical forms and everything stays inside the scalar sort.  What is ASSUMED here (the 'parser axioms', each
validated by the bounded check bounded/c07 on every builder output up to nesting depth 4):

  X1  "[k]" denotes Key(k)                       X2  "(a) OP [k]" denotes Bin(OP, a, Key(k))
  X3  "(a) OP (b)" denotes Bin(OP, a, b)         X4  "(a)" and " a" denote what a denotes
  X5  strip() and the regex \\((\\[\\d+\\])\\) -> \\1 do not change what a well-formed expression denotes
  X6  every such string is non-empty and well-formed iff its leaves are
An f-string whose skeleton is not one of the declared ones gets no view; obligations about it are then undecided.
"""
from __future__ import annotations

from typing import Any, List, Optional, Sequence, Tuple

import z3

from pyvc.values import Sc, SV, mk_s


class FX:
    __slots__ = ("kind", "a", "b", "op", "s")

    def __init__(self, kind: str, a=None, b=None, op=None, s=None) -> None:
        self.kind, self.a, self.b, self.op, self.s = kind, a, b, op, s

    def __repr__(self) -> str:
        return f"FX({self.kind}, {self.a}, {self.b}, {self.op}, {self.s})"


M_OF = z3.Function("fx_M", z3.StringSort(), z3.StringSort())        # canonical meaning of a well-formed input string
WF_OF = z3.Function("fx_wf", z3.StringSort(), z3.BoolSort())        # the input string is a well-formed FC expression
IS_KEY = z3.Function("fx_is_key", z3.StringSort(), z3.BoolSort())   # the string is a (numeric) condition key


def view_of(v: SV) -> Optional[FX]:
    if v.view and "fx" in v.view:
        return v.view["fx"]
    return None


def as_expr_view(v: SV) -> FX:
    """a str value used where an expression is expected: its own view, or an opaque well-formed input"""
    fx = view_of(v)
    if fx is not None:
        return fx
    return FX("opaque", s=Sc.sv(v.t))


def meaning(fx: FX) -> z3.SeqRef:
    if fx.kind == "key":
        return z3.Concat(z3.StringVal("["), fx.s, z3.StringVal("]"))
    if fx.kind == "bin":
        return z3.Concat(z3.StringVal("("), meaning(fx.a), fx.op, meaning(fx.b), z3.StringVal(")"))
    if fx.kind in ("paren", "lead"):
        return meaning(fx.a)
    if fx.kind == "opaque":
        return M_OF(fx.s)
    raise ValueError(f"meaning of an incomplete expression ({fx.kind})")


def wellformed(fx: FX) -> z3.BoolRef:
    if fx.kind == "key":
        return IS_KEY(fx.s)
    if fx.kind == "bin":
        return z3.And(wellformed(fx.a), wellformed(fx.b))
    if fx.kind in ("paren", "lead"):
        return wellformed(fx.a)
    if fx.kind == "opaque":
        return WF_OF(fx.s)
    return z3.BoolVal(False)


def complete(fx: FX) -> bool:
    return fx.kind in ("key", "bin", "paren", "opaque") or (fx.kind == "lead" and complete(fx.a))


def _mk(ex, st, fx: FX) -> SV:
    """a string value carrying the view; X6: it is non-empty"""
    s = ex.fresh("fxs", z3.StringSort())
    st.assume(z3.Length(s) > 0, axiom=True)
    return SV(mk_s(s), "str", {"fx": fx})


def _const_str(v) -> Optional[str]:
    if isinstance(v, SV):
        t = z3.simplify(v.t)
        if z3.is_app(t) and t.decl().name() == "s" and z3.is_string_value(t.arg(0)):
            return t.arg(0).as_string()
    return None


# the views apply only inside the methods of the builder and in the function that renders a bare format constraint
VIEW_SCOPE = ("FormatConstraintExpressionBuilder", ":requirement_constraint_evaluation")


def _in_scope(st) -> bool:
    return any(v in st.frame.qualname for v in VIEW_SCOPE)


def fstring_hook(ex, st, skeleton: Tuple[str, ...], holes: Sequence[Any]) -> Optional[SV]:
    """called for every f-string: returns a viewed string for the declared skeletons, None otherwise"""
    if not _in_scope(st):
        return None
    if not all(isinstance(h, SV) for h in holes):
        return None
    if skeleton == ("[", "]") and len(holes) == 1:                                  # X1
        return _mk(ex, st, FX("key", s=Sc.sv(holes[0].t)))
    if skeleton == ("", "") and len(holes) == 1 and view_of(holes[0]) is not None:
        return holes[0]
    if skeleton == ("(", ") ", "") and len(holes) == 2:                             # prefix "(a) OP"
        a = as_expr_view(holes[0])
        if not complete(a):
            return None
        op = ex.to_str(st, holes[1])
        return _mk(ex, st, FX("prefix", a=a, op=op))
    if skeleton in (("", " [", "]"), ("", " (", ")")) and len(holes) == 2:           # X2 / X3 / X4
        second = FX("key", s=Sc.sv(holes[1].t)) if skeleton[1] == " [" else FX("paren", a=as_expr_view(holes[1]))
        if skeleton[1] == " (" and not complete(second.a):
            return None
        p = view_of(holes[0])
        if p is not None and p.kind == "prefix":
            return _mk(ex, st, FX("bin", a=p.a, b=second, op=p.op))
        if _const_str(holes[0]) == "":
            return _mk(ex, st, FX("lead", a=second))
        return None
    return None


def strip_hook(ex, st, v: SV) -> Optional[SV]:
    if not _in_scope(st):
        return None
    fx = view_of(v)
    if fx is None:
        fx = FX("opaque", s=Sc.sv(v.t))   # X5 on a well-formed input expression
    while fx.kind == "lead":                                                        # X5
        fx = fx.a
    if not complete(fx):
        return None
    return _mk(ex, st, fx)


def regex_sub_hook(ex, st, pattern: str, repl, s: SV):
    if pattern != r"\((?P<body>\[\d+\])\)":
        return None
    if not _in_scope(st):
        return None
    fx = view_of(s)
    if fx is None or not complete(fx):
        return None
    return [(st, _mk(ex, st, fx))]                                                  # X5: meaning unchanged


# ------------------------------------------------------------------------------------------------ ghost builtins
def g_fx_meaning(ex, st, args, kwargs, fn):
    """fx_meaning(s): canonical meaning (a str) of a format-constraint expression string; None for None"""
    v = args[0]
    fx = view_of(v)
    if fx is not None:
        return [(st, SV(mk_s(meaning(fx)), "str"))]
    t = v.t
    return [(st, SV(z3.If(Sc.is_none(t), Sc.none, mk_s(M_OF(Sc.sv(t)))), None))]


def g_fx_wellformed(ex, st, args, kwargs, fn):
    v = args[0]
    fx = view_of(v)
    if fx is not None:
        return [(st, SV(Sc.b(wellformed(fx)), "bool"))]
    return [(st, SV(Sc.b(z3.And(Sc.is_s(v.t), WF_OF(Sc.sv(v.t)))), "bool"))]


def g_fx_is_key(ex, st, args, kwargs, fn):
    return [(st, SV(Sc.b(z3.And(Sc.is_s(args[0].t), IS_KEY(Sc.sv(args[0].t)))), "bool"))]
