"""Syntactic frame analysis (DESIGN §2.7): the write set of every function that can run inside a gathered coroutine
must consist of locals, objects the function created itself, and the declared `modifies` entries (each with a reason
why the write cannot be observed by a concurrently running coroutine).  An undeclared write does not refute anything:
it leaves the frame obligation of that function *undecided* (the order-independence proof is then incomplete and the
bounded adversarial schedules decide)."""
from __future__ import annotations

import ast
from typing import Dict, List, Set, Tuple

MUTATORS = {"append", "extend", "insert", "pop", "remove", "clear", "sort", "reverse", "update", "setdefault",
            "popitem", "add", "discard", "set", "reset"}
LOGGER_NAMES = ("logger", "parsing_logger", "validation_logger")


def _root_name(e: ast.expr):
    while isinstance(e, (ast.Attribute, ast.Subscript)):
        e = e.value
    return e.id if isinstance(e, ast.Name) else None


def _is_fresh_value(v: ast.expr) -> bool:
    if isinstance(v, (ast.List, ast.Dict, ast.Set, ast.ListComp, ast.DictComp, ast.SetComp, ast.Tuple, ast.Constant,
                      ast.JoinedStr)):
        return True
    if isinstance(v, ast.Call):
        f = v.func
        name = f.id if isinstance(f, ast.Name) else f.attr if isinstance(f, ast.Attribute) else ""
        return bool(name) and (name[0].isupper() or name in ("dict", "list", "set", "tuple", "deepcopy"))
    return False


def write_set(fn: ast.AST) -> List[Tuple[str, int, str]]:
    """[(description, line, kind)] of writes that are not to plain locals / to objects created in the function"""
    params = {a.arg for a in fn.args.args + fn.args.kwonlyargs + fn.args.posonlyargs}
    fresh: Set[str] = set()
    tainted: Set[str] = set()
    body_nodes = []

    def walk(n):
        for c in ast.iter_child_nodes(n):
            if isinstance(c, (ast.FunctionDef, ast.AsyncFunctionDef, ast.Lambda, ast.ClassDef)):
                continue  # nested functions are analysed on their own
            body_nodes.append(c)
            walk(c)
    walk(fn)
    for n in body_nodes:
        if isinstance(n, (ast.Assign, ast.AnnAssign)) and getattr(n, "value", None) is not None:
            targets = n.targets if isinstance(n, ast.Assign) else [n.target]
            for t in targets:
                if isinstance(t, ast.Name):
                    (fresh if _is_fresh_value(n.value) else tainted).add(t.id)
    fresh -= tainted
    fresh -= params
    out: List[Tuple[str, int, str]] = []
    for n in body_nodes:
        if isinstance(n, (ast.Global, ast.Nonlocal)):
            out.append((f"{type(n).__name__.lower()} {', '.join(n.names)}", n.lineno, "global"))
        targets: List[ast.expr] = []
        if isinstance(n, ast.Assign):
            targets = list(n.targets)
        elif isinstance(n, (ast.AugAssign, ast.AnnAssign)):
            targets = [n.target]
        for t in targets:
            for tt in (t.elts if isinstance(t, (ast.Tuple, ast.List)) else [t]):
                if isinstance(tt, (ast.Attribute, ast.Subscript)):
                    root = _root_name(tt)
                    if root is None or root not in fresh:
                        out.append((ast.unparse(tt), n.lineno, "store"))
        if isinstance(n, ast.Call) and isinstance(n.func, ast.Attribute) and n.func.attr in MUTATORS:
            root = _root_name(n.func.value)
            recv = ast.unparse(n.func.value)
            if any(l in recv for l in LOGGER_NAMES):
                continue
            if root is None or root not in fresh:
                out.append((f"{recv}.{n.func.attr}(...)", n.lineno, "mutator"))
    return out


def functions_of(tree: ast.Module, modname: str) -> Dict[str, ast.AST]:
    out: Dict[str, ast.AST] = {}

    def visit(node, prefix):
        for c in ast.iter_child_nodes(node):
            if isinstance(c, (ast.FunctionDef, ast.AsyncFunctionDef)):
                out[f"{modname}:{prefix}{c.name}"] = c
                visit(c, f"{prefix}{c.name}.")
            elif isinstance(c, ast.ClassDef):
                visit(c, f"{prefix}{c.name}.")
            elif isinstance(c, (ast.If, ast.Try, ast.With, ast.For, ast.While)):
                visit(c, prefix)
    visit(tree, "")
    return out
