"""C17 - value pools: proof (accumulating-loop rule, list algebra) + bounded."""
from checks.common import prove, run_bounded
from vlib.report import Ctx

LEVEL = "proof"
V = "ahbicht.validation.validation:"


def run(ctx: Ctx) -> None:
    ctx.explanation = (
        "validate_data_element_valuepool is proved against the spec `offered` (qualifiers whose own expression is "
        "fulfilled or invalid, in pool order; single-entry pools offer their entry; nothing for a forbidden segment) "
        "and the status/flag/reset table of the property statement. The loop over the pool is executed once for a "
        "generic entry (loop-carried scalars havocked), its insertions become a guarded map segment over the pool. "
        "Assumed: the qualifiers of a pool are pairwise distinct (dict insertion = append).")
    ctx.assume("the qualifiers of one value pool are pairwise distinct (insertion into the possible_values dict appends)")
    ctx.trust("A-MAUS", "ev_* = contract of parse + evaluate_ahb_expression_tree")
    prove(ctx, [V + "validate_data_element_valuepool", V + "validate_data_element"])
    run_bounded(ctx, "C17")
