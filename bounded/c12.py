"""C12 (bounded stand-in) – results do not depend on the completion order of the asynchronous evaluators.

Runs the REAL entry points (`parse_expression_including_unresolved_subexpressions`, `expand_packages`,
`evaluate_ahb_expression_tree`, `is_valid_expression`, `RcEvaluator.evaluate_conditions`,
`FcEvaluator.evaluate_format_constraints`, `HintsProvider.get_hints`, `gather_if_necessary`) under the adversarial
schedule harness `bounded.sched`: every user-supplied evaluation (per key / package occurrence) blocks at its own gate,
a controller forces a chosen completion order.

Clauses (names of the `ctx.bounded` parts):

* ``pairing``      – the four places that pair keys/positions with gathered results, under EVERY completion order of
                     up to 5 awaitables (sampled beyond): result[key] is the table value of that key (oracle: the
                     table itself), `gather_if_necessary` keeps positions of awaited and plain items, every package
                     occurrence is replaced by the (uncached) parse of *its* package expression.
* ``overall``      – for a pool of expressions with <= 5 gated awaitables per round (several requirement keys, hints,
                     format constraints, packages occurring twice, several modal marks, time conditions) x tables:
                     for every completion order (rounds mode: all permutations of every round, exhaustively when the
                     product is within the limit; steps mode: seeded samples of cross-stage interleavings) the
                     resolved tree and the AhbExpressionEvaluationResult equal the run in which nothing ever yields;
                     additionally (independent of the code) on two-valued tables the chosen modal-mark part and the
                     requirement outcome equal a hand-written Boolean specification of the pool expression
                     ("first fulfilled part decides, last part otherwise").
* ``concurrent``   – N concurrent `is_valid_expression` / evaluation runs (asyncio.gather), each with its own
                     context-local content evaluation result (`bounded.common.set_cer` inside each task), gated
                     evaluators, seeded schedules: each run returns what it returns alone, every evaluator call saw the
                     data of its own run, and inside `is_valid_expression` every generated content evaluation result
                     handed to the setter was the one its evaluation saw (all of them were seen, none from elsewhere).

Bound: expressions of the pool only, <= 5 awaitables per round exhaustively (rounds mode), seeded samples beyond and
for steps mode; the schedule quantifier is explored on CPython's default event loop only.
"""
from __future__ import annotations

import asyncio
import random
import re
import time
from collections import Counter
from typing import Any, Dict, List, Optional, Tuple

import ahbicht.content_evaluation  # noqa: F401
from ahbicht.content_evaluation import is_valid_expression
from ahbicht.content_evaluation.evaluationdatatypes import EvaluatableData, EvaluationContext
from ahbicht.content_evaluation.fc_evaluators import text_to_be_evaluated_by_format_constraint
from ahbicht.expressions import condition_expression_parser as cep
from ahbicht.expressions.ahb_expression_evaluation import evaluate_ahb_expression_tree
from ahbicht.expressions.expression_resolver import expand_packages, parse_expression_including_unresolved_subexpressions
from ahbicht.models.condition_nodes import ConditionFulfilledValue as CFV
from ahbicht.models.condition_nodes import EvaluatedFormatConstraint, Hint
from ahbicht.utility_functions import gather_if_necessary
from lark import Token, Tree

from bounded import common, sched
from bounded.common import make_cer, set_cer
from bounded.sched import pmap

_CFV = {"F": CFV.FULFILLED, "U": CFV.UNFULFILLED, "K": CFV.UNKNOWN, "N": CFV.NEUTRAL}
TEXT = "2022-12-31T23:00:00+00:00"  # start of a German "Stromtag" (not of a "Gastag")
MAX_VIOLATIONS = 5


# ------------------------------------------------------------------------------------------------ canonical forms
def tree_repr(node: Any) -> Any:
    if isinstance(node, Tree):
        return [str(node.data), [tree_repr(c) for c in node.children]]
    if isinstance(node, Token):
        return f"{node.type}:{node.value}"
    return repr(node)


def canon(result: Any) -> Any:
    """JSON-able canonical form of an AhbExpressionEvaluationResult (all its fields)"""
    rc = result.requirement_constraint_evaluation_result
    fc = result.format_constraint_evaluation_result
    return {"indicator": str(result.requirement_indicator.value), "rc_fulfilled": rc.requirement_constraints_fulfilled,
            "conditional": rc.requirement_is_conditional, "fc_expression": rc.format_constraints_expression,
            "hints": rc.hints, "fc_fulfilled": fc.format_constraints_fulfilled, "fc_message": fc.error_message}


def build_cer(table: Dict[str, Any]):
    return make_cer(rc={k: _CFV[v] for k, v in table.get("rc", {}).items()}, fc=dict(table.get("fc", {})),
                    hints=dict(table.get("hints", {})), packages=dict(table.get("packages", {})))


# ------------------------------------------------------------------------------------------------ the pool
# parts: (requirement indicator, condition expression or None); spec: per part a Boolean function of the
# requirement-constraint values (True = FULFILLED) – hints and format constraints are neutral for the requirement.
POOL: List[dict] = [
    {"name": "rc3", "parts": [("Muss", "[1] U [2] U [3]")], "spec": [lambda v: v["1"] and v["2"] and v["3"]]},
    {"name": "rc3-unsorted", "parts": [("Muss", "[3] U ([1] O [2])")],
     "spec": [lambda v: v["3"] and (v["1"] or v["2"])]},
    {"name": "rc3-lexicographic", "parts": [("Muss", "[10] U ([2] O [1])")],
     "spec": [lambda v: v["10"] and (v["2"] or v["1"])]},
    {"name": "rc5", "parts": [("X", "[5] U ([4] O [3]) U ([2] X [1])")],
     "spec": [lambda v: v["5"] and (v["4"] or v["3"]) and (v["2"] != v["1"])]},
    {"name": "hints2", "parts": [("Muss", "([1] U [501]) O ([2] U [502])")], "spec": [lambda v: v["1"] or v["2"]]},
    {"name": "hints3-and", "parts": [("Muss", "[2] U [503] U [1] U [501] U [502]")],
     "spec": [lambda v: v["2"] and v["1"]]},
    {"name": "fc2-and", "parts": [("Muss", "[1][901] U [2][902]")], "spec": [lambda v: v["1"] and v["2"]]},
    {"name": "fc3-or", "parts": [("Muss", "[3][903] O [1][901] O [2][902]")],
     "spec": [lambda v: v["3"] or v["1"] or v["2"]]},
    {"name": "package-twice", "parts": [("Muss", "[1P] U [3] O [1P]")], "packages": {"1P": "[1] X [2]"},
     "spec": [lambda v: ((v["1"] != v["2"]) and v["3"]) or (v["1"] != v["2"])]},
    {"name": "packages-different", "parts": [("Muss", "[2P0..1] U [1P] U [4]")],
     "packages": {"1P": "[1]", "2P": "[2] O [3]"}, "spec": [lambda v: (v["2"] or v["3"]) and v["1"] and v["4"]]},
    {"name": "modal-marks-3", "parts": [("Muss", "[1]"), ("Soll", "[2]"), ("Kann", "[3]")],
     "spec": [lambda v: v["1"], lambda v: v["2"], lambda v: v["3"]]},
    {"name": "modal-marks-plain-tail", "parts": [("Muss", "[1] U [2]"), ("Kann", None)],
     "spec": [lambda v: v["1"] and v["2"], None]},
    {"name": "modal-marks-fc-hint", "parts": [("Muss", "[1][901]"), ("Soll", "[2][902] U [501]"), ("Kann", None)],
     "spec": [lambda v: v["1"], lambda v: v["2"], None]},
    {"name": "modal-marks-package", "parts": [("Muss", "[1P] U [3]"), ("Soll", "[1P]"), ("Kann", None)],
     "packages": {"1P": "[2] O [1]"},
     "spec": [lambda v: (v["2"] or v["1"]) and v["3"], lambda v: v["2"] or v["1"], None]},
    {"name": "time-condition-ub1", "parts": [("Muss", "[1] U [2][UB1]")], "spec": [lambda v: v["1"] and v["2"]]},
    {"name": "time-condition-ub3", "parts": [("Muss", "[UB3] U [1]"), ("Kann", "[2]")],
     "spec": [lambda v: (v["492"] != v["493"]) and v["1"], lambda v: v["2"]]},
]
_INDICATOR = {"MUSS": "MUSS", "SOLL": "SOLL", "KANN": "KANN", "X": "X", "O": "O", "U": "U"}


def expression_of(entry: dict) -> str:
    return " ".join(ind if cond is None else f"{ind} {cond}" for ind, cond in entry["parts"])


def keys_of(entry: dict) -> Tuple[List[str], List[str], List[str]]:
    text = expression_of(entry) + " " + " ".join((entry.get("packages") or {}).values())
    numbers = sorted({m for m in re.findall(r"\[(\d+)\]", text)}, key=int)
    rc = [n for n in numbers if int(n) <= 499]
    if "[UB3]" in text:
        rc += ["492", "493"]
    return rc, [n for n in numbers if 500 <= int(n) <= 900], [n for n in numbers if 901 <= int(n) <= 999]


def tables_for(entry: dict, n_tables: int, rng: random.Random) -> List[dict]:
    """deterministic tables: alternating F/U (two variants), then seeded random two-valued ones, one with UNKNOWN"""
    rc, hints, fcs = keys_of(entry)
    out = []
    for t in range(n_tables):
        if t == 0:
            values = {k: "FU"[i % 2] for i, k in enumerate(rc)}
        elif t == 1:
            values = {k: "UF"[i % 2] for i, k in enumerate(rc)}
        elif t == 2:
            values = {k: "F" for k in rc}
        elif t == 3:
            values = {k: rng.choice("FUK") for k in rc}
            if rc:
                values[rng.choice(rc)] = "K"
        else:
            values = {k: rng.choice("FU") for k in rc}
        out.append({"rc": values, "fc": {k: ((i + t) % 2 == 0) for i, k in enumerate(fcs)},
                    "hints": {k: f"Hinweis {k}" for k in hints}, "packages": dict(entry.get("packages") or {})})
    return out


def spec_outcome(entry: dict, table: dict) -> Optional[dict]:
    """expected (indicator, requirement fulfilled) from the statement 'first fulfilled part decides, otherwise the
    last' and the hand-written Boolean meaning of every part; None if the table is not two-valued."""
    if any(v not in "FU" for v in table["rc"].values()):
        return None
    values = {k: v == "F" for k, v in table["rc"].items()}
    outcomes = [True if spec is None else bool(spec(values)) for spec in entry["spec"]]
    chosen = next((i for i, ok in enumerate(outcomes) if ok), len(outcomes) - 1)
    return {"indicator": _INDICATOR[entry["parts"][chosen][0].upper()], "rc_fulfilled": outcomes[chosen]}


# ------------------------------------------------------------------------------------------------ clause "overall"
def _overall_coro(expression: str, table: dict):
    cer = build_cer(table)

    async def run():
        text_to_be_evaluated_by_format_constraint.set(TEXT)
        set_cer(cer)
        tree = await parse_expression_including_unresolved_subexpressions(expression, resolve_packages=True)
        result = await evaluate_ahb_expression_tree(tree)
        return {"tree": tree_repr(tree), "result": canon(result)}

    return run


def _nontrivial(run: sched.Run) -> bool:
    return any(len(step["opened"]) > 1 and step["opened"] != step["blocked"] for step in run.log) or \
        (len(run.log) > 1 and any(d != 0 for d in run.decisions))


def _overall_job(job: Tuple[int, dict, int, int, int, int]) -> dict:
    index, table, yp, limit, n_steps, seed = job
    sched.install()
    entry = POOL[index]
    expression = expression_of(entry)
    rng = random.Random(seed)
    make = _overall_coro(expression, table)
    reference = sched.run_reference(make)
    out = {"evaluations": 1, "cases": set(), "violations": [], "exhaustive": True, "expression": expression,
           "max_round": 0}
    expected = spec_outcome(entry, table)
    if expected is not None and (reference.exc is not None or any(
            reference.value["result"][k] != v for k, v in expected.items())):
        out["violations"].append({"kind": "spec", "pool": index, "expression": expression, "table": table,
                                  "mode": None, "yp": 0, "decisions": [], "expected": expected,
                                  "observed": reference.outcome()})
    for mode, lim in (("rounds", limit), ("steps", n_steps)):
        if lim <= 0:
            continue
        runs, exhaustive = sched.explore(make, lim, rng, mode=mode, yp=yp)
        if mode == "rounds":
            out["exhaustive"] = exhaustive
            out["max_round"] = max([len(step["blocked"]) for step in runs[0].log] or [0])
        for run in runs:
            out["evaluations"] += 1
            if _nontrivial(run):
                out["cases"].add((expression, repr(sorted(table["rc"].items())), tuple(run.completion)))
            bad = None
            if run.outcome() != reference.outcome():
                bad = {"kind": "order", "expected": reference.outcome()}
            elif expected is not None and (run.exc is not None or any(
                    run.value["result"][k] != v for k, v in expected.items())):
                bad = {"kind": "spec", "expected": expected}
            if bad and len(out["violations"]) < MAX_VIOLATIONS:
                out["violations"].append({**bad, "pool": index, "expression": expression, "table": table, "mode": mode,
                                          "yp": yp, "decisions": run.decisions, "log": run.log,
                                          "observed": run.outcome()})
    out["sample"] = {"expression": expression, "table_rc": table["rc"], "completion": runs[-1].completion,
                     "result": reference.outcome()[1]["result"] if reference.exc is None else reference.outcome()}
    return out


def replay_overall(witness: dict) -> dict:
    """re-runs a reported schedule on the real code: returns the observed and the expected outcome"""
    sched.install()
    make = _overall_coro(witness["expression"], witness["table"])
    reference = sched.run_reference(make)
    if witness.get("mode") is None:
        observed = reference
    else:
        observed = sched.run_scheduled(make, decisions=witness["decisions"], mode=witness["mode"], yp=witness["yp"])
    expected = reference.outcome() if witness["kind"] == "order" else witness["expected"]
    if witness["kind"] == "order":
        failing = observed.outcome() != reference.outcome()
    else:
        failing = observed.exc is not None or any(observed.value["result"][k] != v for k, v in expected.items())
    return {"failing": failing, "observed": observed.outcome(), "expected": expected, "completion": observed.completion}


# ------------------------------------------------------------------------------------------------ clause "pairing"
def _data(table: dict) -> EvaluatableData:
    return EvaluatableData(body=common._schema.dump(build_cer(table)), edifact_format=sched.FORMAT,  # pylint:disable=protected-access
                           edifact_format_version=sched.VERSION)


_PAIRING_TABLE = {
    "rc": {"1": "F", "2": "U", "3": "K", "4": "N", "5": "U", "10": "F"},
    "fc": {"901": True, "902": False, "903": True, "904": False, "905": False},
    "hints": {"501": "Hinweis 501", "502": "Hinweis 502", "503": "Hinweis 503", "504": "Hinweis 504"},
    "packages": {"1P": "[1] U [2]", "2P": "[3]", "3P": "[4] O ([5] X [10])"},
}
_PAIRING_CASES: List[Tuple[str, Any]] = [
    ("rc", ["3", "1", "2"]), ("rc", ["10", "2", "1"]), ("rc", ["5", "4", "3", "2", "1"]), ("rc", ["2", "1", "2"]),
    ("rc", ["1", "2"]), ("rc-context", ["4", "10", "3", "1"]),
    ("fc", ["903", "901", "902"]), ("fc", ["902", "901"]), ("fc", ["905", "904", "903", "902", "901"]),
    ("hints", ["502", "501"]), ("hints", ["504", "501", "503", "502"]),
    ("gather", "apa"), ("gather", "paapa"), ("gather", "aaa"), ("gather", "pp"), ("gather", "appaa"),
    ("gather", "aapaapa"),
    ("packages", "[1P] U [2P]"), ("packages", "[3P] U [1] O [3P]"), ("packages", "[2P] O ([1P0..1] U [3P]) X [2P]"),
    ("packages", "Muss [1P] U [7] Soll [2P] Kann [3P][901]"),
]


def _expected_fc(table: dict, key: str) -> EvaluatedFormatConstraint:
    ok = table["fc"][key]
    return EvaluatedFormatConstraint(format_constraint_fulfilled=ok, error_message=None if ok else f"[{key}] not fulfilled")


def _substitute_packages(node: Any, packages: Dict[str, str]) -> Any:
    """oracle for package expansion, written from the statement: every package occurrence is replaced by the tree of
    ITS package expression (parsed without the cache: module level `_parser.parse`)"""
    if isinstance(node, Tree):
        if node.data == "package":
            key = [t for t in node.children if isinstance(t, Token) and t.type == "PACKAGE_KEY"][0].value
            return tree_repr(cep._parser.parse(packages[key]))  # pylint:disable=protected-access
        return [str(node.data), [_substitute_packages(c, packages) for c in node.children]]
    return tree_repr(node)


def _pairing_case(kind: str, arg: Any):
    """returns (make_coro, expected canonical value)"""
    table = _PAIRING_TABLE
    pieces = sched.install()
    rc_evaluator, fc_evaluator, hints_provider, _ = pieces
    if kind in ("rc", "rc-context"):
        data = _data(table)
        contexts = {k: EvaluationContext(scope=f"$.{k}") for k in arg[::2]} if kind == "rc-context" else None

        async def run_rc():
            got = await rc_evaluator.evaluate_conditions(list(arg), data, contexts)
            return {k: v.value for k, v in got.items()}

        return run_rc, {k: _CFV[table["rc"][k]].value for k in arg}
    if kind == "fc":
        cer = build_cer(table)

        async def run_fc():
            set_cer(cer)
            text_to_be_evaluated_by_format_constraint.set("some input")
            got = await fc_evaluator.evaluate_format_constraints(list(arg))
            return {k: [v.format_constraint_fulfilled, v.error_message] for k, v in got.items()}

        return run_fc, {k: [_expected_fc(table, k).format_constraint_fulfilled, _expected_fc(table, k).error_message]
                        for k in arg}
    if kind == "hints":
        cer = build_cer(table)

        async def run_hints():
            set_cer(cer)
            got = await hints_provider.get_hints(list(arg))
            return {k: [type(v).__name__, v.condition_key, v.hint] for k, v in got.items()}

        return run_hints, {k: [Hint.__name__, k, table["hints"][k]] for k in arg}
    if kind == "gather":
        async def item(i: int):
            await sched._gate("item", str(i))  # pylint:disable=protected-access
            return f"awaited-{i}"

        async def run_gather():
            mixed = [item(i) if c == "a" else f"plain-{i}" for i, c in enumerate(arg)]
            return await gather_if_necessary(mixed)

        return run_gather, [f"awaited-{i}" if c == "a" else f"plain-{i}" for i, c in enumerate(arg)]
    if kind == "packages":
        cer = build_cer(table)

        async def run_packages():
            set_cer(cer)
            tree = await parse_expression_including_unresolved_subexpressions(arg, resolve_packages=False,
                                                                              replace_time_conditions=False)
            return tree_repr(await expand_packages(tree))

        async def unexpanded():
            return await parse_expression_including_unresolved_subexpressions(arg, resolve_packages=False,
                                                                              replace_time_conditions=False)

        return run_packages, _substitute_packages(asyncio.run(unexpanded()), table["packages"])
    raise ValueError(kind)


def _pairing_job(job: Tuple[int, int, int, int]) -> dict:
    case_index, yp, limit, seed = job
    kind, arg = _PAIRING_CASES[case_index]
    make, expected = _pairing_case(kind, arg)
    out = {"evaluations": 0, "cases": set(), "violations": [], "exhaustive": True}
    reference = sched.run_reference(make)
    runs, out["exhaustive"] = sched.explore(make, limit, random.Random(seed), mode="rounds", yp=yp)
    for run in [reference] + runs:
        out["evaluations"] += 1
        if run is not reference and _nontrivial(run):
            out["cases"].add((kind, repr(arg), tuple(run.completion)))
        if run.outcome() != ("returned", expected) and len(out["violations"]) < MAX_VIOLATIONS:
            out["violations"].append({"kind": "pairing", "case": case_index, "what": kind, "arg": arg,
                                      "mode": None if run is reference else "rounds", "yp": yp,
                                      "decisions": run.decisions, "log": run.log, "expected": expected,
                                      "observed": run.outcome()})
    out["sample"] = {"what": kind, "arg": arg, "completion": runs[-1].completion, "result": expected}
    return out


def replay_pairing(witness: dict) -> dict:
    kind, arg = _PAIRING_CASES[witness["case"]]
    make, expected = _pairing_case(kind, arg)
    if witness.get("mode") is None:
        run = sched.run_reference(make)
    else:
        run = sched.run_scheduled(make, decisions=witness["decisions"], mode="rounds", yp=witness["yp"])
    return {"failing": run.outcome() != ("returned", expected), "observed": run.outcome(), "expected": expected,
            "completion": run.completion}


# ------------------------------------------------------------------------------------------------ clause "concurrent"
N_CONCURRENT = 8


def _concurrent_runs(variant: int) -> List[dict]:
    """N runs with pairwise different keys and data; half of them validity checks, half evaluations"""
    runs = []
    for i in range(N_CONCURRENT):
        a, b, h, f = str(10 * (i + 1) + 1), str(10 * (i + 1) + 2), str(500 + i + 1), str(901 + i)
        if i % 2 == 0:
            expressions = [f"Muss [{a}] U [{b}]", f"Muss [{a}][{f}] Soll [{b}]", f"Muss ([{a}] U [{h}]) O [{b}]",
                           f"Muss [{a}] O [{h}]"]  # the last one is not valid (hint next to an 'or')
            runs.append({"tag": f"r{i}/", "kind": "valid", "expression": expressions[(variant + i // 2) % 4]})
        else:
            expressions = [f"Muss [{a}] U [{b}][{f}]", f"Muss [{b}] Soll [{a}] U [{h}] Kann",
                           f"Muss [{a}] X [{b}]"]
            bits = (variant + i) % 4
            table = {"rc": {a: "FU"[bits & 1], b: "FU"[(bits >> 1) & 1]}, "fc": {f: bits % 3 == 0},
                     "hints": {h: f"Hinweis {h} of run {i}"}, "packages": {}}
            runs.append({"tag": f"r{i}/", "kind": "evaluate", "expression": expressions[(variant + i // 2) % 3],
                         "table": table})
    return runs


def _one_run(spec: dict, setter_log: List[Tuple[str, str]]):
    async def run():
        sched.RUN_TAG.set(spec["tag"])
        if spec["kind"] == "evaluate":
            cer = build_cer(spec["table"])
            set_cer(cer)
            setter_log.append((spec["tag"], sched.body_key(common._schema.dump(cer))))  # pylint:disable=protected-access
            tree = await parse_expression_including_unresolved_subexpressions(spec["expression"], resolve_packages=True)
            return canon(await evaluate_ahb_expression_tree(tree))

        def setter(cer):
            setter_log.append((spec["tag"], sched.body_key(common._schema.dump(cer))))  # pylint:disable=protected-access
            set_cer(cer)

        valid, message = await is_valid_expression(spec["expression"], setter)
        return [valid, message]  # compared through _same_result (see there)

    return run


_VALUE = re.compile(r"ConditionFulfilledValue\.\w+: '\w+'")


def _mask(result: Any) -> Any:
    """`is_valid_expression` reports the message of whichever of its (equally failing) evaluations raised FIRST; the
    message quotes the requirement value of that evaluation's generated content evaluation result.  Which evaluation
    is first depends on the completion order, the verdict and the rest of the text do not.  The verdict is compared
    strictly, the message with the quoted values masked; unmasked differences are counted and reported as a NOTE."""
    if isinstance(result, list) and len(result) == 2 and isinstance(result[1], str):
        return [result[0], _VALUE.sub("ConditionFulfilledValue.*", result[1])]
    return result


def _same_result(observed: Any, alone: Tuple[str, Any]) -> bool:
    return alone[0] == "returned" and _mask(observed) == _mask(alone[1])


def _own_data_problems(specs: List[dict], setter_log: List[Tuple[str, str]], obs: List[dict]) -> List[str]:
    """statement: each concurrent evaluation sees only its own data.  (1) every evaluator call of run r saw a body
    that run r's setter was given; (2) every body given to the setter of a run with requirement keys was seen by the
    evaluators of that run (each generated content evaluation result is evaluated with ITSELF)."""
    problems = []
    given: Dict[str, set] = {}
    for tag, body in setter_log:
        given.setdefault(tag, set()).add(body)
    seen: Dict[str, set] = {}
    for o in obs:
        seen.setdefault(o["run"], set()).add(o["body"])
        if o["body"] not in given.get(o["run"], set()):
            problems.append(f"evaluator call {o['kind']}{o['key']} of run {o['run']} saw data that was never set "
                            f"for this run: {o['body'][:160]}")
            if len(problems) > 3:
                return problems
    for spec in specs:
        missing = given.get(spec["tag"], set()) - seen.get(spec["tag"], set())
        if missing:
            problems.append(f"run {spec['tag']} ({spec['kind']} {spec['expression']!r}): {len(missing)} of "
                            f"{len(given[spec['tag']])} content evaluation results handed to the setter were never "
                            f"seen by any evaluator call of this run, e.g. {sorted(missing)[0][:160]}")
    return problems


def _concurrent_make(specs: List[dict], setter_log: List[Tuple[str, str]]):
    async def many():
        return await asyncio.gather(*[_one_run(spec, setter_log)() for spec in specs])

    return many


def _concurrent_job(job: Tuple[int, int, int, int]) -> dict:
    variant, n_schedules, yp, seed = job
    sched.install()
    rng = random.Random(seed)
    specs = _concurrent_runs(variant)
    out = {"evaluations": 0, "cases": set(), "violations": [], "exhaustive": False}
    # each run alone, nothing yields
    alone = []
    for spec in specs:
        log: List[Tuple[str, str]] = []
        ref = sched.run_reference(_one_run(spec, log), observe=True)
        out["evaluations"] += 1
        alone.append(ref.outcome())
        problems = _own_data_problems([spec], log, ref.obs)
        if problems:
            out["violations"].append({"kind": "own-data", "variant": variant, "specs": [spec], "mode": None, "yp": 0,
                                      "decisions": [], "expected": "every evaluator call sees the data of its own "
                                      "evaluation", "observed": problems})
    for n in range(n_schedules):
        mode = "rounds" if n % 2 == 0 else "steps"
        log = []
        run = sched.run_scheduled(_concurrent_make(specs, log), rng=rng, mode=mode, yp=yp, observe=True)
        out["evaluations"] += 1
        out["cases"].add((variant, tuple(run.completion)))
        bad = None
        if run.exc is not None:
            bad = {"kind": "concurrent", "expected": alone, "observed": run.outcome()}
        else:
            diff = [i for i, spec in enumerate(specs) if not _same_result(run.value[i], alone[i])]
            for i, spec in enumerate(specs):
                if i not in diff and ("returned", run.value[i]) != alone[i] and "message_varies" not in out:
                    out["message_varies"] = {"expression": spec["expression"], "alone": alone[i][1],
                                             "mode": mode, "decisions": [str(d) for d in run.decisions], "yp": yp,
                                             "variant": variant, "under_schedule": run.value[i]}
            if diff:
                bad = {"kind": "concurrent", "expected": {specs[i]["tag"]: alone[i] for i in diff},
                       "observed": {specs[i]["tag"]: run.value[i] for i in diff}}
            else:
                problems = _own_data_problems(specs, log, run.obs)
                if problems:
                    bad = {"kind": "own-data", "expected": "every evaluator call sees the data of its own evaluation",
                           "observed": problems}
        if bad and len(out["violations"]) < MAX_VIOLATIONS:
            out["violations"].append({**bad, "variant": variant, "specs": specs, "mode": mode, "yp": yp,
                                      "decisions": run.decisions})
    out["sample"] = {"concurrent": [(s["kind"], s["expression"]) for s in specs], "alone": [a[1] for a in alone][:3]}
    return out


def replay_concurrent(witness: dict) -> dict:
    sched.install()
    specs = witness["specs"]
    log: List[Tuple[str, str]] = []
    if witness.get("mode") is None:
        run = sched.run_reference(_one_run(specs[0], log), observe=True)
        problems = _own_data_problems(specs, log, run.obs)
        return {"failing": bool(problems), "observed": problems, "expected": witness["expected"]}
    alone = [sched.run_reference(_one_run(spec, [])).outcome() for spec in specs]
    run = sched.run_scheduled(_concurrent_make(specs, log), decisions=witness["decisions"], mode=witness["mode"],
                              yp=witness["yp"], observe=True)
    if run.exc is not None:
        return {"failing": True, "observed": run.outcome(), "expected": alone}
    diff = {specs[i]["tag"]: (run.value[i], alone[i]) for i in range(len(specs))
            if not _same_result(run.value[i], alone[i])}
    problems = _own_data_problems(specs, log, run.obs)
    return {"failing": bool(diff or problems), "observed": {"different_from_alone": diff, "own_data": problems},
            "expected": witness["expected"]}


def replay(witness: dict) -> dict:
    """entry point of the replay snippets: dispatches on the kind of witness"""
    if witness["kind"] == "pairing":
        return replay_pairing(witness)
    if witness["kind"] in ("concurrent", "own-data"):
        return replay_concurrent(witness)
    return replay_overall(witness)


# ------------------------------------------------------------------------------------------------ driver
def _safe(fn, job) -> dict:
    """a harness problem inside one job must not hide what the other jobs found: it is collected and decided at the
    end of `run` (note if replayed violations exist, checker crash otherwise)"""
    try:
        return fn(job)
    except sched.HarnessError as error:
        return {"harness_error": f"{fn.__name__}{job!r}: {error}"[:600], "evaluations": 0, "cases": set(),
                "violations": [], "exhaustive": False, "sample": {}, "max_round": 0, "expression": ""}


def _pairing_job_safe(job):
    return _safe(_pairing_job, job)


def _overall_job_safe(job):
    return _safe(_overall_job, job)


def _concurrent_job_safe(job):
    return _safe(_concurrent_job, job)


def _report(ctx, clause: str, witnesses: List[dict]) -> None:
    """re-runs every candidate in this process (replayed on the real code) and reports the smallest ones.  A candidate
    that does not fail again (behaviour that is not a function of table and schedule) is never reported as a
    violation; if nothing at all reproduces that is a harness problem (RuntimeError => checker crash)."""
    witnesses = sorted(witnesses, key=lambda w: (len(w.get("decisions") or []), len(repr(w))))
    reported, unreproducible = 0, []
    for witness in witnesses:
        if reported >= MAX_VIOLATIONS:
            break
        witness = {k: v for k, v in witness.items() if k != "log"} | ({"schedule": witness["log"]} if "log" in witness else {})
        try:
            again = replay(witness)
        except sched.HarnessError:  # the schedule itself could not be replayed
            again = {"failing": False}
        if not again["failing"]:
            unreproducible.append(witness)
            continue
        what = witness.get("expression") or witness.get("what") or "concurrent runs"
        sig = f"{clause}:{witness['kind']}:{what}:{witness.get('arg', '')}"[:160]
        ctx.violation(
            obligation=f"bounded/{clause}" + (f".{reported}" if reported else ""),
            message=(f"{witness['kind']}: {what} under schedule {witness.get('mode')}/{witness.get('decisions')}: "
                     f"observed {again['observed']!r} but expected {again['expected']!r}")[:1500],
            witness=witness, replayed=True, signature=sig,
            replay_code="from bounded import c12\nprint(c12.replay(" + repr(common_json(witness)) + "))")
        reported += 1
    if unreproducible:
        ctx.note(f"C12/{clause}: {len(unreproducible)} failing run(s) did not fail again when replayed with the same table "
                 f"and schedule (behaviour depends on something else), first: {unreproducible[0]!r}"[:1200])
        if not reported:
            raise RuntimeError(f"C12 harness: {len(unreproducible)} failing runs, none reproducible on replay")


def common_json(x: Any) -> Any:
    from vlib.report import _jsonable  # pylint:disable=import-outside-toplevel
    import json  # pylint:disable=import-outside-toplevel
    return json.loads(json.dumps(_jsonable(x), default=repr))


# ------------------------------------------------------------------------------------------------ shipped evaluators
_SHIPPED_EXPRESSIONS = ["Muss [1] U [2]", "Muss [1] O [2] Soll [3]", "Muss ([1] U [501]) X [2][901]", "Muss [1P] U [3]",
                        "Soll [2][902] U [1] Kann", "X [1] U ([2] O [3])[901]"]


def _shipped_tables() -> List[dict]:
    out = []
    for bits in range(8):
        out.append({"rc": {"1": "FU"[bits & 1], "2": "FU"[(bits >> 1) & 1], "3": "FU"[(bits >> 2) & 1], "4": "FU"[bits % 2]},
                    "fc": {"901": bits % 3 == 0, "902": bits % 2 == 1}, "hints": {"501": f"Hinweis 501 of world {bits}"},
                    "packages": {"1P": "[4] O [2]" if bits % 2 else "[2] U [4]"}})
    return out


def shipped_concurrent(expression: str, order: Tuple[int, ...]) -> dict:
    """the SHIPPED content-evaluation-result based evaluators / hints provider / package resolver (one singleton each):
    the same expression - the same keys - evaluated concurrently (asyncio.gather, one task each) under different
    context-local data; every task has to get the result it gets when it runs alone"""
    common.configure_inject()
    tables = [_shipped_tables()[i] for i in order]
    alone = []
    for t in tables:
        try:
            alone.append(canon(common.evaluate(expression, build_cer(t))))
        except BaseException as e:  # noqa
            alone.append(f"raised {type(e).__name__}")

    async def one(t):
        try:
            return canon(await common.evaluate_async(expression, build_cer(t)))
        except BaseException as e:  # noqa
            return f"raised {type(e).__name__}"

    async def together():
        return await asyncio.gather(*[one(t) for t in tables])

    both = asyncio.run(together())
    for i, (a, b) in enumerate(zip(alone, both)):
        if a != b:
            return {"failing": True, "expression": expression, "order": list(order), "task": i, "table": tables[i],
                    "alone": a, "concurrently": b}
    return {"failing": False, "expression": expression, "order": list(order), "tasks": len(tables)}


def _shipped_job(job):
    return shipped_concurrent(*job)


def run_shipped(ctx, tier: str, seed: int) -> None:
    t0 = time.time()
    rng = random.Random(seed + 12)
    jobs = []
    for e in _SHIPPED_EXPRESSIONS:
        for _ in range(6 if tier == "thorough" else 2):
            jobs.append((e, tuple(rng.sample(range(8), 5))))
    results = pmap(_shipped_job, jobs)
    ctx.bounded("concurrent/shipped-evaluators-same-keys", evaluations=sum(2 * 5 for _ in results),
                distinct_nontrivial=len({(r["expression"], tuple(r["order"])) for r in results}),
                rule="a case = (expression, 5 different content evaluation results): 5 tasks evaluate the SAME expression "
                     "(same keys, same singleton evaluators) concurrently, each with its own context-local data; each is "
                     "compared with its result when run alone",
                samples=[{"expression": r["expression"], "order": r["order"]} for r in results[:3]], exhaustive=False,
                bound=f"{len(jobs)} groups of 5 concurrent evaluations; natural interleaving at the library's own gather points",
                seconds=time.time() - t0)
    seen = set()
    for r in results:
        if not r["failing"] or r["expression"] in seen or len(seen) >= 3:
            continue
        again = shipped_concurrent(r["expression"], tuple(r["order"]))
        if not again["failing"]:
            ctx.note(f"C12 shipped-evaluators: a difference for {r['expression']!r} did not reproduce (not reported)")
            continue
        seen.add(r["expression"])
        ctx.violation(obligation=f"bounded/concurrent-shipped.{len(seen)}",
                      message=(f"{again['expression']!r}: task {again['task']} of 5 concurrent evaluations (own context-local data "
                               f"{again['table']}) returns {again['concurrently']} but {again['alone']} when run alone")[:1500],
                      witness=again, replayed=True, signature=f"shipped:{again['expression']}",
                      replay_code=f"from bounded import c12\nprint(c12.shipped_concurrent({again['expression']!r}, {tuple(again['order'])!r}))")


def run(ctx, tier: str, seed: int) -> None:
    thorough = tier == "thorough"
    rng = random.Random(seed)
    harness_errors: List[str] = []
    ctx.trust("A-ASYNCIO(checked only on CPython's default event loop, by replay)")
    ctx.note("C12 bounded: gated evaluators (bounded/sched.py); completion orders are forced by opening gates, "
             "no timing; reference = same table, nothing yields")

    # ---- pairing
    t0 = time.time()
    yps = [0, 1, 3] if thorough else [1]
    jobs = [(i, yp, 720 if thorough else 240, rng.randrange(2 ** 30)) for i in range(len(_PAIRING_CASES)) for yp in yps]
    results = pmap(_pairing_job_safe, jobs)
    cases = set().union(*[r["cases"] for r in results])
    witnesses = [w for r in results for w in r["violations"]]
    harness_errors.extend(r["harness_error"] for r in results if "harness_error" in r)
    ctx.bounded("pairing", evaluations=sum(r["evaluations"] for r in results), distinct_nontrivial=len(cases),
                rule="a case = (function, key list / item pattern / expression, forced completion order); non-trivial "
                     "iff at least two awaitables completed in an order different from their creation order",
                samples=[r["sample"] for r in results[:: max(1, len(results) // 5)]],
                exhaustive=all(r["exhaustive"] for r in results),
                bound=f"{len(_PAIRING_CASES)} fixed calls of evaluate_conditions / evaluate_format_constraints / get_hints / "
                      f"gather_if_necessary / expand_packages with <= 5 awaitables per round: all permutations of every "
                      f"round (seeded samples where the product exceeds {720 if thorough else 240}); yield patterns {yps}",
                seconds=time.time() - t0)
    _report(ctx, "pairing", witnesses)

    # ---- overall
    t0 = time.time()
    n_tables = 8 if thorough else 4
    limit, n_steps = (1440, 300) if thorough else (240, 40)
    jobs = []
    for index, entry in enumerate(POOL):
        for t, table in enumerate(tables_for(entry, n_tables, rng)):
            for yp in ([0, 1, 3] if thorough else [1 + (t % 3)]):
                jobs.append((index, table, yp, limit, n_steps, rng.randrange(2 ** 30)))
    results = pmap(_overall_job_safe, jobs)
    cases = set().union(*[r["cases"] for r in results])
    witnesses = [w for r in results for w in r["violations"]]
    harness_errors.extend(r["harness_error"] for r in results if "harness_error" in r)
    too_wide = sorted({r["expression"] for r in results if r["max_round"] > 5})
    ctx.bounded("overall", evaluations=sum(r["evaluations"] for r in results), distinct_nontrivial=len(cases),
                rule="a case = (expression, requirement table, forced completion order of all gated evaluations); "
                     "non-trivial iff some round was opened in an order different from the creation order (or a later "
                     "decision differs from the default)",
                samples=[r["sample"] for r in results[:: max(1, len(results) // 5)]],
                exhaustive=False,
                bound=f"{len(POOL)} pool expressions x {n_tables} tables; rounds mode: all permutations of every round "
                      f"when their product is <= {limit} (true for {sum(1 for r in results if r['exhaustive'])} of "
                      f"{len(results)} jobs), seeded samples otherwise; steps mode: <= {n_steps} seeded/all "
                      f"interleavings; <= 5 gated awaitables per round"
                      + (f" except {too_wide}" if too_wide else ""),
                seconds=time.time() - t0)
    _report(ctx, "overall", witnesses)

    # ---- concurrent
    t0 = time.time()
    variants = range(16 if thorough else 8)
    jobs = [(v, 100 if thorough else 16, v % 4, rng.randrange(2 ** 30)) for v in variants]
    results = pmap(_concurrent_job_safe, jobs)
    cases = set().union(*[r["cases"] for r in results])
    witnesses = [w for r in results for w in r["violations"]]
    harness_errors.extend(r["harness_error"] for r in results if "harness_error" in r)
    ctx.bounded("concurrent", evaluations=sum(r["evaluations"] for r in results), distinct_nontrivial=len(cases),
                rule=f"a case = ({N_CONCURRENT} concurrent runs (4 is_valid_expression, 4 evaluations) with own "
                     "context-local data, forced completion order of all their evaluator calls); distinct orders counted",
                samples=[r["sample"] for r in results[:3]], exhaustive=False,
                bound=f"{len(jobs)} groups of {N_CONCURRENT} concurrent runs x seeded schedules (rounds and steps mode "
                      f"alternating); expressions with <= 2 requirement keys, 1 hint, 1 format constraint per run",
                seconds=time.time() - t0)
    results = [r for r in results if "harness_error" not in r] or results
    varies = [r["message_varies"] for r in results if "message_varies" in r]
    if varies:
        ctx.note("is_valid_expression: for an invalid expression the returned error MESSAGE (not the verdict) depends on "
                 f"the completion order (first failing evaluation wins), seen in {len(varies)} of {len(results)} groups, "
                 f"e.g. {varies[0]['expression']!r}: alone {varies[0]['alone'][1]!r} vs {varies[0]['under_schedule'][1]!r}; "
                 "compared with the quoted requirement values masked")
    _report(ctx, "concurrent", witnesses)
    run_shipped(ctx, tier, seed)
    sched.install()  # leave inject in a defined state
    if harness_errors:
        ctx.note(f"C12: {len(harness_errors)} job(s) stopped with a harness problem (not a verdict), first: "
                 f"{harness_errors[0]}")
        if not ctx.violations:
            raise RuntimeError(f"C12 harness: {harness_errors[0]}")
