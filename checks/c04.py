"""C04 - requirement-constraint evaluation equals the compositional semantics: proof (per-callback contracts +
induction-step lemmas; induction principle = A-LARK-FOLD) + bounded API-level backstop."""
from checks.common import prove, prove_lemmas, run_bounded
from vlib.report import Ctx

LEVEL = "proof"
RC = "ahbicht.expressions.requirement_constraint_expression_evaluation:"
T = RC + "RequirementConstraintTransformer."
CALLBACKS = [T + m for m in ("and_composition", "_or_xor_composition", "or_composition", "xor_composition", "_then_also",
                             "then_also_composition")]
AROUND = ["ahbicht.expressions.base_transformer:BaseTransformer.condition",
          RC + "evaluate_requirement_constraint_tree", RC + "requirement_constraint_evaluation"]
OPS = ["ahbicht.models.condition_nodes:ConditionFulfilledValue." + m for m in ("__and__", "__or__", "__xor__")]


def run(ctx: Ctx) -> None:
    ctx.explanation = (
        "each of the six transformer callbacks is proved (all paths, all operand nodes) to return an EvaluatedComposition "
        "whose state is the four-valued operator applied to the operands' states and to raise exactly under its "
        "structural condition; the induction step 'IH(children) + callback contract => IH(node)' is proved per "
        "operator as a lemma over the contracts; `condition`, `evaluate_requirement_constraint_tree` and the final "
        "mapping to (fulfilled, conditional) are proved against the four cases of the property statement. "
        "Induction principle: assumed contract A-LARK-FOLD (Transformer.transform is a bottom-up fold). The bounded "
        "API-level backstop is reported separately and is not counted as proved.")
    ctx.trust("A-LARK-FOLD", "A-LARK-TREE", "A-LARK-PARSE")
    prove(ctx, OPS + CALLBACKS + AROUND)
    prove_lemmas(ctx, "contracts.c04_lemmas", ["step_and", "step_or", "step_xor", "step_then",
                                              "canary_step_or_with_and_semantics"])
    run_bounded(ctx, "C04")
