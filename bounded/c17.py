"""C17 (bounded stand-in, API-level backstop) — value pools offer exactly the admissible qualifiers and judge the
input by them.

Real entry points: validate_data_element_valuepool(element, segment status) directly, and validate_segment(segment,
parent status, flag) with the pool as the segment's data element.  Oracle: specs.validation_spec.valuepool /
flat_segment (from the property statement); the per-entry "is the expression fulfilled" callback is the REAL
expression evaluation.  Judged (what the statement fixes): possible_values keys == offered qualifiers in pool order;
accepted (…_AND_FILLED) iff the entered value is offered; an unexpected value is flagged
(format_validation_fulfilled False), reported …_AND_EMPTY and entered_input is reset — and reset ONLY then;
nothing offered or forbidden segment => IS_FORBIDDEN*; otherwise not forbidden.  NOT judged: the REQUIRED/OPTIONAL
prefix of the value-pool status (the code reports IS_REQUIRED_AND_* regardless of the segment status).
"""
from __future__ import annotations

import copy
import itertools
from typing import List, Optional

from bounded import ahbgen as G
from specs import validation_spec as S

MODULE = "bounded.c17"


def _judge(entry: S.Entry, rec: dict, entered_after: Optional[str]) -> str:
    ex = entry.extras
    if rec.get("possible_values") != ex["offered"]:
        return f"offered values: expected {ex['offered']} (pool order), observed {rec.get('possible_values')}"
    if not S.status_agrees(entry, rec["status"]):
        return f"status: expected {entry.status}, observed {rec['status']} (entered {ex['entered']!r}, offered {ex['offered']})"
    if rec.get("format_ok") is not (not ex["flagged"]):
        return f"flag: expected format_validation_fulfilled={not ex['flagged']}, observed {rec.get('format_ok')} " \
               f"(entered {ex['entered']!r}, offered {ex['offered']})"
    if entered_after != ex["entered_after"]:
        return f"entered_input after validation: expected {ex['entered_after']!r}, observed {entered_after!r} " \
               f"(entered {ex['entered']!r}, offered {ex['offered']})"
    return ""


def check_case(case: dict) -> dict:
    """case: {"entries": [[qualifier, expression], ...], "entered": str|None, "cer": int,
              "mode": "direct", "status": "IS_REQUIRED"|"IS_OPTIONAL"|"IS_FORBIDDEN"}
          or {..., "mode": "segment", "segment": expression, "parent": None|status, "soll": bool}"""
    entries, entered, cer = case["entries"], case["entered"], case["cer"]
    ev = G.evaluator(cer)
    pool_plan = ["V", entries, entered]
    out = {"verdict": "ok", "message": "", "runs": 1, "raised": False, "nontrivial": False}

    def bad(msg, expected=None, observed=None):
        out.update(verdict="mismatch", kind=msg.split(":")[0], message=msg, expected=expected, observed=observed)
        return out

    if case["mode"] == "direct":
        de = G.build_element(pool_plan, "DE")
        expected = S.valuepool(de, case["status"], ev)
        subject = copy.deepcopy(de)
        how, res = G.call_real("validate_data_element_valuepool", cer, subject, G.status_value(case["status"]))
        if how == "raised":
            return bad(f"raised: {res}", expected=[expected.status, expected.extras], observed=res)
        rec = G.plain(res)[0]
        if rec["discriminator"] != "DE":
            return bad(f"discriminator: {rec['discriminator']}")
        msg = _judge(expected, rec, subject.entered_input)
        if msg:
            return bad(msg, expected=[expected.status, expected.extras], observed=rec)
        out["nontrivial"] = len(entries) >= 2 and case["status"] != S.IS_FORBIDDEN
        return out

    seg = G.build_segment(["S", case["segment"], [pool_plan]], "SEG")
    try:
        expected_list = S.flat_segment(seg, case["parent"], case["soll"], ev)
    except S.Undetermined:
        expected_list = None
    subject = copy.deepcopy(seg)
    how, res = G.call_real("validate_segment", cer, subject, G.status_value(case["parent"]), case["soll"])
    if expected_list is None:
        out["raised"] = True
        if not (how == "raised" and res.startswith("NotImplementedError")):
            return bad("undetermined segment: NotImplementedError expected", observed=str(res)[:200])
        return out
    if how == "raised":
        return bad(f"raised: {res}", expected=[[e.discriminator, e.status] for e in expected_list], observed=res)
    recs = G.plain(res)
    if [r["discriminator"] for r in recs] != [e.discriminator for e in expected_list]:
        return bad(f"reported nodes: expected {[e.discriminator for e in expected_list]}, observed "
                   f"{[r['discriminator'] for r in recs]}")
    if recs[0]["status"] != expected_list[0].status:
        return bad(f"segment status: expected {expected_list[0].status}, observed {recs[0]['status']}")
    if len(expected_list) == 1:
        if subject.data_elements[0].entered_input != entered:
            return bad("entered_input changed below a forbidden segment")
        return out
    msg = _judge(expected_list[1], recs[1], subject.data_elements[0].entered_input)
    if msg:
        return bad(msg, expected=[expected_list[1].status, expected_list[1].extras], observed=recs[1])
    out["nontrivial"] = len(entries) >= 2
    return out


# ------------------------------------------------------------------------------------------------ spaces
def pools(entry_pool, max_size: int):
    for k in range(1, max_size + 1):
        for combo in itertools.product(entry_pool, repeat=k):
            entries = [[G.QUALIFIERS[i], e] for i, e in enumerate(combo)]
            for entered in G.pool_inputs_for(entries):
                yield entries, entered


def direct_cases(entry_pool, max_size, cers) -> List[dict]:
    return [{"entries": en, "entered": inp, "cer": c, "mode": "direct", "status": st}
            for en, inp in pools(entry_pool, max_size) for c in cers
            for st in (S.IS_REQUIRED, S.IS_OPTIONAL, S.IS_FORBIDDEN)]


SEGMENT_EXPRESSIONS = ["Muss", "Kann", "Soll [2]", "Muss [1] O [501]"]   # required / optional / depends / invalid
PARENTS = [None, S.IS_REQUIRED, S.IS_OPTIONAL, S.IS_FORBIDDEN]


def segment_cases(entry_pool, max_size, cers) -> List[dict]:
    out = []
    n = 0
    for en, inp in pools(entry_pool, max_size):
        for c in cers:
            for se in SEGMENT_EXPRESSIONS:
                for p in PARENTS:
                    n += 1
                    out.append({"entries": en, "entered": inp, "cer": c, "mode": "segment", "segment": se,
                                "parent": p, "soll": n % 2 == 0})
    return out


RULE_D = ("distinct (pool, entered input, content evaluation result, segment status) with >= 2 entries and a "
          "non-forbidden segment status (per-entry evaluation, offered list and input judgement are all exercised)")
RULE_S = ("distinct (pool, entered input, content evaluation result, segment expression, parent status, flag) with >= 2 "
          "entries whose segment is not forbidden (the pool element is reported)")


def run(ctx, tier: str, seed: int) -> None:
    thorough = tier == "thorough"
    cers = [0, 1, 2, 3, 5] if thorough else [0, 1, 3]
    entry_pool = G.POOL_ENTRY_THOROUGH if thorough else G.POOL_ENTRY
    size = 4 if thorough else 3
    G.warm_cache(entry_pool + SEGMENT_EXPRESSIONS, cers)
    ctx.assume("C17 does not judge the REQUIRED/OPTIONAL prefix of a value-pool status (the statement fixes only: "
               "offered list, accepted iff offered, unexpected => flagged + empty + reset, nothing offered / forbidden "
               "segment => forbidden); an offered-but-empty or accepted value must not be reported forbidden")
    ctx.trust("A-EVAL 'the entry's own expression is fulfilled' is decided by the real expression evaluation "
              "(subject of C03-C10)")
    G.run_cases(ctx, "valuepool-direct", direct_cases(entry_pool, size, cers), check_case, MODULE, RULE_D,
                exhaustive=True,
                bound=f"validate_data_element_valuepool: every pool of 1..{size} entries over {len(entry_pool)} entry "
                      f"expressions (bare X, fulfilled, unfulfilled, undetermined, invalid"
                      f"{', two modal marks, package' if thorough else ''}) x entered input None/''/each qualifier of "
                      f"the pool/a foreign value x segment status IS_REQUIRED/IS_OPTIONAL/IS_FORBIDDEN x {len(cers)} "
                      f"content evaluation results")
    G.run_cases(ctx, "valuepool-through-segment", segment_cases(entry_pool, 3, cers), check_case, MODULE, RULE_S,
                exhaustive=True,
                bound=f"validate_segment(segment > pool): every pool of 1..3 entries over {len(entry_pool)} entry "
                      f"expressions x entered inputs as above x segment expression {SEGMENT_EXPRESSIONS} x parent "
                      f"status None/IS_REQUIRED/IS_OPTIONAL/IS_FORBIDDEN x {len(cers)} content evaluation results "
                      f"(flag alternating)")
    from bounded import valhist
    valhist.run_histories(ctx, tier, seed + 17, SEGMENT_EXPRESSIONS + ["Muss", "Kann [2]", "Soll [1] U [3]"], entry_pool, cers)
