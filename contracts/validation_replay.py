"""Replay support for the contracts of validation.py: a counter-model (maus objects with opaque expression strings, and
values of the ghost functions ev_*) is turned into REAL maus objects whose expressions are real AHB expressions that
evaluate, under a content evaluation result built alongside, exactly as the counter-model says; the real function is
then run, and the contract clauses are read natively with ev_* answered by really evaluating those expressions."""
from __future__ import annotations

import asyncio
import copy
from typing import Any, Dict, List, Optional

import z3

from pyvc import lists as L
from pyvc.contracts import sc_to_native
from pyvc.values import DictObj, ListObj, Obj, Ref, Sc, SV

IND_TEXT = {"MUSS": "Muss", "SOLL": "Soll", "KANN": "Kann", "X": "X", "O": "O", "U": "U"}


class _Builder:
    def __init__(self, ex, s, m) -> None:
        self.ex, self.s, self.m = ex, s, m
        self.exprs: Dict[str, str] = {}       # model string of an expression -> real expression text
        self.rc: Dict[str, Any] = {}
        self.hints: Dict[str, str] = {}
        self.qualifiers: Dict[str, str] = {}
        self.n = 0

    def ev(self, name: str, term, ret=None):
        f = self.ex.uf("g_" + name, 1, ret)
        return self.m.eval(f(term), model_completion=True)

    def expression(self, sv: SV) -> str:
        from ahbicht.models.condition_nodes import ConditionFulfilledValue as C
        t = self.m.eval(sv.t, model_completion=True)
        key = str(t)
        if key in self.exprs:
            return self.exprs[key]
        self.n += 1
        k = str(self.n)
        invalid = z3.is_true(self.ev("ev_invalid", t, z3.BoolSort()))
        ind = sc_to_native(self.ex, self.ev("ev_indicator", t))
        ind_text = IND_TEXT.get(getattr(ind, "name", "MUSS"), "Muss")
        f = sc_to_native(self.ex, self.ev("ev_fulfilled", t))
        self.rc[k] = C.FULFILLED if f is True else C.UNFULFILLED if f is False else C.UNKNOWN
        if invalid:
            hk = str(500 + self.n)
            self.hints[hk] = f"Hinweis {hk}"
            text = f"{ind_text} [{k}] O [{hk}]"
        else:
            text = f"{ind_text} [{k}]"
        self.exprs[key] = text
        return text

    def qualifier(self, sv: SV) -> str:
        t = str(self.m.eval(sv.t, model_completion=True))
        if t not in self.qualifiers:
            self.qualifiers[t] = f"Z{len(self.qualifiers) + 1:02d}"
        return self.qualifiers[t]

    def scalar(self, v):
        return sc_to_native(self.ex, self.m.eval(v.t, model_completion=True)) if isinstance(v, SV) else None

    def seq(self, ref: Optional[Any]) -> Optional[List[Any]]:
        if not isinstance(ref, Ref):
            return None
        o = self.s.heap[ref.oid]
        if not isinstance(o, ListObj):
            return None
        lt = o.lt
        if lt.is_concrete():
            return [self.obj(x) for x in lt.concrete_items()]
        seg = lt.segs[0]
        n = self.m.eval(seg.n, model_completion=True).as_long()
        if not 0 <= n <= 6:
            raise ValueError("sequence too long for a replay")
        return [self.obj(self.ex.subst(self.s, seg.body.segs[0].v, seg.ivar, z3.IntVal(i))) for i in range(n)]

    def obj(self, ref):
        import maus.models.edifact_components as mc
        o = self.s.heap[ref.oid]
        f = o.fields
        disc = self.scalar(f.get("discriminator")) if "discriminator" in f else None
        if o.cls == "SegmentGroup":
            return mc.SegmentGroup(discriminator=disc or f"SG{ref.oid}", ahb_expression=self.expression(f["ahb_expression"]),
                                   segments=self.seq(f.get("segments")) if "segments" in f else None,
                                   segment_groups=self.seq(f.get("segment_groups")) if "segment_groups" in f else None)
        if o.cls == "Segment":
            return mc.Segment(discriminator=disc or f"SEG{ref.oid}", ahb_expression=self.expression(f["ahb_expression"]),
                              section_name="replayed", data_elements=self.seq(f.get("data_elements")) or [])
        if o.cls == "DataElementFreeText":
            return mc.DataElementFreeText(discriminator=disc or f"DE{ref.oid}", ahb_expression=self.expression(f["ahb_expression"]),
                                          entered_input=self.scalar(f["entered_input"]), data_element_id="1234",
                                          value_type=self.scalar(f["value_type"]))
        if o.cls == "DataElementValuePool":
            return mc.DataElementValuePool(discriminator=disc or f"DE{ref.oid}", entered_input=self._entered(f["entered_input"]),
                                           data_element_id="1234", value_pool=self.seq(f["value_pool"]) or [])
        if o.cls == "ValuePoolEntry":
            return mc.ValuePoolEntry(qualifier=self.qualifier(f["qualifier"]), meaning=self.scalar(f["meaning"]) or "m",
                                     ahb_expression=self.expression(f["ahb_expression"]))
        if o.cls == "DataElement":
            # generic element of a segment (opaque in the counter-model): realised as a free-text element whose result
            # depends on everything it is handed (status of the segment AND the soll flag)
            from ahbicht.models.condition_nodes import ConditionFulfilledValue as C
            self.n += 1
            self.rc[str(self.n)] = C.FULFILLED
            return mc.DataElementFreeText(discriminator=disc or f"DE{ref.oid}", ahb_expression=f"Soll [{self.n}]",
                                          entered_input=None, data_element_id="1234", value_type=None)
        raise ValueError(f"cannot rebuild {o.cls}")

    def _entered(self, sv: SV):
        v = self.scalar(sv)
        if isinstance(v, str) and str(self.m.eval(sv.t, model_completion=True)) in self.qualifiers:
            return self.qualifiers[str(self.m.eval(sv.t, model_completion=True))]
        return v


def concretize(ex, s, m, values) -> Optional[Dict[str, Any]]:
    b = _Builder(ex, s, m)
    out: Dict[str, Any] = {}
    # value-pool entries first, so that an entered input equal to a qualifier is mapped consistently
    for k, v in values.items():
        if isinstance(v, Ref) and isinstance(s.heap[v.oid], Obj) and s.heap[v.oid].cls in (
                "SegmentGroup", "Segment", "DataElementFreeText", "DataElementValuePool"):
            if s.heap[v.oid].cls == "DataElementValuePool":
                pool = b.seq(s.heap[v.oid].fields["value_pool"])  # noqa: F841  (registers the qualifiers)
                b.exprs.clear() if False else None
            out[k] = b.obj(v)
        elif isinstance(v, Ref) and isinstance(s.heap[v.oid], Obj) and s.heap[v.oid].cls == "DeepAnwendungshandbuch":
            from maus.models.anwendungshandbuch import AhbMetaInformation, DeepAnwendungshandbuch
            out[k] = DeepAnwendungshandbuch(meta=AhbMetaInformation(pruefidentifikator="11042"),
                                            lines=b.seq(s.heap[v.oid].fields["lines"]) or [])
        elif isinstance(v, SV):
            out[k] = b.scalar(v)
        else:
            return None
    out["__cer__"] = {"rc": b.rc, "hints": b.hints}
    return out


def _evaluate_all(expressions: List[str], cer) -> None:
    """fills specs.ghost.EV_TABLE by REALLY evaluating every expression under the content evaluation result"""
    from ahbicht.expressions import InvalidExpressionError
    from bounded.common import configure_inject, evaluate
    from specs import ghost
    configure_inject()
    for e in expressions:
        try:
            r = evaluate(e, cer)
            ghost.EV_TABLE[e] = {"invalid": False, "indicator": r.requirement_indicator,
                                 "fulfilled": r.requirement_constraint_evaluation_result.requirement_constraints_fulfilled,
                                 "hints": r.requirement_constraint_evaluation_result.hints,
                                 "fc_fulfilled": r.format_constraint_evaluation_result.format_constraints_fulfilled,
                                 "fc_message": r.format_constraint_evaluation_result.error_message}
        except InvalidExpressionError as ie:
            ghost.EV_TABLE[e] = {"invalid": True, "reason": ie.error_message, "indicator": None, "fulfilled": None}


def _expressions_of(x, acc: List[str]) -> List[str]:
    for attr in ("ahb_expression",):
        if hasattr(x, attr) and isinstance(getattr(x, attr), str):
            acc.append(getattr(x, attr))
    for attr in ("segments", "segment_groups", "data_elements", "value_pool", "lines"):
        for c in (getattr(x, attr, None) or []):
            _expressions_of(c, acc)
    return acc


def make_call_native(fn_name: str):
    def call_native(args: Dict[str, Any]):
        import ahbicht.validation.validation as val
        from bounded.common import configure_inject, make_cer, set_cer
        from specs import ghost, vspec
        cer_spec = args.pop("__cer__", {"rc": {}, "hints": {}})
        cer = make_cer(rc=cer_spec["rc"], hints=cer_spec["hints"])
        configure_inject()
        exprs: List[str] = []
        for v in args.values():
            _expressions_of(v, exprs)
        _evaluate_all(sorted(set(exprs)), cer)

        def leaf(name):
            def run(d, *rest):
                async def go():
                    set_cer(cer)
                    return await getattr(val, name)(copy.deepcopy(d), *rest)
                return asyncio.run(go())
            return run
        ghost.NATIVE.update({"flat_group": vspec.flat_group, "flat_segment": vspec.flat_segment, "element": vspec.element,
                             "freetext": leaf("validate_data_element_freetext"),
                             "valuepool": leaf("validate_data_element_valuepool")})

        async def go():
            set_cer(cer)
            return await getattr(val, fn_name)(**args)
        return go()
    return call_native
