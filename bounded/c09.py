"""C09 (bounded stand-in, the part of DESIGN §4 C09 that is not proved) — AHB expressions split into their parts; the
first fulfilled part decides.

A. splitting     real AHB parser (+ the token callbacks of AhbExpressionTransformer, + the resolver) against the regex-free
                 reference splitter `specs.refparser.ref_split_ahb_raw`:
                   * accepted by the AHB parser  =>  the reference finds the same parts: same indicators as written, the
                     same condition-expression texts, in the same order; MODAL_MARK / PREFIX_OPERATOR callbacks return the
                     normalised indicator (and do not raise)
                   * reference verdict "yes" (structure fine, all condition parts well-formed)  =>  AHB parser and resolver
                     accept, and the resolver's tree holds, per part, the documented grouping of that part's text
                   * reference verdict "no"  =>  both reject;  verdict "shape" (a condition part malformed)  =>  the
                     resolver rejects (the AHB parser alone may do either: it "does not yet check" condition parts)
                   * only SyntaxError is ever raised
B. selection     evaluate(e) under every assignment of FULFILLED/UNFULFILLED/UNKNOWN to the requirement keys 1,2,3 ==
                 "first part whose requirement outcome is fulfilled (a bare indicator is fulfilled and unconditional), else
                 the last part"; indicator = that part's normalised indicator; requirement outcome, hints, format result =
                 those of "<indicator> <that part's condition expression>" evaluated on its own (requirement_is_conditional
                 becomes True when there are several parts and the selected one is fulfilled).
"""
from __future__ import annotations

import asyncio
import itertools
import random
import time
from typing import Dict, List, Optional, Tuple

from bounded import exprgen as g
from bounded.common import F, K, U, evaluate_async, hints_for, make_cer, pmap
from specs import refparser as ref

COND_POOL = ("[1]", "[3]", "[1]U[2]", "[2]O[3]", "[1]X[3]", "[1]u[501]", "[2][901]", "[UB1]U[3]", "[4P]",
             "([1]o[2])∧[3]", "[3]⊻[1]U[2]", "[1]U[4P1..2][901]")
PACKAGES = {"4P": "[2]U[3]"}
FC = {"901": True, "932": False, "934": True}
MODAL_LONG = {"MUSS": "muss", "SOLL": "soll", "KANN": "kann"}
PRE_WS = ("", " ", "  ", "\t", "\n")
POST_WS = ("", " ")
ASSIGNMENTS = tuple(itertools.product((F, U, K), repeat=3))
HAND_MADE = (
    "Muss[1]U[2]Soll[3]", "Kann[1]O[2]", "M[1]K", "Mus[2]", "Mu[2]", "Muss[1]X", "Muss[1]O", "Muss[1]u", "X[1]Muss[2]",
    "X[1]X", "X[1]X[2]", "MussSoll[1]", "Muss Soll[1]", " Muss[1]", "Muss[1] Kann ", "Muss ", "Sol[1]", "Kan[1]",
    "Musss[1]", "MussU[1]", "Muss[1]Soll[2", "M[1]KK", "M[1]K[2]K", "Muss[1]Soll", "U[1]U", "UU[1]", "OU[1]", "U[1]U[2]",
    "O[1]O[2]", "muss[1]k ann", "Muss[1]B", "Muss[1]P", "Muss[1P]Soll[UB1]K", "Muss[1].", "Muss(", "X", "x", "o", "u", "O",
    "U", "XX", "Muss[UB1]", "MUSS[1]SOLL[2]KANN", "S[1]oll[2]", "K[1]ann", "M[1]uss", "Kann[1]O[2]Kann", "Soll[1]XKann[2]",
    "Muss[1]\x0bSoll[2]", "Muss\n[1]\nSoll\n[2]", "M", "s", "k", "MM", "Muss[1]Muss", "", "[1]", "Muss[1]U[2]Soll[3]Kann[4P]",
)


def _case_variants(word: str) -> List[str]:
    return ["".join(p) for p in itertools.product(*((c.lower(), c.upper()) for c in word))]


MODAL_SPELLINGS: Dict[str, List[str]] = {
    norm: _case_variants(norm[0]) + _case_variants(norm) for norm in ("MUSS", "SOLL", "KANN")}  # 3 x 18 = 54
PREFIX_SPELLINGS: Dict[str, List[str]] = {p: [p, p.lower()] for p in "XOU"}  # 6


# ------------------------------------------------------------------------------------------------------ generation
def _modal(rng: random.Random) -> str:
    return rng.choice(MODAL_SPELLINGS[rng.choice(("MUSS", "SOLL", "KANN"))])


def _part(ind: str, cond: str, pre: str, post: str) -> str:
    return ind + pre + cond + post


def _well_formed(rng: random.Random, quick: bool) -> List[str]:
    """well-formed AHB expressions with <= 3 parts, deterministic order"""
    out: List[str] = []
    ws_all = list(itertools.product(PRE_WS, POST_WS))
    # 1 part: every one of the 54 + 6 indicator spellings x every condition expression x whitespace patterns
    for spellings in list(MODAL_SPELLINGS.values()) + list(PREFIX_SPELLINGS.values()):
        for ind in spellings:
            out.append(ind)  # bare
            for cond in COND_POOL:
                for pre, post in (rng.sample(ws_all, 4) if quick else ws_all):
                    out.append(_part(ind, cond, pre, post))
    # 2 parts: all pairs of condition expressions, sampled spellings / whitespace; "modal cond modal"
    reps2, reps2b, reps3, reps3b = (6, 12, 1, 4) if quick else (40, 60, 12, 30)
    for c1, c2 in itertools.product(COND_POOL, repeat=2):
        for _ in range(reps2):
            (p1, q1), (p2, q2) = rng.choice(ws_all), rng.choice(ws_all)
            out.append(_part(_modal(rng), c1, p1, q1) + _part(_modal(rng), c2, p2, q2))
    for c1 in COND_POOL:
        for _ in range(reps2b):
            p1, q1 = rng.choice(ws_all)
            out.append(_part(_modal(rng), c1, p1, q1) + _modal(rng))
    # 3 parts
    triples = list(itertools.product(COND_POOL, repeat=3))
    if quick:
        triples = rng.sample(triples, 800)
    for c1, c2, c3 in triples:
        for _ in range(reps3):
            ws = [rng.choice(ws_all) for _ in range(3)]
            out.append("".join(_part(_modal(rng), c, p, q) for c, (p, q) in zip((c1, c2, c3), ws)))
    for c1, c2 in itertools.product(COND_POOL, repeat=2):
        for _ in range(reps3b):
            ws = [rng.choice(ws_all) for _ in range(2)]
            out.append("".join(_part(_modal(rng), c, p, q) for c, (p, q) in zip((c1, c2), ws)) + _modal(rng))
    return list(dict.fromkeys(out))


def _malformed_variants(s: str, rng: random.Random) -> List[str]:
    """nearly well-formed neighbours on the indicator level (the reference decides what each of them is)"""
    out = [" " + s, s + rng.choice("XOUxou"), s + " " + rng.choice("XOU"), rng.choice("XOUxou") + s,
           s + rng.choice(("Muss", "K", "soll")) + rng.choice(("Muss", "k")), s.replace("uss", "us", 1),
           s.replace("oll", "ol", 1), s.replace("ann", "an", 1), s.replace("]", "", 1), s + "B", s + "P",
           s.replace("[", "Muss[", 1), s[:1] + s]
    raw = ref.ref_split_ahb_raw(s)
    if raw and raw[-1][2] is None:
        out.append(s + " ")  # whitespace after a trailing bare indicator
    return [o for o in out if o != s]


# ---------------------------------------------------------------------------------------------- A. splitting (worker)
def _real_split(tree) -> List[Tuple[str, str, Optional[str]]]:
    """[(token type, indicator as written, condition text or None)] from the tree of the real AHB parser"""
    parts = []
    for child in tree.children:
        toks = child.children
        if str(child.data) == "single_requirement_indicator_expression" and len(toks) == 2:
            parts.append((toks[0].type, str(toks[0]), str(toks[1])))
        elif str(child.data) == "requirement_indicator" and len(toks) == 1:
            parts.append((toks[0].type, str(toks[0]), None))
        else:
            parts.append(("?", repr(child), None))
    return parts


def _normalise_real(token_type: str, written: str) -> str:
    """the real token callbacks of the evaluation transformer"""
    from lark import Token
    from ahbicht.expressions.ahb_expression_evaluation import AhbExpressionTransformer
    transformer = AhbExpressionTransformer()
    fn = transformer.MODAL_MARK if token_type == "MODAL_MARK" else transformer.PREFIX_OPERATOR
    try:
        result = fn(Token(token_type, written))
        return f"{type(result).__name__}.{result.value}"
    except Exception as exc:  # noqa
        return f"raised {type(exc).__name__}: {str(exc)[:80]}"


async def _split_check(s: str) -> Tuple[int, List[dict], Optional[str]]:
    from ahbicht.expressions.ahb_expression_parser import \
        parse_ahb_expression_to_single_requirement_indicator_expressions as parse_ahb
    from ahbicht.expressions.expression_resolver import parse_expression_including_unresolved_subexpressions
    failures: List[dict] = []

    def fail(clause: str, message: str, expected, observed):
        failures.append({"input": s, "clause": clause, "message": message, "expected": repr(expected),
                         "observed": repr(observed)})

    raw = ref.ref_split_ahb_raw(s)
    verdict = ref.ref_accepts_ahb(s)
    evaluations = 0
    # ---- the AHB parser alone
    try:
        evaluations += 1
        tree = parse_ahb(s)
    except SyntaxError:
        tree = None
    except Exception as exc:  # noqa
        tree = None
        fail("only-SyntaxError", "the AHB parser raised something else than SyntaxError", "SyntaxError",
             f"{type(exc).__name__}: {str(exc)[:80]}")
    if tree is None and verdict == "yes":
        fail("split-accepts", "well-formed AHB expression rejected by the AHB parser", raw, "SyntaxError")
    if tree is not None:
        real = _real_split(tree)
        if raw is None:
            fail("split-rejects", "string without the indicator structure of an AHB expression accepted", "SyntaxError",
                 real)
        else:
            expected = [(written, text) for written, _, text in raw]
            if [(w, t) for _, w, t in real] != expected:
                fail("split-parts", "the parts are not the written parts in written order", expected, real)
            else:
                for (tok_type, written, _), (_, norm, _) in zip(real, raw):
                    want_type = "MODAL_MARK" if norm in ("MUSS", "SOLL", "KANN") else "PREFIX_OPERATOR"
                    want = ("ModalMark." if want_type == "MODAL_MARK" else "PrefixOperator.") + norm
                    got = _normalise_real(tok_type, written)
                    evaluations += 1
                    if tok_type != want_type or got != want:
                        fail("indicator-normalisation", f"indicator {written!r} is not normalised to {norm}",
                             (want_type, want), (tok_type, got))
                        break
    # ---- the resolver (AHB parser + condition parser per part)
    try:
        evaluations += 1
        resolved = await parse_expression_including_unresolved_subexpressions(s, replace_time_conditions=False)
    except SyntaxError:
        resolved = None
    except Exception as exc:  # noqa
        resolved = None
        fail("only-SyntaxError", "the resolver raised something else than SyntaxError", "SyntaxError",
             f"{type(exc).__name__}: {str(exc)[:80]}")
    should_accept = verdict == "yes" or ref.ref_accepts_condition(s)
    if (resolved is not None) != should_accept:
        fail("resolver-accepts" if should_accept else "resolver-rejects",
             "well-formed AHB expression rejected by the resolver" if should_accept
             else "malformed AHB expression accepted by the resolver (must be rejected by both)",
             "accept" if should_accept else "SyntaxError", "accepted" if resolved is not None else "SyntaxError")
    elif resolved is not None and verdict == "yes":
        got = []
        for child in resolved.children:
            if str(child.data) == "single_requirement_indicator_expression" and len(child.children) == 2:
                got.append((str(child.children[0]), g.lark_to_canonical(child.children[1])))
            elif str(child.data) == "requirement_indicator" and len(child.children) == 1:
                got.append((str(child.children[0]), None))
            else:
                got.append(("?", repr(child)))
        expected = [(written, None if text is None else ref.ref_parse(text)) for written, _, text in raw]
        if str(resolved.data) != "ahb_expression" or got != expected:
            fail("split-resolved", "a part of the resolved tree is not the documented tree of that part's own text",
                 expected, got)
    nontrivial = None
    if raw is not None:
        # the structure that is exercised: indicators normalised, condition texts without their whitespace
        nontrivial = repr([(norm, None if text is None else "".join(text.split())) for _, norm, text in raw]) \
            + verdict
    return evaluations, failures, nontrivial


async def _split_chunk_async(strings: List[str]):
    evaluations, failures, keys = 0, [], set()
    for s in strings:
        e, f, k = await _split_check(s)
        evaluations += e
        failures.extend(f)
        if k is not None:
            keys.add(k)
    return evaluations, failures, keys


def _work_split(strings: List[str]):
    return asyncio.run(_split_chunk_async(strings))


# -------------------------------------------------------------------------------------------- B. selection (worker)
_ORACLE: Dict[Tuple[str, str], List[tuple]] = {}
CANONICAL_SPELLING = {"MUSS": "Muss", "SOLL": "Soll", "KANN": "Kann", "X": "X", "O": "O", "U": "U"}


def _cer(assignment):
    return make_cer(rc=dict(zip("123", assignment)), fc=FC, hints=hints_for(["501"]), packages=PACKAGES)


def _outcome(result) -> tuple:
    rc, fc = result.requirement_constraint_evaluation_result, result.format_constraint_evaluation_result
    return (f"{type(result.requirement_indicator).__name__}.{result.requirement_indicator.value}",
            rc.requirement_constraints_fulfilled, rc.requirement_is_conditional, rc.format_constraints_expression,
            rc.hints, fc.format_constraints_fulfilled, fc.error_message)


async def _eval_all(expression: str) -> List[tuple]:
    outcomes = []
    for assignment in ASSIGNMENTS:
        try:
            outcomes.append(_outcome(await evaluate_async(expression, _cer(assignment))))
        except Exception as exc:  # noqa
            outcomes.append(("raised", f"{type(exc).__name__}: {str(exc)[:100]}"))
    return outcomes


def _work_oracle(item: Tuple[str, str]):
    norm, cond = item
    return asyncio.run(_eval_all(CANONICAL_SPELLING[norm] + " " + cond))


def _expected(parts: List[Tuple[str, Optional[str]]], a_idx: int) -> Optional[tuple]:
    """`select` of DESIGN appendix A on the per-part outcomes; None if a part has no defined outcome of its own"""
    outcomes = []
    for norm, text in parts:
        cls = "ModalMark." if norm in ("MUSS", "SOLL", "KANN") else "PrefixOperator."
        if text is None:
            outcomes.append((cls + norm, True, False, None, None, True, None))
        else:
            o = _ORACLE[(norm, "".join(text.split()))][a_idx]
            if o[0] == "raised":
                return None
            assert o[0] == cls + norm, (o, norm)
            outcomes.append(o)
    chosen = next((o for o in outcomes if o[1] is True), outcomes[-1])
    if len(parts) > 1 and chosen[1] is True:
        chosen = chosen[:2] + (True,) + chosen[3:]
    return chosen


def _work_select(expression: str):
    parts = ref.ref_split_ahb(expression)
    assert parts is not None and ref.ref_accepts_ahb(expression) == "yes", expression
    real = asyncio.run(_eval_all(expression))
    failures = []
    for a_idx, observed in enumerate(real):
        expected = _expected(parts, a_idx)
        if expected is None:
            continue
        if observed != expected:
            failures.append({"input": expression, "assignment": [v.name for v in ASSIGNMENTS[a_idx]], "a_idx": a_idx,
                             "clause": "first-fulfilled-else-last" if observed[0] != "raised" else "evaluation-raises",
                             "message": "evaluation of a well-formed AHB expression raised" if observed[0] == "raised"
                             else "result is not (that of) the first fulfilled part / the last part",
                             "expected": repr(expected), "observed": repr(observed)})
            break
    which = tuple(next((i for i, (n, t) in enumerate(parts)
                        if _expected([(n, t)], a) is not None and _expected([(n, t)], a)[1] is True), -1)
                  for a in range(len(ASSIGNMENTS)))
    key = repr(([(n, None if t is None else "".join(t.split())) for n, t in parts]))
    return len(real), failures, (key if len(set(which)) > 1 else None)


# ---------------------------------------------------------------------------------------------------------- replay
def _replay(f: dict):
    s = f["input"]
    if "a_idx" in f:
        outcomes = asyncio.run(_eval_all(s))
        observed = outcomes[f["a_idx"]]
        code = ("from bounded.common import *\nconfigure_inject()\n"
                f"cer = make_cer(rc=dict(zip('123', [{', '.join('CFV.' + n for n in f['assignment'])}])), fc={FC!r}, "
                f"hints=hints_for(['501']), packages={PACKAGES!r})\n"
                f"print(evaluate({s!r}, cer))  # expected {f['expected']}\n")
        return repr(observed) != f["expected"], code
    _, again, _ = _work_split([s])
    code = ("import asyncio\nimport ahbicht.content_evaluation\n"
            "from ahbicht.expressions.ahb_expression_parser import "
            "parse_ahb_expression_to_single_requirement_indicator_expressions as a\n"
            "from ahbicht.expressions.expression_resolver import parse_expression_including_unresolved_subexpressions as r\n"
            "from ahbicht.expressions.ahb_expression_evaluation import AhbExpressionTransformer as T\n"
            f"s = {s!r}\nprint(a(s)); print(asyncio.run(r(s)))\n"
            "for t in a(s).scan_values(lambda t: t.type in ('MODAL_MARK', 'PREFIX_OPERATOR')):\n"
            "    print(getattr(T(), t.type)(t))\n"
            f"# clause {f['clause']}: expected {f['expected']}, observed {f['observed']}\n")
    return any(a["clause"] == f["clause"] for a in again), code


def _chunks(items: List[str]) -> List[List[str]]:
    n = max(1, min(len(items) // 20 + 1, 512))  # dealt round-robin: balanced cost per chunk
    return [c for c in (items[i::n] for i in range(n)) if c]


def run(ctx, tier: str, seed: int) -> None:
    rng = random.Random(seed)
    quick = tier == "quick"
    all_failures: List[dict] = []

    # ------------------------------------------------------------------------------------------------ A. splitting
    t0 = time.time()
    well_formed = _well_formed(rng, quick)
    for s in well_formed:  # generator and reference have to agree, otherwise the checker itself is broken
        assert ref.ref_accepts_ahb(s) == "yes", s
    base_for_malformed = rng.sample(well_formed, min(len(well_formed), 1500 if quick else 6000))
    malformed = [m for s in base_for_malformed for m in _malformed_variants(s, rng)]
    strings = list(dict.fromkeys(list(HAND_MADE) + well_formed + malformed))
    results = pmap(_work_split, _chunks(strings))
    keys = set()
    for r in results:
        all_failures.extend(r[1])
        keys |= r[2]
    n_yes = sum(1 for s in strings if ref.ref_accepts_ahb(s) == "yes")
    ctx.bounded(
        "C09 splitting", sum(r[0] for r in results), len(keys),
        "distinct (sequence of normalised indicators and whitespace-free condition texts, reference verdict) among the "
        "strings that have the indicator structure of an AHB expression; evaluations = calls of the real AHB parser, "
        "resolver and indicator token callbacks",
        [strings[i] for i in (0, 3, len(HAND_MADE) + 7, len(strings) // 2, len(strings) - 1)], exhaustive=False,
        bound=f"{len(strings)} strings: {len(HAND_MADE)} hand-made; 1-part expressions with each of the 54 modal-mark and "
              f"6 prefix-operator spellings x {len(COND_POOL)} condition expressions x "
              f"{'4 sampled' if quick else 'all 10'} whitespace patterns; 2- and 3-part expressions over all pairs / "
              f"{'800 sampled' if quick else 'all'} triples of the pool with seeded spellings and whitespace "
              f"({n_yes} well-formed in total); 13 indicator-level corruptions of {len(base_for_malformed)} of them",
        seconds=time.time() - t0)

    # ------------------------------------------------------------------------------------------------ B. selection
    t0 = time.time()
    oracle_items = [(norm, cond) for norm in CANONICAL_SPELLING for cond in COND_POOL]
    oracle_results = pmap(_work_oracle, oracle_items)
    _ORACLE.clear()
    for (norm, cond), outcomes in zip(oracle_items, oracle_results):
        _ORACLE[(norm, "".join(cond.split()))] = outcomes
    raised = sorted({f"{norm} {cond}: {o[1]}" for (norm, cond), outs in zip(oracle_items, oracle_results)
                     for o in outs if o[0] == "raised"})
    if raised:
        ctx.note(f"C09: {len(raised)} single parts have no outcome of their own (skipped as unspecified): {raised[:3]}")
    n_select = 1500 if quick else 12000
    multi = [s for s in well_formed if len(ref.ref_split_ahb(s)) > 1]
    single = [s for s in well_formed if len(ref.ref_split_ahb(s)) == 1]
    chosen = rng.sample(multi, min(len(multi), n_select * 3 // 4)) + rng.sample(single, min(len(single), n_select // 4))
    results = pmap(_work_select, chosen)
    keys = set()
    for r in results:
        all_failures.extend(r[1])
        if r[2] is not None:
            keys.add(r[2])
    ctx.bounded(
        "C09 first fulfilled part decides", sum(r[0] for r in results) + len(oracle_items) * len(ASSIGNMENTS), len(keys),
        "distinct part sequences (normalised indicators + condition expressions) for which the index of the first "
        "fulfilled part differs between assignments (the selection is exercised)",
        chosen[:2] + chosen[-2:], exhaustive=False,
        bound=f"{len(chosen)} seeded well-formed expressions of space A (3/4 with 2-3 parts) x all 27 assignments of "
              "FULFILLED/UNFULFILLED/UNKNOWN to the requirement keys 1,2,3 (hint 501, format constraints 901 true, "
              "932 false, package 4P = [2]U[3]); per-part outcomes from evaluating '<Indicator> <condition expression>' "
              f"alone ({len(oracle_items)} x 27 evaluations)",
        seconds=time.time() - t0)

    by_clause: Dict[str, List[dict]] = {}
    for f in all_failures:
        by_clause.setdefault(f["clause"], []).append(f)
    for clause in sorted(by_clause):
        g.report_failures(ctx, clause, by_clause[clause], _replay)
