"""Contracts of the Python bodies inside the JSON schemata (C19): the `post_load` constructors and the `pre_dump` /
`post_dump` / `pre_load` hooks.  marshmallow itself (field (de)serialisation, hook dispatch) is the assumed contract
A-MARSHMALLOW: `Schema.load(Schema.dump(x))` hands the post_load hook a dict `data` with one entry per declared field,
`data[f]` = the field-wise round trip of `getattr(pre_dump(x), f)`.  What is proved here, from the AST of the real
hooks: given that dict, the hook returns an object of the right class whose every attribute is `data[attribute]`
(no field dropped, swapped, defaulted or coerced), and the tree / token / requirement-indicator hooks are inverse to
their dump-side counterparts."""
import z3

from lark import Token, Tree

from ahbicht.models.enums import ModalMark, PrefixOperator
from pyvc.contracts import Bool, Enum, Inst, OneOfEnums, Opt, Raw, Str, contract
from pyvc.values import DictObj, Opaque, sv_str


def record(**fields):
    """a dict with exactly these (concrete) keys: what marshmallow hands to a post_load hook after a dump"""
    def mk(ex, st, name):
        return ex.alloc(st, DictObj([(sv_str(k), spec.make(ex, st, f"{name}[{k}]")) for k, spec in fields.items()]))
    return Raw(mk)


def opaque(kind):
    return Raw(lambda ex, st, n: Opaque(kind))



def _native(target):
    """replay: call the real hook on a real instance of its schema class (the model's `self` carries no state)"""
    def call(args):
        import importlib
        modname, qual = target.split(":")
        cls_name, meth = qual.split(".")
        cls = getattr(importlib.import_module(modname), cls_name)
        a = {k: v for k, v in args.items() if k != "self"}
        return getattr(cls(), meth)(**a)
    return call

SCHEMA = Inst("Schema")
JS = "ahbicht.json_serialization.tree_schema:"


# ---- trees ---------------------------------------------------------------------------------------------------------------
@contract(JS + "TokenSchema.deserialize", prop=["C19"])
class TokenDeserialize:
    """Token(type, value) of the two loaded strings"""
    params = dict(self=SCHEMA, data=record(value=Str(), type=Str()))
    raises = {}
    call_native = _native(JS + "TokenSchema.deserialize")

    def post_is_the_token(self, data, result):
        return isinstance(result, Token) and result.type == data["type"] and result.value == data["value"]


@contract(JS + "TreeSchema.deserialize", prop=["C19"])
class TreeDeserialize:
    """Tree(data, children) of the loaded rule name and the loaded children list (the same list object)"""
    params = dict(self=SCHEMA, data=record(data=Str(), children=opaque("inst:list")))
    raises = {}
    call_native = _native(JS + "TreeSchema.deserialize")

    def post_is_the_tree(self, data, result):
        return isinstance(result, Tree) and result.data == data["data"] and result.children is data["children"]


@contract(JS + "_TokenOrTreeSchema.prepare_tree_for_serialization", prop=["C19"],
          key=JS + "_TokenOrTreeSchema.prepare_tree_for_serialization#tree")
class PrepareTree:
    """dump side, a sub-tree: wrapped as (token=None, tree=the sub-tree)"""
    params = dict(self=SCHEMA, data=Inst("Tree", data=Str(), children=opaque("inst:list")))
    raises = {}
    call_native = _native(JS + "_TokenOrTreeSchema.prepare_tree_for_serialization")

    def post_wraps_the_tree(self, data, result):
        return result.token is None and result.tree is data


@contract(JS + "_TokenOrTreeSchema.prepare_tree_for_serialization", prop=["C19"],
          key=JS + "_TokenOrTreeSchema.prepare_tree_for_serialization#token")
class PrepareToken:
    """dump side, a token: wrapped as (token=the token, tree=None)"""
    params = dict(self=SCHEMA, data=Inst("Token", value=Str(), type=Str()))
    raises = {}
    call_native = _native(JS + "_TokenOrTreeSchema.prepare_tree_for_serialization")

    def post_wraps_the_token(self, data, result):
        return result.tree is None and result.token is data


@contract(JS + "_TokenOrTreeSchema.deserialize", prop=["C19"], key=JS + "_TokenOrTreeSchema.deserialize#tree")
class UnwrapTree:
    """load side of a wrapped sub-tree (token null): the loaded Tree itself"""
    params = dict(self=SCHEMA, data=record(token=Raw(lambda ex, st, n: __import__("pyvc.values").values.sv_none()),
                                           tree=Inst("Tree", data=Str(), children=opaque("inst:list"))))
    raises = {}
    call_native = _native(JS + "_TokenOrTreeSchema.deserialize")

    def post_is_the_loaded_tree(self, data, result):
        return result is data["tree"]


@contract(JS + "_TokenOrTreeSchema.deserialize", prop=["C19"], key=JS + "_TokenOrTreeSchema.deserialize#token")
class UnwrapToken:
    """load side of a wrapped token (tree null): the loaded Token itself; a token is a str, an EMPTY token value would
    be falsy - tokens of parsed expressions are never empty (every terminal of both grammars matches >= 1 character)"""
    params = dict(self=SCHEMA, data=record(token=Inst("Token", value=Str(nonempty=True), type=Str()),
                                           tree=Raw(lambda ex, st, n: __import__("pyvc.values").values.sv_none())))
    raises = {}
    call_native = _native(JS + "_TokenOrTreeSchema.deserialize")

    def post_is_the_loaded_token(self, data, result):
        return result is data["token"]


# ---- result classes: post_load = the attrs constructor applied to exactly the loaded fields --------------------------------------
ER = "ahbicht.models.evaluation_results:"
from ahbicht.models.condition_nodes import EvaluatedFormatConstraint  # noqa: E402
from ahbicht.models.evaluation_results import (AhbExpressionEvaluationResult, FormatConstraintEvaluationResult,  # noqa: E402
                                               RequirementConstraintEvaluationResult)
from ahbicht.models.categorized_key_extract import CategorizedKeyExtract  # noqa: E402


@contract(ER + "RequirementConstraintEvaluationResultSchema.deserialize", prop=["C19"])
class LoadRcResult:
    """every loaded field - a bool or null (undetermined), a str or null - arrives unchanged in the attribute of its own
    name; the attrs validators accept null for all four"""
    params = dict(self=SCHEMA, data=record(requirement_constraints_fulfilled=Opt(Bool()), requirement_is_conditional=Opt(Bool()),
                                           format_constraints_expression=Opt(Str()), hints=Opt(Str())))
    raises = {}
    call_native = _native(ER + "RequirementConstraintEvaluationResultSchema.deserialize")

    def post_fieldwise(self, data, result):
        return isinstance(result, RequirementConstraintEvaluationResult) \
            and result.requirement_constraints_fulfilled is data["requirement_constraints_fulfilled"] \
            and result.requirement_is_conditional is data["requirement_is_conditional"] \
            and result.format_constraints_expression == data["format_constraints_expression"] \
            and result.hints == data["hints"]


@contract(ER + "FormatConstraintEvaluationResultSchema.deserialize", prop=["C19"])
class LoadFcResult:
    params = dict(self=SCHEMA, data=record(format_constraints_fulfilled=Bool(), error_message=Opt(Str())))
    raises = {}
    call_native = _native(ER + "FormatConstraintEvaluationResultSchema.deserialize")

    def post_fieldwise(self, data, result):
        return isinstance(result, FormatConstraintEvaluationResult) \
            and result.format_constraints_fulfilled is data["format_constraints_fulfilled"] \
            and result.error_message == data["error_message"]


@contract(ER + "AhbExpressionEvaluationResultSchema.deserialize", prop=["C19"])
class LoadAhbResult:
    """the three nested objects (already built by the nested schemata) become the three attributes, none swapped"""
    params = dict(self=SCHEMA, data=record(requirement_indicator=OneOfEnums("ModalMark", "PrefixOperator"),
                                           requirement_constraint_evaluation_result=Inst("RequirementConstraintEvaluationResult"),
                                           format_constraint_evaluation_result=Inst("FormatConstraintEvaluationResult")))
    raises = {}
    call_native = _native(ER + "AhbExpressionEvaluationResultSchema.deserialize")

    def post_fieldwise(self, data, result):
        return isinstance(result, AhbExpressionEvaluationResult) \
            and result.requirement_indicator == data["requirement_indicator"] \
            and result.requirement_constraint_evaluation_result is data["requirement_constraint_evaluation_result"] \
            and result.format_constraint_evaluation_result is data["format_constraint_evaluation_result"]


@contract("ahbicht.models.condition_nodes:EvaluatedFormatConstraintSchema.deserialize", prop=["C19"])
class LoadEfc:
    params = dict(self=SCHEMA, data=record(format_constraint_fulfilled=Bool(), error_message=Opt(Str())))
    raises = {}
    call_native = _native("ahbicht.models.condition_nodes:EvaluatedFormatConstraintSchema.deserialize")

    def post_fieldwise(self, data, result):
        return isinstance(result, EvaluatedFormatConstraint) \
            and result.format_constraint_fulfilled is data["format_constraint_fulfilled"] \
            and result.error_message == data["error_message"]


@contract("ahbicht.models.categorized_key_extract:CategorizedKeyExtractSchema.deserialize", prop=["C19"])
class LoadExtract:
    """the five loaded lists become the five attributes of their own names: same list objects, hence same order and
    multiplicity (no sanitising on load)"""
    params = dict(self=SCHEMA, data=record(hint_keys=opaque("inst:list"), format_constraint_keys=opaque("inst:list"),
                                           requirement_constraint_keys=opaque("inst:list"), package_keys=opaque("inst:list"),
                                           time_condition_keys=opaque("inst:list")))
    raises = {}
    call_native = _native("ahbicht.models.categorized_key_extract:CategorizedKeyExtractSchema.deserialize")

    def post_fieldwise(self, data, result):
        return isinstance(result, CategorizedKeyExtract) \
            and result.hint_keys is data["hint_keys"] \
            and result.format_constraint_keys is data["format_constraint_keys"] \
            and result.requirement_constraint_keys is data["requirement_constraint_keys"] \
            and result.package_keys is data["package_keys"] \
            and result.time_condition_keys is data["time_condition_keys"]


# ---- requirement indicator: dump writes the upper-case value, load finds the member again ----------------------------------------
EN = "ahbicht.models.enums:RequirementIndicatorSchema."


@contract(EN + "post_dump", prop=["C19"])
class IndicatorPostDump:
    """A-MARSHMALLOW: fields.String dumps a str-mixed enum member as str(member) = its value (S3); the hook upper-cases"""
    params = dict(self=SCHEMA, data=record(value=Str()))
    raises = {}
    call_native = _native(EN + "post_dump")

    def post_upper(self, data, result):
        return result == data["value"].upper()


@contract(EN + "pre_load", prop=["C19"])
class IndicatorPreLoad:
    params = dict(self=SCHEMA, data=Str())
    raises = {}
    call_native = _native(EN + "pre_load")

    def post_wraps(self, data, result):
        return result["value"] == data


@contract(EN + "post_load", prop=["C19"], key=EN + "post_load#modal")
class IndicatorPostLoadModal:
    """the value of a modal mark loads as that modal mark"""
    params = dict(self=SCHEMA, data=Raw(lambda ex, st, n: _indicator_value(ex, st, n, "ModalMark")))
    raises = {}
    call_native = _native(EN + "post_load")

    def post_member_of_its_value(self, data, result):
        return isinstance(result, ModalMark) and result.value == data["value"]


@contract(EN + "post_load", prop=["C19"], key=EN + "post_load#prefix")
class IndicatorPostLoadPrefix:
    """the value of a prefix operator loads as that prefix operator (no modal mark has the value X, O or U)"""
    params = dict(self=SCHEMA, data=Raw(lambda ex, st, n: _indicator_value(ex, st, n, "PrefixOperator")))
    raises = {}
    call_native = _native(EN + "post_load")

    def post_member_of_its_value(self, data, result):
        return isinstance(result, PrefixOperator) and result.value == data["value"]


def _indicator_value(ex, st, name, cls):
    """{"value": v} where v is the value of some member of `cls` (any of them)"""
    from pyvc.values import SV, mk_s
    vals = [v for _n, v in ex.repo.enum_members(cls)]
    s = ex.fresh(name + ".value", z3.StringSort())
    st.assume(z3.Or(*[s == z3.StringVal(v) for v in vals]))
    return ex.alloc(st, DictObj([(sv_str("value"), SV(mk_s(s), "str"))]))
