"""Assumed contracts on dependencies (DESIGN §2.5): models of library calls the analysed code makes.  Each handler
has the signature handler(ex, st, args, kwargs, fn) -> [(state, value | Exc)].  Every name used in a run is
recorded in `ex.assumed_used` so that the evidence can list it under trusted_base."""
from __future__ import annotations

from typing import Any, Dict, List

import z3

from pyvc import lists as L
from pyvc.values import (BuiltinV, ClassV, CoroV, DictObj, Exc, FuncV, ListObj, Obj, Opaque, Ref, Sc, SV, Tup,
                         Unsupported, mk_b, mk_i, mk_s, sv_bool, sv_none, sv_str)

LIBRARY: Dict[str, Any] = {}
ATTR_LIBRARY: Dict[str, Any] = {}
CLASS_HOOKS: Dict[str, Any] = {}


def lib(name):
    def deco(f):
        LIBRARY[name] = f
        return f
    return deco


def used(ex, name: str) -> None:
    if not hasattr(ex, "assumed_used"):
        ex.assumed_used = set()
    ex.assumed_used.add(name)


def install(ex) -> None:
    ex.assumed_used = set()


# ---------------------------------------------------------------------------------------------- logging (S5)
def _logger_attr(ex, st, v, attr):
    return [(st, Opaque("logcall"))]


ATTR_LIBRARY["global:*"] = lambda ex, st, v, attr: [(st, Opaque("logcall") if "logger" in v.tag else Opaque(f"{v.tag}.{attr}", v.data))]


@lib("logcall()")
def _logcall(ex, st, args, kwargs, fn):
    used(ex, "S5 logging calls neither raise nor change modelled state")
    return [(st, sv_none())]


# ---------------------------------------------------------------------------------------------- re (A-STDLIB)
@lib("re.compile")
def _re_compile(ex, st, args, kwargs, fn):
    pat = z3.simplify(Sc.sv(args[0].t))
    return [(st, Opaque("regex", pat.as_string() if z3.is_string_value(pat) else "?"))]


def _regex_attr(ex, st, v, attr):
    return [(st, Opaque(f"regex.{attr}", v.data))]


ATTR_LIBRARY["regex.sub"] = _regex_attr
ATTR_LIBRARY["regex.match"] = _regex_attr


@lib("regex.sub()")
def _regex_sub(ex, st, args, kwargs, fn):
    """pattern.sub(repl, s): an uninterpreted function of s per (pattern, repl) - nothing is assumed about it except
    that it returns a str (views may refine it, see C07)"""
    used(ex, "A-STDLIB re.Pattern.sub returns a str and is a function of its arguments")
    repl, s = args[0], args[1]
    h = getattr(ex, "regex_sub_hook", None)
    if h is not None:
        r = h(ex, st, fn.data, repl, s)
        if r is not None:
            return r
    f = z3.Function(f"re_sub_{abs(hash(fn.data)) % 100000}", z3.StringSort(), z3.StringSort())
    return [(st, SV(mk_s(f(Sc.sv(s.t))), "str"))]
