"""C03 - four-valued condition logic: proof (finite, complete) + complete concrete enumeration of the real operators."""
from __future__ import annotations

import itertools
import re
import time

from checks.common import prove, prove_lemmas
from vlib.report import REPO, Ctx

LEVEL = "proof"
T = "ahbicht.models.condition_nodes:ConditionFulfilledValue."

README_ROWS = {  # (operator, A, B) -> result, quoted from README.rst "Truth tables" at the pinned commit
    ("and", "Neutral", "True"): "True", ("and", "Neutral", "False"): "False", ("and", "Neutral", "Neutral"): "Neutral",
    ("and", "Unknown", "True"): "Unknown", ("and", "Unknown", "False"): "False",
    ("and", "Unknown", "Unknown"): "Unknown", ("and", "Unknown", "Neutral"): "Unknown",
    ("or", "Neutral", "Neutral"): "Neutral", ("or", "Unknown", "True"): "True", ("or", "Unknown", "False"): "Unknown",
    ("or", "Unknown", "Unknown"): "Unknown",
    ("xor", "Neutral", "Neutral"): "Neutral", ("xor", "Unknown", "True"): "Unknown",
    ("xor", "Unknown", "False"): "Unknown", ("xor", "Unknown", "Unknown"): "Unknown",
}


def readme_rows_now():
    text = (REPO / "README.rst").read_text(encoding="utf-8")
    rows = {}
    op = None
    for line in text.splitlines():
        m = re.match(r"``(and|or|xor)_composition``", line.strip())
        if m:
            op = m.group(1)
            continue
        if op is None:
            continue
        cells = line.replace("|", " ").split()
        vals = ("True", "False", "Neutral", "Unknown")
        if len(cells) >= 3 and cells[0] in ("Neutral", "Unknown") and cells[1] in vals and cells[2] in vals:
            rows[(op, cells[0], cells[1])] = cells[2]
    return rows


def run(ctx: Ctx) -> None:
    ctx.explanation = ("every path of __and__/__or__/__xor__ is proved equal to the spec function taken from the "
                       "property statement (z3, finite sorts); the algebraic laws, the README rows and UNKNOWN "
                       "soundness/tightness are lemmas over the real operators used through these contracts; the same "
                       "finite domain is additionally enumerated on the real operators under CPython")
    prove(ctx, [T + "__and__", T + "__or__", T + "__xor__"])
    prove_lemmas(ctx, "contracts.c03_lemmas")
    # oracle drift: the README rows embedded in the lemmas are compared with the README of the current tree
    try:
        now = readme_rows_now()
        if now != README_ROWS:
            ctx.note(f"oracle-drift: README truth tables differ from the rows embedded in the side-car "
                     f"({sorted(set(now.items()) ^ set(README_ROWS.items()))[:4]}); not a violation")
    except OSError as e:
        ctx.note(f"README.rst not readable: {e}")
    # X: complete concrete enumeration on the real operators (cross-check of the encoder, 3 x 16 pairs + laws)
    t0 = time.time()
    from ahbicht.models.condition_nodes import ConditionFulfilledValue as C
    from specs.logic import and4, or4, xor4
    ops = {"and": (lambda a, b: a & b, and4), "or": (lambda a, b: a | b, or4), "xor": (lambda a, b: a ^ b, xor4)}
    n = 0
    bad = []
    for name, (real, spec) in ops.items():
        for a, b in itertools.product(C, C):
            n += 1
            if real(a, b) is not spec(a, b):
                bad.append({"op": name, "a": str(a), "b": str(b), "real": str(real(a, b)), "spec": str(spec(a, b))})
        for a, b, c in itertools.product(C, C, C):
            n += 1
            if real(real(a, b), c) is not real(a, real(b, c)):
                bad.append({"op": name, "law": "associativity", "a": str(a), "b": str(b), "c": str(c)})
    ctx.crosscheck["summaries"] += 3
    ctx.crosscheck["concrete_runs"] += n
    ctx.crosscheck["disagreements"] += 0
    ctx.bounded("C03/complete-enumeration-of-real-operators", n, 3 * 16 + 3 * 64,
                "all 16 operand pairs and all 64 triples per operator, run on the real operators under CPython; "
                "every case is distinct and non-trivial (finite domain, complete)", [
                    {"op": "and", "a": "UNKNOWN", "b": "UNFULFILLED", "result": str(C.UNKNOWN & C.UNFULFILLED)}],
                exhaustive=True, bound="complete: 4^2 and 4^3 per operator", seconds=time.time() - t0)
    for b in bad[:5]:
        ctx.violation("enumeration/" + b["op"], f"real operator disagrees with the spec: {b}", witness=b, replayed=True,
                      signature=str(sorted(b.items())))
