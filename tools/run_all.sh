#!/bin/bash
# runs every registered check (quick tier unless TIER is set) and prints one line each
cd /verif
for p in $(python3 -c "import json;print(' '.join(c['property_id'] for c in json.load(open('MANIFEST.json'))['checks']))"); do
  out=$(./vcheck $p --tier ${TIER:-quick} 2>&1); code=$?
  echo "$p exit=$code $(echo "$out" | grep SUMMARY | cut -c1-200)"
  echo "$out" | grep -E "VIOLATION|UNDECIDED|CRASH" | head -5
done
