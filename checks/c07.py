"""C07 - the collected format-constraint expression: hybrid.  Proved: which constraint takes part, with which
operator, None-ness / well-formedness - over an abstract view of expression strings whose six parser axioms (X1-X6,
pyvc/fxview.py) are assumptions validated by the bounded part; decided end-to-end by the bounded API-level check."""
from checks.c04 import AROUND, CALLBACKS
from checks.common import prove, prove_lemmas, run_bounded
from vlib.report import Ctx

LEVEL = "other"


def run(ctx: Ctx) -> None:
    ctx.explanation = (
        "PROVED (z3, all operand nodes): every callback's format-constraint expression denotes join(op, view(left), "
        "view(right)) resp. for juxtaposition the attached key and-ed with the partner's view iff the partner is "
        "FULFILLED or a hint, and nothing otherwise; the result is None or a non-empty well-formed expression; the "
        "induction step to fc_spec of the property statement is a lemma over these contracts. The builder "
        "(FormatConstraintExpressionBuilder) is inlined. ASSUMED: the parser axioms X1-X6 relating the builder's five "
        "f-string skeletons, strip() and the bracket-stripping regex to the abstract term. BOUNDED: the axioms and the "
        "end-to-end statement (expression parses, only source keys, same Boolean value) on all expressions of the bound.")
    ctx.trust("A-LARK-FOLD", "X1-X6 parser axioms of pyvc/fxview.py (validated by the bounded part)")
    prove(ctx, CALLBACKS + AROUND[2:3])
    prove_lemmas(ctx, "contracts.c04_lemmas", ["step_and", "step_or", "step_xor", "step_then"])
    run_bounded(ctx, "C07")
