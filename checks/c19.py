"""C19 - JSON serialisation round-trips: exploration (bounded) plus ground conformance obligations generated from both
ASTs (attrs class <-> marshmallow schema).  marshmallow interprets declarative schema objects by reflection: a VC
through it is out of reach (DESIGN §6)."""
import ast
import time

from checks.common import prove, run_bounded, verifier
from vlib.report import Ctx

LEVEL = "exploration"
PAIRS = [("ahbicht.models.evaluation_results", "RequirementConstraintEvaluationResult"),
         ("ahbicht.models.evaluation_results", "FormatConstraintEvaluationResult"),
         ("ahbicht.models.evaluation_results", "AhbExpressionEvaluationResult"),
         ("ahbicht.models.content_evaluation_result", "ContentEvaluationResult"),
         ("ahbicht.models.categorized_key_extract", "CategorizedKeyExtract"),
         ("ahbicht.models.condition_nodes", "EvaluatedFormatConstraint")]


def _kw(call: ast.Call, name: str):
    for k in call.keywords:
        if k.arg == name:
            return k.value
    return None


def ground_obligations(ctx: Ctx) -> None:
    """for every field f: T of the attrs class: a schema field of the same name exists, and if T admits None the
    schema field accepts None on load (A-MARSHMALLOW: allow_none, or load_default=None which implies it)"""
    v = verifier()
    t0 = time.time()
    for modname, cls in PAIRS:
        mod = v.ex.repo.modules[modname]
        ci = mod.classes[cls]
        sch = mod.classes.get(cls + "Schema")
        if sch is None:
            ctx.obligation(f"schema/{cls}/exists", "undecided", backend="ground check on both ASTs",
                           detail="schema class not found")
            continue
        fields = {f.name: f for f in v.ex.repo.attrs_fields(cls)}
        sfields = {k: e for k, e in sch.class_attrs.items() if isinstance(e, ast.Call)}
        missing = [f for f in fields if f not in sfields]
        bad_none = []
        for name, f in fields.items():
            if name not in sfields:
                continue
            ann = ast.unparse(f.annotation) if f.annotation is not None else ""
            optional = ann.startswith("Optional[")
            call = sfields[name]
            allow = _kw(call, "allow_none")
            ld = _kw(call, "load_default")
            accepts_none = (isinstance(allow, ast.Constant) and allow.value is True) or \
                (allow is None and isinstance(ld, ast.Constant) and ld.value is None)
            if optional and not accepts_none:
                bad_none.append(name)
        ok = not missing and not bad_none
        ctx.obligation(f"schema/{cls}/every-field-has-a-schema-field-and-optional-fields-accept-null",
                       "discharged" if ok else "undecided", backend="ground check on both ASTs",
                       seconds=time.time() - t0,
                       detail=f"fields={sorted(fields)} missing={missing} optional-but-null-rejected={bad_none}")


def unsanitised_extracts(ctx: Ctx) -> None:
    """bounded: extracts as extract_categorized_keys_from_tree(tree) produces them WITHOUT sanitising (duplicates,
    written order) must round-trip unchanged as well"""
    import ahbicht.content_evaluation  # noqa: F401
    from ahbicht.expressions.condition_expression_parser import (extract_categorized_keys_from_tree,
                                                                 parse_condition_expression_to_tree)
    from ahbicht.models.categorized_key_extract import CategorizedKeyExtractSchema
    t0 = time.time()
    exprs = ["[3] U [1] U [2]", "[2] O ([501] U [2])[901]", "[10] U [9] U [10]", "[902][1] X [901][1]", "[502] U [501] U [502]",
             "[2000] U [3] U [2000]", "[3P] U [1P] U [3P]", "[UB2] U [UB1] U [UB2] U [1]", "[1]", "[501] U [1] U [901]",
             "([4] O [3]) U ([2] O [1])[905][904]"]
    schema = CategorizedKeyExtractSchema()
    n, distinct, bad = 0, set(), []
    for e in exprs:
        tree = parse_condition_expression_to_tree(e)
        for sanitize in (False, True):
            x = extract_categorized_keys_from_tree(tree, sanitize=sanitize) if "P]" not in e or True else None
            try:
                x = extract_categorized_keys_from_tree(tree, sanitize=sanitize)
            except NotImplementedError:
                continue
            n += 2
            distinct.add((e, sanitize))
            back = schema.load(schema.dump(x))
            back2 = schema.loads(schema.dumps(x))
            if back != x or back2 != x:
                bad.append({"expression": e, "sanitize": sanitize, "original": repr(x), "loaded": repr(back)})
    ctx.bounded("C19/unsanitised-key-extracts", n, len(distinct),
                "extracts of expressions with repeated / unordered keys, sanitised and not, through load(dump(x)) and "
                "loads(dumps(x)); distinct = distinct (expression, sanitize) pairs", [{"expression": exprs[1]}],
                exhaustive=True, bound=f"{len(exprs)} expressions", seconds=time.time() - t0)
    for b in bad[:3]:
        ctx.violation("bounded/unsanitised-key-extract-roundtrip",
                      f"CategorizedKeyExtract of {b['expression']!r} (sanitize={b['sanitize']}) does not round-trip: "
                      f"{b['original']} came back as {b['loaded']}", witness=b, replayed=True,
                      signature=f"cke|{b['expression']}|{b['sanitize']}")


JS = "ahbicht.json_serialization.tree_schema:"
EN = "ahbicht.models.enums:RequirementIndicatorSchema."
HOOKS = [JS + "TokenSchema.deserialize", JS + "TreeSchema.deserialize",
         JS + "_TokenOrTreeSchema.prepare_tree_for_serialization#tree", JS + "_TokenOrTreeSchema.prepare_tree_for_serialization#token",
         JS + "_TokenOrTreeSchema.deserialize#tree", JS + "_TokenOrTreeSchema.deserialize#token",
         "ahbicht.models.evaluation_results:RequirementConstraintEvaluationResultSchema.deserialize",
         "ahbicht.models.evaluation_results:FormatConstraintEvaluationResultSchema.deserialize",
         "ahbicht.models.evaluation_results:AhbExpressionEvaluationResultSchema.deserialize",
         "ahbicht.models.condition_nodes:EvaluatedFormatConstraintSchema.deserialize",
         "ahbicht.models.categorized_key_extract:CategorizedKeyExtractSchema.deserialize",
         EN + "post_dump", EN + "pre_load", EN + "post_load#modal", EN + "post_load#prefix"]


def run(ctx: Ctx) -> None:
    ctx.explanation = ("PROVED from the AST of the real hooks (contracts/serialization.py): every post_load constructor "
                       "returns an object of its class whose attributes are exactly the loaded fields of the same names "
                       "(nothing dropped, swapped, defaulted or coerced; null accepted where the class admits None); the "
                       "tree wrapper hooks are inverse to each other (a sub-tree / token wrapped on dump is the object "
                       "unwrapped on load); the requirement-indicator hooks write the upper-case value and load every "
                       "member's value as that member. marshmallow's own field (de)serialisation and hook dispatch stay "
                       "the assumed contract A-MARSHMALLOW, ContentEvaluationResultSchema.deserialize (enum coercion "
                       "loop) is bounded only. BOUNDED: round trips of every schema over small field domains and over "
                       "objects the real code produces; plus ground conformance obligations attrs class <-> schema")
    ctx.trust("A-MARSHMALLOW (field contracts)", "bounded: never counted as proved")
    prove(ctx, HOOKS)
    ground_obligations(ctx)
    run_bounded(ctx, "C19")
    unsanitised_extracts(ctx)
