import sys, z3
from checks.common import load_sidecars, verifier
from pyvc.contracts import REGISTRY
load_sidecars()
v=verifier()
tgt=[t for t in REGISTRY if sys.argv[1] in t][0]
for o in v.verify(tgt):
    if o.status=='violated':
        s,m=o.model
        print(o.name)
        for p in s.pc: print('  PC', z3.simplify(p))
        print(m)
        break
