"""Contracts for format-constraint evaluation (C08): the three FormatConstraintTransformer callbacks (the message
builder FormatErrorMessageExpressionBuilder is inlined), evaluate_format_constraint_tree,
format_constraint_evaluation and FcEvaluator.evaluate_single_format_constraint."""
import z3

from ahbicht.models.condition_nodes import EvaluatedFormatConstraint
from pyvc import assumed
from pyvc.contracts import Bool, DictOf, Inst, Opt, Raw, Str, contract
from pyvc.values import Opaque, Sc

T = "ahbicht.expressions.format_constraint_expression_evaluation:"
FT = T + "FormatConstraintTransformer."
SELF = Inst("FormatConstraintTransformer")


def efc():
    return Inst("EvaluatedFormatConstraint", format_constraint_fulfilled=Bool(), error_message=Opt(Str()))


def efc_j():
    """an evaluated format constraint satisfying J (the proviso of C08: unfulfilled ones carry a message, and the
    evaluators ahbicht ships produce (True, None) or (False, message))"""
    def mk(ex, st, name):
        ref = efc().make(ex, st, name)
        o = st.heap[ref.oid]
        st.assume(Sc.is_none(o.fields["error_message"].t) == Sc.bv(o.fields["format_constraint_fulfilled"].t))
        return ref
    return Raw(mk)


assumed.FOLD_RESULT["FormatConstraintTransformer"] = efc_j


def J(n):
    return (n.error_message is None) == n.format_constraint_fulfilled


def is_bool(x):
    return x is True or x is False


@contract(FT + "and_composition", prop=["C08"])
class FcAnd:
    runtime_checkable = True
    params = dict(self=SELF, left=efc(), right=efc())
    returns = efc()
    raises = {}

    def pre(self, left, right):
        return J(left) and J(right)

    def post_value(self, left, right, result):
        return is_bool(result.format_constraint_fulfilled) and result.format_constraint_fulfilled == \
            (left.format_constraint_fulfilled and right.format_constraint_fulfilled)

    def post_message_iff_unfulfilled(self, left, right, result):
        return J(result)

    def call_native(args):
        from ahbicht.expressions.format_constraint_expression_evaluation import FormatConstraintTransformer
        return FormatConstraintTransformer({}).and_composition(args["left"], args["right"])


@contract(FT + "or_composition", prop=["C08"])
class FcOr:
    runtime_checkable = True
    params = dict(self=SELF, left=efc(), right=efc())
    returns = efc()
    raises = {}

    def pre(self, left, right):
        return J(left) and J(right)

    def post_value(self, left, right, result):
        return is_bool(result.format_constraint_fulfilled) and result.format_constraint_fulfilled == \
            (left.format_constraint_fulfilled or right.format_constraint_fulfilled)

    def post_message_iff_unfulfilled(self, left, right, result):
        return J(result)

    def call_native(args):
        from ahbicht.expressions.format_constraint_expression_evaluation import FormatConstraintTransformer
        return FormatConstraintTransformer({}).or_composition(args["left"], args["right"])


@contract(FT + "xor_composition", prop=["C08"])
class FcXor:
    runtime_checkable = True
    params = dict(self=SELF, left=efc(), right=efc())
    returns = efc()
    raises = {}

    def pre(self, left, right):
        return J(left) and J(right)

    def post_value(self, left, right, result):
        return is_bool(result.format_constraint_fulfilled) and result.format_constraint_fulfilled == \
            (left.format_constraint_fulfilled != right.format_constraint_fulfilled)

    def post_message_iff_unfulfilled(self, left, right, result):
        return J(result)

    def call_native(args):
        from ahbicht.expressions.format_constraint_expression_evaluation import FormatConstraintTransformer
        return FormatConstraintTransformer({}).xor_composition(args["left"], args["right"])


def fc_input_values():
    return DictOf(lambda ex, st, name, i: Str().make(ex, st, name), lambda ex, st, name, i: efc_j().make(ex, st, name))


def tree_param():
    return Raw(lambda ex, st, name: Opaque("inst:Tree"))


@contract(T + "evaluate_format_constraint_tree", prop=["C08"])
class EvaluateFcTree:
    """returns exactly what the fold over the callbacks returned; VisitError never escapes"""
    params = dict(parsed_tree=tree_param(), input_values=fc_input_values())
    raises = {"ValueError": None}
    returns = efc_j()
    ghost_out = ["fold_root"]

    def post_is_fold_result(parsed_tree, input_values, result, ghost_fold_root):
        return result is ghost_fold_root


@contract(T + "_build_evaluated_format_constraint_nodes", prop=["C08", "C12"])
class BuildEfcNodes:
    """modular view: a mapping from keys to evaluated format constraints satisfying J, or whatever the user-supplied
    evaluators raise"""
    params = dict(evaluatable_format_constraint_keys=Raw(lambda ex, st, n: Opaque("keys")))
    raises = {"Exception": None, "NotImplementedError": None}
    returns = fc_input_values()


@contract(T + "format_constraint_evaluation", prop=["C08", "C09"])
class FormatConstraintEvaluation:
    """absent / empty expression counts as fulfilled without message; otherwise value and message of the root"""
    params = dict(format_constraints_expression=Opt(Str()))
    # an absent / empty expression is fulfilled WITHOUT anything being parsed or evaluated: nothing can be raised then
    raises = {"SyntaxError": "onlyif_there_is_an_expression", "ValueError": "onlyif_there_is_an_expression",
              "NotImplementedError": "onlyif_there_is_an_expression", "Exception": "onlyif_there_is_an_expression"}
    returns = Inst("FormatConstraintEvaluationResult", format_constraints_fulfilled=Bool(), error_message=Opt(Str()))
    ghost_specs = {"fold_root": efc_j}

    def onlyif_there_is_an_expression(format_constraints_expression):
        return format_constraints_expression is not None and format_constraints_expression != ""

    def post_empty_counts_as_fulfilled(format_constraints_expression, result):
        if format_constraints_expression is None or format_constraints_expression == "":
            return result.format_constraints_fulfilled is True and result.error_message is None
        return True

    def post_value_and_message_of_root(format_constraints_expression, result, ghost_fold_root):
        if format_constraints_expression is None or format_constraints_expression == "":
            return True
        return result.format_constraints_fulfilled == ghost_fold_root.format_constraint_fulfilled \
            and result.error_message == ghost_fold_root.error_message

    def post_message_iff_unfulfilled(format_constraints_expression, result):
        return (result.error_message is None) == result.format_constraints_fulfilled

    def setup(ex, st, values):
        # ghost default so that the clause can be evaluated on the paths that never fold
        st.ghost["fold_root"] = efc_j().make(ex, st, "unused_root")


def _evaluation_method(ex, st, name, i):
    return Opaque("evalmethod", {"is_async": ex.fresh(name + ".is_async", z3.BoolSort()), "not_none": True})


def _evalmethod_call(ex, st, args, kwargs, fn):
    """user-supplied evaluate_<key> method: returns an EvaluatedFormatConstraint (precondition of the evaluator
    framework) or raises anything; an `async def` method returns a coroutine that does so when awaited"""
    from pyvc.values import CoroV
    st.log.append(("evalmethod-arg", list(args)))
    st.ghost["evalmethod_arg"] = args[0] if args else None
    is_async = fn.data.get("is_async") if isinstance(fn.data, dict) else None
    if is_async is not None and not ex.feasible(st.pc + [z3.Not(is_async)]):
        return [(st, CoroV(Opaque("evalmethod-run"), [], {}))]
    return _evalmethod_run(ex, st, args, kwargs, fn)


def _evalmethod_run(ex, st, args, kwargs, fn):
    outs = [ex.raise_(st.fork(), "Exception", None)]
    outs.append((st, efc().make(ex, st, "evaluated")))
    return outs


assumed.LIBRARY["evalmethod-run()"] = _evalmethod_run
assumed.LIBRARY["evalmethod()"] = _evalmethod_call


@contract("ahbicht.content_evaluation.fc_evaluators:FcEvaluator.evaluate_single_format_constraint", prop=["C08", "C15"])
class EvaluateSingleFc:
    """an unfulfilled single constraint always carries a message afterwards (default message); the text handed to the
    evaluation method is the context-local text (C15)"""
    params = dict(self=Inst("FcEvaluator", _evaluation_methods=DictOf(lambda ex, st, n, i: Str().make(ex, st, n),
                                                                      _evaluation_method),
                            logger=Raw(lambda ex, st, n: Opaque("logging.logger"))),
                  condition_key=Str())
    raises = {"NotImplementedError": "raises_no_method", "Exception": None}

    def hook(ex, st, bound):
        from contracts.evaluators import _fc_hook
        return _fc_hook(ex, st, bound)

    def raises_no_method(self, condition_key):
        return condition_key not in self._evaluation_methods

    clause_props = {"post_method_sees_context_text": ["C15"], "post_unfulfilled_has_message": ["C08"]}

    def post_unfulfilled_has_message(self, condition_key, result):
        return not (result.format_constraint_fulfilled is False) or result.error_message is not None

    def post_method_sees_context_text(self, condition_key, result, ghost_evalmethod_arg, ghost_ctx):
        """C15: the evaluation method is handed the context-local text (ContextVar.get in the current context)"""
        return ghost_evalmethod_arg is ghost_ctx or ghost_evalmethod_arg == ghost_ctx
