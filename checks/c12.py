"""C12 - results do not depend on the completion order of asynchronous evaluators: hybrid.
P (given A-ASYNCIO): association obligations at the gather sites; frame obligations (syntactic write sets).
B: adversarial schedules on the real event loop; gather_if_necessary and the placeholder replacement pass."""
import time

from checks.common import guarded, list_theory_obligations, prove, run_bounded, verifier
from pyvc.frames import functions_of, write_set
from vlib.report import Ctx

LEVEL = "other"
TARGETS = ["ahbicht.content_evaluation.rc_evaluators:RcEvaluator.evaluate_conditions",
           "ahbicht.content_evaluation.fc_evaluators:FcEvaluator.evaluate_format_constraints",
           "ahbicht.expressions.hints_provider:HintsProvider.get_hints",
           "ahbicht.condition_node_builder:ConditionNodeBuilder._build_unevaluated_format_constraint_nodes",
           "ahbicht.condition_node_builder:ConditionNodeBuilder._build_requirement_constraint_nodes",
           "ahbicht.condition_node_builder:ConditionNodeBuilder._build_hint_nodes",
           "ahbicht.condition_node_builder:ConditionNodeBuilder.requirement_content_evaluation_for_all_condition_keys",
           "ahbicht.expressions.format_constraint_expression_evaluation:_build_evaluated_format_constraint_nodes#body"]

FRAME_MODULES = ["ahbicht.content_evaluation.rc_evaluators", "ahbicht.content_evaluation.fc_evaluators",
                 "ahbicht.expressions.hints_provider", "ahbicht.expressions.expression_resolver",
                 "ahbicht.expressions.ahb_expression_evaluation", "ahbicht.utility_functions", "ahbicht.content_evaluation",
                 "ahbicht.condition_node_builder", "ahbicht.validation.validation",
                 "ahbicht.expressions.requirement_constraint_expression_evaluation",
                 "ahbicht.expressions.format_constraint_expression_evaluation", "ahbicht.expressions.expression_builder",
                 "ahbicht.expressions.package_expansion", "ahbicht.content_evaluation.evaluators",
                 "ahbicht.expressions.base_transformer", "ahbicht.expressions.condition_expression_parser",
                 "ahbicht.expressions.ahb_expression_parser", "ahbicht.models.categorized_key_extract",
                 "ahbicht.content_evaluation.token_logic_provider", "ahbicht.content_evaluation.evaluator_factory"]

# write -> why a concurrently running coroutine cannot observe it  ("function|written expression": prefix match, or
# "*.attribute" = a store to that attribute through whatever local name)
MODIFIES = {
    "ahbicht.content_evaluation.fc_evaluators:FcEvaluator.evaluate_single_format_constraint|result.error_message":
        "the object just returned by the user's evaluation method (its default message); not shared by ahbicht",
    "ahbicht.expressions.expression_resolver:_replace_sub_coroutines_with_awaited_results|sub_tree.children[":
        "children of the tree this very call received from PackageExpansionTransformer().transform (a fresh tree)",
    "ahbicht.expressions.ahb_expression_evaluation:AhbExpressionTransformer._ahb_expression_async|*.requirement_is_conditional":
        "a result object produced by this evaluation's own parts (fresh per evaluation)",
    "ahbicht.content_evaluation:is_valid_expression.evaluate_with_cer|single_invalid_expression_error.invalid_expression":
        "the exception object raised inside this coroutine",
    "ahbicht.condition_node_builder:ConditionNodeBuilder.requirement_content_evaluation_for_all_condition_keys|attribute_error.args":
        "the exception object caught in this coroutine",
    "ahbicht.validation.validation:validate_data_element_freetext|fc_evaluators.text_to_be_evaluated_by_format_constraint.set(":
        "a ContextVar: context-local; every gathered coroutine runs in its own copy of the context (A-ASYNCIO M2)",
    "ahbicht.validation.validation:validate_data_element_valuepool|data_element.entered_input":
        "the data element this call validates; every element is validated by exactly one coroutine (C13)",
    "ahbicht.expressions.requirement_constraint_expression_evaluation:RequirementConstraintTransformer.or_composition|evaluated_composition.":
        "the EvaluatedComposition _or_xor_composition just created (fresh by its contract)",
    "ahbicht.expressions.requirement_constraint_expression_evaluation:RequirementConstraintTransformer.xor_composition|evaluated_composition.":
        "the EvaluatedComposition _or_xor_composition just created (fresh by its contract)",
    "ahbicht.expressions.expression_builder:|self._expression":
        "expression builders are created, used and dropped inside one transformer callback",
    "ahbicht.expressions.expression_builder:|self.format_constraint_fulfilled":
        "expression builders are created, used and dropped inside one transformer callback",
    "ahbicht.models.categorized_key_extract:CategorizedKeyExtract._remove_duplicates|self.":
        "sanitize is applied to an extract created by the same call chain",
    "ahbicht.models.categorized_key_extract:CategorizedKeyExtract._sort_keys|self.":
        "sanitize is applied to an extract created by the same call chain",
    "ahbicht.expressions.package_expansion:ContentEvaluationResultBasedPackageResolver._get_condition_expression|content_evaluation_result.packages":
        "the ContentEvaluationResult deserialised two lines above in the same call",
    "ahbicht.content_evaluation.evaluator_factory:_set_edifact_format_and_version|logic_provider.":
        "set-up code, runs before any evaluation",
}


def _covers(pattern: str, written: str) -> bool:
    """`prefix...` : the written expression starts with it; `*.attr` : it is a store to that attribute of any object
    (the name of the local through which it is reached does not matter)"""
    if pattern.startswith("*."):
        return written.endswith(pattern[1:])
    return written.startswith(pattern)


def frame_obligations(ctx: Ctx) -> None:
    v = verifier()
    t0 = time.time()
    n_fn = 0
    for m in FRAME_MODULES:
        mod = v.ex.repo.modules.get(m)
        if mod is None:
            ctx.obligation(f"frame/{m}", "undecided", backend="syntactic write-set analysis", detail="module not found")
            continue
        for q, fn in functions_of(mod.tree, m).items():
            if q.split(".")[-1] == "__init__":
                continue  # initialises the object under construction
            n_fn += 1
            undeclared = []
            for what, line, kind in write_set(fn):
                if not any(q.startswith(k.split("|")[0]) and _covers(k.split("|")[1], what) for k in MODIFIES):
                    undeclared.append(f"{what} (line {line})")
            if undeclared:
                ctx.obligation(f"frame/{q}", "undecided", backend="syntactic write-set analysis",
                               detail="writes outside its frame that no `modifies` entry covers: " + "; ".join(undeclared))
    ctx.obligation("frame/all-functions-write-only-their-frame-or-declared-objects", "discharged",
                   backend="syntactic write-set analysis", seconds=time.time() - t0,
                   detail=f"{n_fn} functions of {len(FRAME_MODULES)} modules; {len(MODIFIES)} declared modifies entries")


def inject_obligations(ctx: Ctx) -> None:
    """second sentence of C12 (context-local evaluatable data): every function that needs EvaluatableData gets it from
    the injector AT CALL TIME inside the coroutine that uses it (A-INJECT), i.e. (a) it is declared with
    @inject.params(evaluatable_data=EvaluatableDataProvider), (b) no caller inside ahbicht passes the argument
    explicitly unless it forwards its own injected parameter, (c) the data is never stored in an attribute or global"""
    import ast
    v = verifier()
    t0 = time.time()
    injected = {}
    for name, mod in v.ex.repo.modules.items():
        if not name.startswith("ahbicht"):
            continue
        for q, fn in functions_of(mod.tree, name).items():
            for d in fn.decorator_list:
                if isinstance(d, ast.Call) and ast.unparse(d.func) == "inject.params":
                    for kw in d.keywords:
                        if kw.arg == "evaluatable_data":
                            injected[fn.name] = q
    problems = []
    for name, mod in v.ex.repo.modules.items():
        if not name.startswith("ahbicht"):
            continue
        for q, fn in functions_of(mod.tree, name).items():
            own = {a.arg for a in fn.args.args + fn.args.kwonlyargs}
            for node in ast.walk(fn):
                if isinstance(node, ast.Call):
                    callee = node.func.attr if isinstance(node.func, ast.Attribute) else getattr(node.func, "id", None)
                    if callee in injected:
                        for kw in node.keywords:
                            if kw.arg == "evaluatable_data" and not (isinstance(kw.value, ast.Name)
                                                                     and kw.value.id == "evaluatable_data"
                                                                     and "evaluatable_data" in own):
                                problems.append(f"{q}: passes evaluatable_data={ast.unparse(kw.value)} to {callee}")
                if isinstance(node, (ast.Assign, ast.AnnAssign)):
                    tg = node.targets if isinstance(node, ast.Assign) else [node.target]
                    val = getattr(node, "value", None)
                    if val is not None and any(isinstance(n, ast.Name) and n.id == "evaluatable_data" for n in ast.walk(val)) \
                            and any(isinstance(t, (ast.Attribute, ast.Subscript)) for t in tg):
                        problems.append(f"{q}: stores evaluatable data in {ast.unparse(tg[0])}")
                if isinstance(node, ast.Global):
                    problems.append(f"{q}: global {', '.join(node.names)}")
    expected = {"_build_hint_nodes", "_build_requirement_constraint_nodes", "_build_evaluated_format_constraint_nodes",
                "_package_async"}
    missing = sorted(expected - set(injected))
    ok = not problems and not missing
    ctx.obligation("inject/evaluatable-data-is-obtained-at-call-time-inside-the-using-coroutine",
                   "discharged" if ok else "undecided", backend="syntactic call-site analysis", seconds=time.time() - t0,
                   detail=f"injected functions: {sorted(injected.values())}; problems: {problems[:4]}; "
                          f"expected but not injected any more: {missing}")


def run(ctx: Ctx) -> None:
    ctx.explanation = (
        "PROVED relative to A-ASYNCIO (gather returns results in argument order whatever the completion order; tasks "
        "interleave only at await; every gathered coroutine runs in a copy of the caller's context): at each gather "
        "site the key list and the result list are paired index by index, so every key is mapped to the value of its "
        "own task (single evaluations modelled as functions of the key); ConditionNodeBuilder gives every key the node "
        "built from its own value. FRAME obligations (syntactic, whole code base around the gather sites): no function "
        "writes anything but its locals, objects it created, or an explicitly declared object that no concurrent "
        "coroutine can observe - so the order of forcing cannot be observed. gather_if_necessary's OWN BODY is proved "
        "for lists of any length (loop invariant on the counter + theory of filtered sequences, whose three inductive "
        "lemmas are proved each run). NOT REACHABLE by contracts: that CPython's event loop implements A-ASYNCIO, and "
        "the identity-based placeholder replacement - decided by the bounded adversarial schedules on the real loop.")
    ctx.trust("A-ASYNCIO (M1-M4)", "A-INJECT", "single evaluations are functions of the key (user code)",
              "_replace_sub_coroutines_with_awaited_results: bounded only")
    prove(ctx, TARGETS)
    # own body of gather_if_necessary for a list of ANY length: loop invariant (side-car) + filtered-sequence theory
    list_theory_obligations(ctx)
    prove(ctx, ["ahbicht.utility_functions:gather_if_necessary#loop"])
    # the same body once more, for every awaitability pattern of lists up to length 4 with symbolic contents: bounded by
    # length (labelled so), kept because its counter-models replay directly and it does not depend on the invariant
    prove(ctx, ["ahbicht.utility_functions:gather_if_necessary#body"], kind="B (bounded by list length <= 4, symbolic contents)")
    ctx.assume("gather_if_necessary#body obligations are bounded by list length <= 4 (all 31 awaitability patterns, "
               "symbolic contents); the unbounded statement is gather_if_necessary#loop")
    frame_obligations(ctx)
    inject_obligations(ctx)
    run_bounded(ctx, "C12")
    # every concurrent evaluation of is_valid_expression is handed ITS OWN content evaluation result (last sentence of C12)
    from bounded import setter_pairing
    guarded(ctx, "C12", lambda: setter_pairing.run(ctx, "C12"), what="setter-pairing harness")
