"""C20 bounded stand-in: the shipped date/time format constraints 931–935 judge the instant, not its notation.

(a) COMPLETE: pytz' Europe/Berlin transition table 1996-01-01…2037-12-31 == the EU rule of specs/dt_spec (84 entries).
(b) string side through the real `FcEvaluator.evaluate_931..935`: days × instants × 8 notations of the same instant.
(c) malformed / naive / empty / edge strings: never raises; "other" strings are unfulfilled with a message.
The oracle (specs/dt_spec.py) is pure integer arithmetic written from the property statement.
"""
from __future__ import annotations

import random
import time
from typing import Any, Dict, List, Optional, Tuple

from efoli import EdifactFormat, EdifactFormatVersion

from bounded.common import configure_inject, in_fresh_child as common_in_fresh_child, pmap, run as run_coro
from specs import dt_spec as S

DAY = S.DAY
FCS = ("931", "932", "933", "934", "935")
MAXV = 5

REPLAY_PRELUDE = (
    "from efoli import EdifactFormat, EdifactFormatVersion\n"
    "import ahbicht.content_evaluation\n"
    "from ahbicht.content_evaluation.fc_evaluators import FcEvaluator\n"
    "class Fc(FcEvaluator):\n"
    "    edifact_format = EdifactFormat.UTILMD\n"
    "    edifact_format_version = EdifactFormatVersion.FV2210\n"
    "ev = Fc()\n"
)

_EV = None


def _evaluator():
    """A minimal concrete FcEvaluator: nothing but the predefined evaluate_931..935 of the base class."""
    global _EV
    if _EV is None:
        import ahbicht.content_evaluation  # noqa: F401
        from ahbicht.content_evaluation.fc_evaluators import FcEvaluator

        class _MinimalFcEvaluator(FcEvaluator):
            edifact_format = EdifactFormat.UTILMD
            edifact_format_version = EdifactFormatVersion.FV2210

        _EV = _MinimalFcEvaluator()
    return _EV


def _call(key: str, text: str) -> Tuple[str, Any, Any]:
    """('ok', fulfilled, message) or ('raised', ExceptionClassName, str(exception)) or ('badtype', repr, None)."""
    from ahbicht.models.condition_nodes import EvaluatedFormatConstraint
    method = getattr(_evaluator(), "evaluate_" + key)
    try:
        res = method(text)
    except Exception as exc:  # noqa: the property says: no string input makes these constraints raise
        return ("raised", type(exc).__name__, str(exc)[:200])
    if not isinstance(res, EvaluatedFormatConstraint) or not isinstance(res.format_constraint_fulfilled, bool):
        return ("badtype", repr(res)[:200], None)
    return ("ok", res.format_constraint_fulfilled, res.error_message)


def _expected(key: str, u: int, o: int) -> bool:
    if key == "931":
        return S.fc931(o)
    if key in ("932", "933"):
        return S.strom(u)
    return S.gas(u)


# ------------------------------------------------------------------------------------------------ (b) sweep
def _check_instant(u: int) -> Tuple[int, List[dict]]:
    """All 8 notations × 5 constraints of one instant; returns (#evaluations, failures)."""
    fails: List[dict] = []
    n = 0
    verdicts: Dict[str, Dict[str, Any]] = {k: {} for k in FCS}
    for label, o, zulu in S.NOTATIONS:
        text = S.render(u, o, zulu)
        for key in FCS:
            n += 1
            kind, a, b = _call(key, text)
            if kind != "ok":
                fails.append({"clause": "raises-nothing" if kind == "raised" else "returns-EvaluatedFormatConstraint",
                              "fc": key, "input": text, "u": u, "offset": o, "observed": [kind, a, b],
                              "expected": "an EvaluatedFormatConstraint"})
                continue
            verdicts[key][text] = a
            exp = _expected(key, u, o)
            if a != exp:
                fails.append({"clause": "931-fulfilled-iff-zero-offset" if key == "931" else "verdict-equals-spec",
                              "fc": key, "input": text, "u": u, "offset": o, "observed": a, "expected": exp})
            has_msg = isinstance(b, str) and len(b) > 0
            if has_msg == a:  # message present iff unfulfilled
                fails.append({"clause": "message-iff-unfulfilled", "fc": key, "input": text, "u": u, "offset": o,
                              "observed": {"fulfilled": a, "message": b}, "expected": "message iff unfulfilled"})
    for key in FCS[1:]:
        vs = verdicts[key]
        if len(set(vs.values())) > 1:
            t_true = min(t for t, v in vs.items() if v)
            t_false = min(t for t, v in vs.items() if not v)
            fails.append({"clause": "notation-invariance", "fc": key, "input": t_true, "other_input": t_false, "u": u,
                          "observed": "verdicts differ for two notations of the same instant", "expected": "equal"})
    return n, fails


def _sweep_chunk(chunk: List[int]) -> Tuple[int, List[dict]]:
    total = 0
    fails: List[dict] = []
    for u in chunk:
        n, f = _check_instant(u)
        total += n
        if f and len(fails) < 40:
            fails.extend(f)
    return total, fails


def _instants(tier: str) -> Tuple[List[int], int, List[int]]:
    """(sorted distinct instants, number of days, switch days)"""
    d0, d1 = S.days_from_civil(1996, 1, 1), S.days_from_civil(2037, 12, 31)
    switch_by_day = {sw // DAY: sw for sw, _ in S.SWITCHES}
    if tier == "thorough":
        days = list(range(d0, d1 + 1))
    else:
        near = {d + k for d in switch_by_day for k in (-1, 0, 1)}
        days = [d for d in range(d0, d1 + 1) if d in near or (d - d0) % 7 == 0]
    written_offsets = sorted({o for _, o, _ in S.NOTATIONS})
    out = set()
    for d in days:
        base = d * DAY
        for wall in (0, 21600):
            for delta in (-1, 0, 1):
                out.update(S.local_to_instants(base + wall + delta))      # 00:00:00 / 06:00:00 German local ± 1 s
            for o in written_offsets:
                out.add(base + wall - o)          # the instant that READS 00:00:00 / 06:00:00 when written with offset o
        out.update(S.local_to_instants(base + 43200))                      # noon German local
        if tier == "thorough":
            out.update(base + h * 3600 for h in range(24))                  # every full hour (UTC) of the day
        if d in switch_by_day:
            sw = switch_by_day[d]
            wall = base + 2 * 3600 + 1800                                  # 02:30 local: gap in March, twice in October
            out.update((wall - S.CET, wall - S.CEST))
            out.update(sw + k for k in (-3600, -1, 0, 1, 3600))
    inst = sorted(u for u in out if S.U_MIN <= u <= S.U_MAX)
    return inst, len(days), sorted(switch_by_day)


def _nontrivial(u: int, switch_days: set) -> bool:
    loc = u + S.eu_offset(u)
    return loc % DAY in (86399, 0, 1, 21599, 21600, 21601) or u // DAY in switch_days or loc // DAY in switch_days


# ------------------------------------------------------------------------------------------------ (c) strings
def _offsets_half_hours() -> List[int]:
    return list(range(-12 * 3600, 14 * 3600 + 1, 1800))


def _other_strings() -> List[Tuple[str, str]]:
    """[(string, class)]: class 'other' = not an ISO-8601 datetime with offset → must be unfulfilled with a message
    for all five constraints; class 'no-raise' = must not raise (verdict not fixed by the statement)."""
    other: List[str] = ["", " ", "  ", "\t", "\n", "\x00", "None", "null", "NaN", "nan", "undefined", "0", "1", "-1",
                        "true", "abc", "Z", "ZZ", "z", "T", "TZ", "+00:00", "-00:00", "+01:00", "00:00:00+00:00",
                        "00:00:00Z", "T00:00:00Z", "2022", "2022-", "2022-01", "2022-01-", "2022-01-01",
                        "2022-01-01T", "2022-01-01Z", "2022-01-01+01:00", "1640991600", "1640991600.0",
                        "01.01.2022 00:00:00", "01.01.2022", "01/01/2022 00:00:00 +01:00", "2022/01/01T00:00:00+01:00",
                        "Sat, 01 Jan 2022 00:00:00 +0100", "Saturday", "now", "today", "gestern", "Stromtag", "Gastag",
                        "🕛", "二〇二二年一月一日", "２０２２-01-01T00:00:00+00:00", "2022-01-01T00:00:00+００:００",
                        "2022-01-01T00:00:00Zulu", "2022-01-01T00:00:00UTC", "2022-01-01T00:00:00 UTC",
                        "2022-01-01T00:00:00GMT", "2022-01-01T00:00:00CET", "2022-01-01T00:00:00 Europe/Berlin",
                        "2022-01-01T00:00:00[Europe/Berlin]", "2022-01-01T00:00:00+01:00[Europe/Berlin]",
                        "2022-01-01T00:00:00ZZ", "Z2022-01-01T00:00:00Z", "2022-01-01T00:00:00Z ", " 2022-01-01T00:00:00Z",
                        "2022-01-01T00:00:00+01:00 ", " 2022-01-01T00:00:00+01:00", "2022-01-01T00:00:00+01:00\n",
                        "\n2022-01-01T00:00:00+01:00", "2022-01-01T00:00:00+ 01:00",
                        "2022-01-01T00:00:00+01:00Z", "2022-01-01T00:00:00Z+01:00", "2022-01-01T00:00:00++01:00",
                        "2022-01-01T00:00:00+-01:00", "2022-01-01T00:00:00±01:00", "2022-01-01T00:00:00−01:00",
                        "2022-01-01T00:00:00+1:00", "2022-01-01T00:00:00+1", "2022-01-01T00:00:00+001:00",
                        "2022-01-01T00:00:00+01:0", "2022-01-01T00:00:00+01:", "2022-01-01T00:00:00+", "2022-01-01T00:00:00-",
                        "2022-01-01T00:00:00+aa:bb", "2022-01-01T00:00:00+24:00", "2022-01-01T00:00:00-24:00",
                        "2022-01-01T00:00:00+25:00", "2022-01-01T00:00:00+99:99", "2022-01-01T00:00:00+01:60",
                        "2022-01-01T00:00:00+01:99", "2022-01-01T00:00:00+01:00:60", "2022-01-01T0:00:00+01:00",
                        "2022-01-01T00:0:00+01:00", "2022-01-01T00:00:0+01:00", "2022-1-01T00:00:00+01:00",
                        "2022-01-1T00:00:00+01:00", "22-01-01T00:00:00+01:00", "02022-01-01T00:00:00+01:00",
                        "12022-01-01T00:00:00+01:00", "-2022-01-01T00:00:00+01:00", "+2022-01-01T00:00:00+01:00",
                        "0000-01-01T00:00:00+00:00", "0000-12-31T23:00:00-01:00", "10000-01-01T00:00:00+00:00",
                        "2022-00-01T00:00:00+01:00", "2022-13-01T00:00:00+01:00", "2022-01-00T00:00:00+01:00",
                        "2022-01-32T00:00:00+01:00", "2022-02-29T00:00:00+01:00", "2022-02-30T00:00:00+01:00",
                        "2100-02-29T00:00:00+01:00", "2022-04-31T00:00:00+02:00", "2022-06-31T00:00:00+02:00",
                        "2022-09-31T00:00:00+02:00", "2022-11-31T00:00:00+01:00", "2022-01-01T24:00:00+01:00",
                        "2022-01-01T24:00:01+01:00", "2022-01-01T25:00:00+01:00", "2022-01-01T00:60:00+01:00",
                        "2022-01-01T00:00:60+01:00", "2022-01-01T00:00:61Z", "2022-01-01T23:59:60Z",
                        "2022-01-01T-1:00:00+01:00", "2022-01-01T00:-1:00+01:00", 
                        "2022-01-01T00:00:00.abc+01:00", "2022-01-01T00;00;00+01:00",
                        "2022-01-01T00.00.00+01:00", "2022_01_01T00:00:00+01:00", "2022-01-01TT00:00:00+01:00",
                        "2022-01-01  00:00:00+01:00", "2022-01-01T00:00:00+01:00+01:00",
                        "2022-01-01T00:00:00+01:00/2022-01-02T00:00:00+01:00", "2022-01-01T00:00:00+01:00,2022-01-02T00:00:00+01:00",
                        "P1D", "PT0S", "R/2022-01-01T00:00:00Z/P1D", "2022-W53-1T00:00:00+01:00", "2022-W00-1T00:00:00+01:00",
                        "2022-W01-8T00:00:00+01:00", "2022-W01-0T00:00:00+01:00", "2022-366T00:00:00+01:00",
                        "2022-01-01T00:00:00+01:00" * 2, "x" * 1000, "2022-01-01T00:00:00" + "+01:00" * 50,
                        "{}", "[]", "()", "''", '""', "'2022-01-01T00:00:00+01:00'", '"2022-01-01T00:00:00Z"',
                        "<2022-01-01T00:00:00Z>", "\x002022-01-01T00:00:00Z", "﻿2022-01-01T00:00:00Z",
                        "2022-01-01T00:00:00Z​", "2022‑01‑01T00:00:00Z", "2022-01-01T00∶00∶00Z",
                        "%Y-%m-%dT%H:%M:%S%z", "{0}", "%s", "\\", "/", "-", "+", ":", "."]
    # naive datetimes (no offset at all): "without offset" is named explicitly by the statement
    naive: List[str] = []
    for day in ("2022-01-01", "2022-03-27", "2022-10-30", "1996-01-01", "2037-12-31", "0001-01-01", "9999-12-31", "2024-02-29"):
        for tod in ("T00:00:00", "T06:00:00", "T23:00:00", "T22:00:00", "T05:00:00", "T04:00:00", "T12:00:00",
                    " 00:00:00", "T00:00", "T00", "T00:00:00.000", "T00:00:00.000000", "T000000", "T0000"):
            naive.append(day + tod)
    naive += ["20220101T000000", "20220101", "2022-W01-1", "2022-W01-1T00:00:00", "2022-001", "2022-01-01t00:00:00"]
    out = [(s, "other") for s in other] + [(s, "other") for s in naive]
    # notations whose status as "ISO-8601 datetime with offset" is debatable: only "never raises" is demanded
    debatable = ["2022-01-01T00:00:00z", "2022-01-01t00:00:00+01:00", "2022-01-01t00:00:00Z", "2022-01-01 00:00:00+01:00",
                 "2022-01-01 00:00:00Z", "2022-01-01_00:00:00+01:00", "2022-01-01T00:00:00+0100", "2022-01-01T00:00:00+01",
                 "20220101T000000+0100", "20220101T000000Z", "20220101T00+01", "2022-01-01T00:00+01:00", "2022-01-01T00+01:00",
                 "2022-01-01T00:00:00.000+01:00", "2022-01-01T00:00:00.000000+01:00", "2022-01-01T00:00:00,5+01:00",
                 "2022-01-01T00:00:00.123456789+01:00", "2022-01-01T00:00:00+01:00:00", "2022-01-01T00:00:00+01:00:30",
                 "2022-01-01T00:00:00+01:00:00.000001", "2022-01-01T00:00:00+00:00:00", "2022-01-01T00:00:00-00:00",
                 "2022-01-01T00:00:00+23:59", "2022-01-01T00:00:00-23:59", "2022-01-01T00:00:00+23:59:59",
                 "2022-W01-1T00:00:00+01:00", "2022-W52-7T23:00:00Z", "2022-001T00:00:00+01:00", "2022-01-01Z00:00:00Z",
                 "2022-01-01Z00:00:00+01:00", "2022-01-01€00:00:00+01:00",
                 "2022-01-01T24:00:00Z", "2022-01-01T24:00:00+00:00", "9999-12-31T23:00:00+00:00", "9999-12-31T22:00:00Z",
                 "9999-12-31T23:59:59Z", "0001-01-01T00:00:00Z", "0001-01-01T00:00:00+01:00", "0001-01-01T00:00:00+00:53:28",
                 "0001-01-01T00:53:28+00:53:28", "0001-01-01T00:00:00+23:59", "9999-12-31T23:59:59-23:59",
                 "1969-12-31T23:00:00Z", "1970-01-01T00:00:00+01:00", "1893-03-31T23:06:32Z", "1945-05-24T00:00:00+03:00",
                 "1980-04-06T00:00:00+01:00", "1995-09-24T00:00:00+02:00", "2038-01-19T03:14:08Z", "2038-01-01T00:00:00+01:00",
                 "2100-07-01T00:00:00+02:00", "2100-07-01T00:00:00+01:00"]
    # not ISO-8601, but CPython 3.12's datetime.fromisoformat accepts them (blank before the offset, empty fraction,
    # everything after a NUL ignored): "unparsable" is relative to the trusted parser (A-DATETIME), so only "never
    # raises" is demanded; reported to the maintainers of the harness as doubtful cases
    debatable += ["2022-01-01T00:00:00 +01:00", "2022-01-01T00:00:00.+01:00", "2022-01-01T00:00:00.Z",
                  "2022-01-01T00:00:00Z\x00"]
    out += [(s, "no-raise") for s in debatable]
    # the edges of the representable range with every offset −12:00 … +14:00 (half-hour steps): conversion to UTC or
    # to German local time leaves datetime.min/max for many of them
    for o in _offsets_half_hours():
        off = S.fmt_offset(o)
        out.append(("0001-01-01T00:00:00" + off, "edge"))
        out.append(("9999-12-31T23:59:59" + off, "edge"))
    for o in range(-12 * 3600, 14 * 3600 + 1, 3600):
        off = S.fmt_offset(o)
        out.append(("0001-01-01T12:34:56" + off, "edge"))
        out.append(("9999-12-31T12:34:56" + off, "edge"))
    seen = set()
    uniq = []
    for s, c in out:
        if s not in seen:
            seen.add(s)
            uniq.append((s, c))
    return uniq


def _check_string(item: Tuple[str, str]) -> List[dict]:
    text, cls = item
    fails: List[dict] = []
    for key in FCS:
        kind, a, b = _call(key, text)
        if kind != "ok":
            fails.append({"clause": "raises-nothing" if kind == "raised" else "returns-EvaluatedFormatConstraint",
                          "fc": key, "input": text, "class": cls, "observed": [kind, a, b],
                          "expected": "an unfulfilled EvaluatedFormatConstraint with a message, no exception"})
            continue
        has_msg = isinstance(b, str) and len(b) > 0
        if cls == "other" and (a is not False or not has_msg):
            fails.append({"clause": "other-string-unfulfilled-with-message", "fc": key, "input": text, "class": cls,
                          "observed": {"fulfilled": a, "message": b}, "expected": "unfulfilled with a non-empty message"})
        elif a is False and not has_msg:
            fails.append({"clause": "unfulfilled-has-message", "fc": key, "input": text, "class": cls,
                          "observed": {"fulfilled": a, "message": b}, "expected": "a non-empty message"})
    return fails


# ------------------------------------------------------------------------------------------------ reporting
def _report(ctx, fails: List[dict]) -> None:
    by_clause: Dict[str, List[dict]] = {}
    for f in fails:
        by_clause.setdefault(f["clause"], []).append(f)
    for clause, fs in sorted(by_clause.items()):
        fs.sort(key=lambda f: (len(f["input"]), f["input"], f["fc"]))
        reported = 0
        for f in fs:
            if reported >= MAXV:
                break
            # replay on the real code in this process
            kind, a, b = _call(f["fc"], f["input"])
            still = True
            if clause == "raises-nothing":
                still = kind == "raised"
            elif clause in ("verdict-equals-spec", "931-fulfilled-iff-zero-offset"):
                still = kind == "ok" and a != f["expected"]
            elif clause == "notation-invariance":
                k2, a2, _ = _call(f["fc"], f["other_input"])
                still = kind == "ok" and k2 == "ok" and a != a2
            if not still:
                continue
            f = dict(f, observed_on_replay=[kind, a, b])
            code = REPLAY_PRELUDE + f"print(ev.evaluate_{f['fc']}({f['input']!r}))"
            if clause == "notation-invariance":
                code += f"\nprint(ev.evaluate_{f['fc']}({f['other_input']!r}))  # same instant, other notation"
            ctx.violation(obligation=f"bounded/{clause}/{f['fc']}/{reported}",
                          message=f"evaluate_{f['fc']}({f['input']!r}): observed {f['observed']!r}, expected {f['expected']!r}",
                          witness=f, replayed=True, signature=f"{clause}|{f['fc']}|{f['input']}", replay_code=code)
            reported += 1


# ------------------------------------------------------------------------------------------------ (b') histories
def switch_history(job: Tuple[int, int]) -> dict:
    """one process, one DST switch: every half hour within +-36 h of the switch, in a seeded RANDOM order, each instant
    in two notations x the four instant-judging constraints; every verdict is compared with the integer-arithmetic
    spec.  A verdict that depends on which instants were judged before (a memo keyed too coarsely) shows here and not in
    the ordered sweep.  -> {"evaluations", "failing": first failing (prefix of the order, fc, input) or None}"""
    sw, seed = job
    rng = random.Random(seed)
    us = [sw + k * 1800 for k in range(-72, 73) if S.U_MIN <= sw + k * 1800 <= S.U_MAX]
    rng.shuffle(us)
    n = 0
    done: List[Tuple[str, str]] = []
    for u in us:
        for label, o, zulu in (S.NOTATIONS[0], S.NOTATIONS[3]):
            text = S.render(u, o, zulu)
            for key in FCS[1:]:
                n += 1
                done.append((key, text))
                kind, a, _b = _call(key, text)
                exp = _expected(key, u, o)
                if kind != "ok" or a != exp:
                    return {"evaluations": n, "failing": {"switch": sw, "seed": seed, "fc": key, "input": text, "u": u,
                                                          "observed": [kind, a], "expected": exp,
                                                          "calls_before": len(done) - 1}}
    return {"evaluations": n, "failing": None}


def all_switch_histories(tier: str, seed: int) -> list:
    """every switch history, run from a pristine interpreter state (entry point of the fresh interpreter)"""
    rng = random.Random(seed + 20)
    jobs = [(sw, rng.randrange(2 ** 30)) for sw, _off in S.SWITCHES for _ in range(3 if tier == "thorough" else 1)]
    return pmap(switch_history, jobs, chunksize=1)


def _run_switch_histories(ctx, tier: str, seed: int) -> None:
    t0 = time.time()
    from bounded.common import in_fresh_interpreter
    results = in_fresh_interpreter("bounded.c20", "all_switch_histories", [tier, seed])
    if results is None:
        raise RuntimeError("C20 harness: the fresh interpreter running the switch histories failed")
    jobs = results
    ctx.bounded("histories around every DST switch in one process, random order",
                evaluations=sum(r["evaluations"] for r in results), distinct_nontrivial=len(jobs),
                rule="distinct (switch, order) histories; each judges ~145 instants (every half hour within 36 h of the "
                     "switch) in 2 notations by 932..935, every verdict compared with the spec",
                samples=[{"switch": S.SWITCHES[0][0]}], exhaustive=False,
                bound=f"{len(jobs)} histories over all 84 switches 1996-2037", seconds=time.time() - t0)
    reported = 0
    for r in results:
        f = r["failing"]
        if not f or reported >= 3:
            continue
        again = in_fresh_interpreter("bounded.c20", "switch_history", [[f["switch"], f["seed"]]])
        if not again or not again["failing"]:
            ctx.note(f"C20 histories: failure for switch {f['switch']} did not reproduce (not reported)")
            continue
        g = again["failing"]
        alone = _call(g["fc"], g["input"])
        reported += 1
        ctx.violation(obligation=f"bounded/history-independent-verdict/{g['fc']}/{reported}",
                      message=(f"evaluate_{g['fc']}({g['input']!r}) gives {g['observed']} after {g['calls_before']} earlier "
                               f"evaluations around the DST switch at u={g['switch']} (spec: {g['expected']}); the same call "
                               f"in this process now gives {list(alone[:2])}"),
                      witness=g, replayed=True, signature=f"history|{g['fc']}|{g['switch']}",
                      replay_code=f"# in a NEW interpreter:\nfrom bounded import c20\nprint(c20.switch_history(({g['switch']}, {g['seed']})))")


# ------------------------------------------------------------------------------------------------ entry point
def run(ctx, tier: str, seed: int) -> None:
    ctx.trust("A-DATETIME (datetime.fromisoformat / astimezone / time arithmetic of CPython)",
              "A-PYTZ (pytz computes utcoffset(u) from its transition table; table itself checked completely in (a))")
    ctx.explanation = ("bounded: pytz table vs EU rule complete for 1996–2037; evaluate_931..935 on enumerated days × "
                       "instants × 8 notations against the integer-arithmetic oracle specs/dt_spec.py; malformed/edge strings")

    # ---------------------------------------------------------------- (a) complete table check
    t0 = time.time()
    import datetime as _dt
    import pytz
    berlin = pytz.timezone("Europe/Berlin")
    epoch = _dt.datetime(1970, 1, 1)
    lo, hi = _dt.datetime(1996, 1, 1), _dt.datetime(2037, 12, 31, 23, 59, 59)
    table = []
    before: Optional[int] = None
    for when, info in zip(berlin._utc_transition_times, berlin._transition_info):
        sec = (when - epoch) // _dt.timedelta(seconds=1) if when.year > 1 else None
        off = info[0] // _dt.timedelta(seconds=1)
        if when < lo:
            before = off
        elif when <= hi:
            table.append((sec, off, info[1] // _dt.timedelta(seconds=1), info[2]))
    spec = S.SWITCHES
    bad = []
    if before != S.CET:
        bad.append({"what": "offset in force at 1996-01-01", "observed": before, "expected": S.CET})
    if len(table) != len(spec):
        bad.append({"what": "number of transitions 1996–2037", "observed": len(table), "expected": len(spec)})
    for i, ((sec, off, dst, name), (s_sec, s_off)) in enumerate(zip(table, spec)):
        exp_name = "CEST" if s_off == S.CEST else "CET"
        if (sec, off, dst, name) != (s_sec, s_off, s_off - S.CET, exp_name):
            bad.append({"what": f"transition #{i}", "observed": [sec, off, dst, name],
                        "expected": [s_sec, s_off, s_off - S.CET, exp_name]})
    for b in bad[:MAXV]:
        ctx.violation(obligation=f"bounded/pytz-table-equals-EU-rule/{b['what']}",
                      message=f"pytz Europe/Berlin table differs from the EU rule: {b}", witness=b, replayed=True,
                      signature=f"pytz-table|{b['what']}",
                      replay_code="import pytz; tz = pytz.timezone('Europe/Berlin'); "
                                  "print(list(zip(tz._utc_transition_times, tz._transition_info)))")
    ctx.bounded("pytz Europe/Berlin transition table == EU rule (last Sunday of March/October 01:00 UTC), 1996–2037",
                evaluations=len(table), distinct_nontrivial=len({t[0] for t in table}),
                rule="every transition of the table between 1996-01-01 and 2037-12-31 (each one is a DST switch) plus "
                     "the offset in force at 1996-01-01",
                samples=[{"utc": S.render(t[0], 0, True), "offset_after": t[1], "name": t[3]} for t in table[:2] + table[-2:]],
                exhaustive=True, bound="all 84 transitions 1996-01-01…2037-12-31 of the installed pytz table",
                seconds=time.time() - t0)

    # ---------------------------------------------------------------- (b) string side, real evaluate_93x methods
    t0 = time.time()
    instants, ndays, switch_days = _instants(tier)
    sdays = set(switch_days)
    size = 500
    chunks = [instants[i:i + size] for i in range(0, len(instants), size)]
    results = pmap(_sweep_chunk, chunks, chunksize=1)
    evaluations = sum(r[0] for r in results)
    fails = [f for r in results for f in r[1]]
    nontrivial = [u for u in instants if _nontrivial(u, sdays)]
    samples = []
    for u in (nontrivial[:1] + nontrivial[len(nontrivial) // 2:len(nontrivial) // 2 + 1] + nontrivial[-1:]):
        samples.append({"u": u, "notations": [S.render(u, o, z) for _, o, z in S.NOTATIONS[:4]],
                        "strom": S.strom(u), "gas": S.gas(u)})
    _report(ctx, fails)
    _run_switch_histories(ctx, tier, seed)
    ctx.bounded("evaluate_931..935 on 8 notations of the same instant == strom(u)/gas(u)/zero-offset; message iff unfulfilled; "
                "equal across notations",
                evaluations=evaluations, distinct_nontrivial=len(nontrivial) * len({(o, z) for _, o, z in S.NOTATIONS}),
                rule="distinct (instant, notation) pairs whose instant lies within ±1 s of 00:00:00 or 06:00:00 German local "
                     "time or on a DST switch day (UTC or local date)",
                samples=samples,
                exhaustive=False,
                bound=(f"{ndays} days ({'every day' if tier == 'thorough' else 'DST switch days ±1 day and every 7th day'} "
                       f"1996-01-01…2037-12-31) × instants {{00:00:00, 06:00:00 German local each ±1 s, local noon, {'every full UTC hour, ' if tier == 'thorough' else ''}the instants "
                       f"that READ 00:00:00/06:00:00 in each of the 7 written offsets, on switch days 02:30 local under both "
                       f"offsets and switch ±1 s/±1 h}} = {len(instants)} instants × 8 notations × 5 constraints"),
                seconds=time.time() - t0)

    # ---------------------------------------------------------------- (b') a sample through format_constraint_evaluation
    t0 = time.time()
    n_fce, fce_cases = _through_format_constraint_evaluation(ctx, instants, sdays, tier)
    ctx.bounded("format_constraint_evaluation('[93x]') with the text in the context variable == spec",
                evaluations=n_fce, distinct_nontrivial=fce_cases,
                rule="distinct (instant, notation, constraint) triples at a German-local 00:00:00/06:00:00 boundary ±1 s on a DST switch day",
                samples=[{"via": "format_constraint_evaluation", "expression": "[932]"}], exhaustive=False,
                bound="switch-day boundary instants (every 4th switch day in the quick tier) × 8 notations × [931]…[935]",
                seconds=time.time() - t0)

    # ---------------------------------------------------------------- (c) other strings
    t0 = time.time()
    strings = _other_strings()
    fails_c: List[dict] = []
    for item in strings:
        fails_c.extend(_check_string(item))
    # the oracle's own notations must not be in the "other" class by accident
    _report(ctx, fails_c)
    n_by_class: Dict[str, int] = {}
    for _, c in strings:
        n_by_class[c] = n_by_class.get(c, 0) + 1
    ctx.bounded("malformed / naive / empty / edge-of-range strings: never raises; 'other' strings unfulfilled with a message",
                evaluations=len(strings) * len(FCS), distinct_nontrivial=len({s for s, _ in strings}),
                rule="distinct strings (each is empty, unparsable, without offset, of debatable notation, or at the edge of the "
                     "representable range); classes: " + ", ".join(f"{k}={v}" for k, v in sorted(n_by_class.items())),
                samples=[strings[0][0], strings[40][0], [s for s, c in strings if c == "edge"][0],
                         [s for s, c in strings if c == "no-raise"][0]],
                exhaustive=False,
                bound=f"{len(strings)} fixed strings × 5 constraints; 'other' = must be unfulfilled with a non-empty message; "
                      "'no-raise'/'edge' = must not raise and an unfulfilled verdict must carry a message (years 0001/9999 "
                      "with every offset −12:00…+14:00 in half-hour steps)",
                seconds=time.time() - t0)


def _through_format_constraint_evaluation(ctx, instants: List[int], sdays: set, tier: str) -> Tuple[int, int]:
    """The same verdicts when the constraint is reached through the public expression API."""
    from ahbicht.content_evaluation.fc_evaluators import text_to_be_evaluated_by_format_constraint
    from ahbicht.content_evaluation.token_logic_provider import SingletonTokenLogicProvider
    from ahbicht.expressions.format_constraint_expression_evaluation import format_constraint_evaluation

    configure_inject(token_logic_provider=SingletonTokenLogicProvider([_evaluator()]))
    try:
        keep = sorted(sdays)[::1 if tier == "thorough" else 4]
        keepset = set(keep)
        chosen = [u for u in instants
                  if ((u + S.eu_offset(u)) // DAY in keepset)
                  and (u + S.eu_offset(u)) % DAY in (86399, 0, 1, 21599, 21600, 21601)]
        n = 0
        reported = 0
        cases = set()
        for u in chosen:
            for label, o, zulu in S.NOTATIONS:
                text = S.render(u, o, zulu)
                for key in FCS:
                    text_to_be_evaluated_by_format_constraint.set(text)
                    n += 1
                    cases.add((u, label, key))
                    exp = _expected(key, u, o)
                    try:
                        res = run_coro(format_constraint_evaluation(f"[{key}]"))
                        obs: Any = res.format_constraints_fulfilled
                        msg = res.error_message
                    except Exception as exc:  # noqa
                        obs, msg = f"raised {type(exc).__name__}", str(exc)[:200]
                    ok = obs is exp and ((isinstance(msg, str) and len(msg) > 0) != exp)
                    if not ok and reported < MAXV:
                        reported += 1
                        ctx.violation(
                            obligation=f"bounded/format_constraint_evaluation/{key}/{reported}",
                            message=f"format_constraint_evaluation('[{key}]') on {text!r}: observed {obs!r} / message {msg!r}, "
                                    f"expected fulfilled={exp} with a message iff unfulfilled",
                            witness={"input": text, "fc": key, "u": u, "offset": o, "observed": obs, "message": msg,
                                     "expected": exp},
                            replayed=True, signature=f"fce|{key}|{text}",
                            replay_code=REPLAY_PRELUDE + f"print(ev.evaluate_{key}({text!r}))")
        return n, len(cases)
    finally:
        configure_inject()
