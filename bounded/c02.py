"""C02 (bounded stand-in) — the parsers accept exactly the documented language; everything else is a SyntaxError.

Entry points (real code):
    cond      parse_condition_expression_to_tree(s)
    ahb       parse_ahb_expression_to_single_requirement_indicator_expressions(s)
    resolver  await parse_expression_including_unresolved_subexpressions(s)            (defaults: packages not resolved)
    valid     await is_valid_expression(s, setter)                                     (sample of rejected strings)
Contract per string s (oracle: specs.refparser, written from the property statement, no lark / ahbicht inside):
    only-SyntaxError   no exception type other than SyntaxError escapes from cond / ahb / resolver
    cond               accepted  <=>  ref_accepts_condition(s);  if accepted, flatten(tree) == ref_parse(s)
    ahb                ref_accepts_ahb(s) == "yes"  =>  accepted;   == "no" (no indicator structure)  =>  SyntaxError;
                       "shape" (indicator structure fine, a condition part malformed): unspecified for this entry
                       point — its grammar deliberately "does not yet check" the condition part; the resolver must reject
    resolver           accepted  <=>  ref_accepts_ahb(s) == "yes"  or  ref_accepts_condition(s)
    valid              ref rejects s  =>  is_valid_expression returns (False, <str>)
Out of the generated space on purpose: repeatabilities a..b with a > b under resolve_packages=True (DESIGN C10 domain
note); non-ASCII digits / letters.  The latter are only *observed* (`NON_ASCII_PROBES`, reported as a note unless
`REPORT_NON_ASCII_AS_VIOLATION` is switched on): the regular expressions of the real grammars use `\d` and `(?i)`, which
also match e.g. ARABIC-INDIC DIGIT ONE, LATIN SMALL LETTER LONG S and KELVIN SIGN.
"""
from __future__ import annotations

import asyncio
import itertools
import random
import time
from typing import Dict, Iterable, List, Tuple

from bounded import exprgen as g
from bounded.common import pmap, set_cer
from specs import refparser as ref

CHAR_ALPHABET = ("[", "]", "(", ")", "1", "0", "P", "U", "B", ".", " ", "M", "o")  # 13 symbols
COND_TOKENS = ("[1]", "[02P]", "[3P0..1]", "[UB2]", "(", ")", "U", "∨", "x", " ")  # 10 token classes
AHB_TOKENS = ("Muss", "s", "K", "X", "u", "[1]", "[UB1]", "(", ")", " ")  # 10 token classes
EDIT_ALPHABET = ("[", "]", "(", ")", "1", "0", "4", "P", "p", "U", "o", "⊻", "B", ".", " ", "\t", "\x0b", "M", "s", "K", "X",
                 "a", "-")
CHUNK = 400
#: (entry point, string) the ASCII reading of the documented language rejects; observed only, see module docstring
NON_ASCII_PROBES = (("cond", "[1P\u0661..2]"), ("cond", "[1P1..2\u0663]"), ("cond", "[\u0661]"),
                    ("resolver", "\u212a[1]"), ("resolver", "\u212aann[1]"), ("resolver", "M[1]\u212a"),
                    ("resolver", "\u017f[1]"), ("resolver", "Mu\u017fs[1]"))
REPORT_NON_ASCII_AS_VIOLATION = True


# ------------------------------------------------------------------------------------------------ running real code
def _classify(exc: BaseException) -> str:
    if type(exc) is SyntaxError:  # noqa: E721  (a subclass such as IndentationError would not be "SyntaxError" either,
        return "S"                # but none is raised; treat exact type only to be strict)
    if isinstance(exc, SyntaxError):
        return "S"
    return f"E:{type(exc).__module__}.{type(exc).__name__}"


def _run_cond(s: str):
    from ahbicht.expressions.condition_expression_parser import parse_condition_expression_to_tree
    try:
        return "A", parse_condition_expression_to_tree(s)
    except Exception as exc:  # noqa
        return _classify(exc), None


def _run_ahb(s: str):
    from ahbicht.expressions.ahb_expression_parser import \
        parse_ahb_expression_to_single_requirement_indicator_expressions
    try:
        return "A", parse_ahb_expression_to_single_requirement_indicator_expressions(s)
    except Exception as exc:  # noqa
        return _classify(exc), None


async def _run_resolver(s: str):
    from ahbicht.expressions.expression_resolver import parse_expression_including_unresolved_subexpressions
    try:
        return "A", await parse_expression_including_unresolved_subexpressions(s)
    except Exception as exc:  # noqa
        return _classify(exc), None


async def _run_valid(s: str):
    from ahbicht.content_evaluation import is_valid_expression
    try:
        return "R", await is_valid_expression(s, set_cer)
    except Exception as exc:  # noqa
        return _classify(exc), None


# ---------------------------------------------------------------------------------------------------------- checking
def _check_string(s: str, cond, ahb, res) -> Tuple[List[dict], bool]:
    """cond/ahb/res = (status, tree).  -> (failures, nontrivial)"""
    failures: List[dict] = []

    def fail(clause: str, message: str, expected: str, observed: str):
        failures.append({"input": s, "clause": clause, "message": message, "expected": expected, "observed": observed})

    ref_c = ref.ref_accepts_condition(s)
    ref_a = ref.ref_accepts_ahb(s)
    ref_r = ref_c or ref_a == "yes"
    for name, (status, _) in (("condition parser", cond), ("ahb parser", ahb), ("resolver", res)):
        if status.startswith("E:"):
            fail("only-SyntaxError", f"{name}: {status[2:]} escaped instead of SyntaxError", "tree or SyntaxError",
                 status[2:])
    if cond[0] in "AS":
        if (cond[0] == "A") != ref_c:
            fail("condition-language",
                 "malformed condition expression accepted" if cond[0] == "A" else "well-formed condition expression rejected",
                 "accept" if ref_c else "SyntaxError", "accepted" if cond[0] == "A" else "SyntaxError")
        elif ref_c:
            expected, observed = ref.ref_parse(s), g.lark_to_canonical(cond[1])
            if expected != observed:
                fail("condition-tree", "accepted, but the tree is not the documented grouping", repr(expected),
                     repr(observed))
    if ahb[0] in "AS":
        if ref_a == "yes" and ahb[0] != "A":
            fail("ahb-language", "well-formed AHB expression rejected by the AHB parser", "accept", "SyntaxError")
        if ref_a == "no" and ahb[0] == "A":
            fail("ahb-language", "string without AHB indicator structure accepted by the AHB parser", "SyntaxError",
                 "accepted")
    if res[0] in "AS":
        if (res[0] == "A") != ref_r:
            fail("resolver-language",
                 "malformed expression accepted by the resolver" if res[0] == "A" else "well-formed expression rejected by the resolver",
                 "accept" if ref_r else "SyntaxError", "accepted" if res[0] == "A" else "SyntaxError")
    nontrivial = ref_r or (ref_a == "shape" and ahb[0] == "A")
    return failures, nontrivial


async def _chunk_async(strings: List[str]):
    failures: List[dict] = []
    nontrivial = 0
    for s in strings:
        f, nt = _check_string(s, _run_cond(s), _run_ahb(s), await _run_resolver(s))
        failures.extend(f)
        nontrivial += nt
    return 3 * len(strings), failures, nontrivial


def _work_chunk(strings: List[str]):
    return asyncio.run(_chunk_async(strings))


async def _valid_async(strings: List[str]):
    failures = []
    for s in strings:
        status, value = await _run_valid(s)
        ok = status == "R" and isinstance(value, tuple) and len(value) == 2 and value[0] is False \
            and isinstance(value[1], str)
        if not ok:
            failures.append({"input": s, "clause": "is_valid_expression",
                             "message": "is_valid_expression does not report a malformed expression as (False, message)",
                             "expected": "(False, <str>)",
                             "observed": repr(value)[:200] if status == "R" else f"raised {status[2:]}"})
    return len(strings), failures, 0


def _work_valid(strings: List[str]):
    return asyncio.run(_valid_async(strings))


def _replay(f: dict):
    s = f["input"]
    if f["clause"] == "is_valid_expression":
        _, again, _ = _work_valid([s])
        code = ("import asyncio\nfrom bounded.common import configure_inject, set_cer\nconfigure_inject()\n"
                "from ahbicht.content_evaluation import is_valid_expression\n"
                f"print(asyncio.run(is_valid_expression({s!r}, set_cer)))  # expected: (False, '<message>')\n")
        return bool(again), code
    _, again, _ = _work_chunk([s])
    code = ("import asyncio\nimport ahbicht.content_evaluation\n"
            "from ahbicht.expressions.condition_expression_parser import parse_condition_expression_to_tree as c\n"
            "from ahbicht.expressions.ahb_expression_parser import "
            "parse_ahb_expression_to_single_requirement_indicator_expressions as a\n"
            "from ahbicht.expressions.expression_resolver import parse_expression_including_unresolved_subexpressions as r\n"
            f"s = {s!r}\n"
            "for f in (c, a, lambda x: asyncio.run(r(x))):\n"
            "    try: print('accepted', f(s))\n"
            "    except SyntaxError: print('SyntaxError')\n"
            f"# clause {f['clause']}: expected {f['expected']}, observed {f['observed']}\n")
    return any(a["clause"] == f["clause"] for a in again), code


# ------------------------------------------------------------------------------------------------------------ spaces
def _words(alphabet: Iterable[str], max_len: int) -> Iterable[str]:
    for n in range(0, max_len + 1):
        for combo in itertools.product(alphabet, repeat=n):
            yield "".join(combo)


def _well_formed_pool(rng: random.Random, count: int) -> List[str]:
    """well-formed condition and AHB expressions (by construction) that serve as centres of the edit neighbourhoods"""
    conds: List[str] = []
    while len(conds) < count:
        n = rng.choice((1, 2, 2, 3, 3, 3))
        tree = g.label(g.random_tree(rng, n), rng.sample(g.MIXED_ATOMS, len(g.MIXED_ATOMS)))
        text, _ = g.render(tree, rng.choice(g.STYLES), rng, "random", rng.choice(("none", "single")))
        conds.append(text)
    pool: List[str] = []
    modal = ("M", "Muss", "muss", "S", "Soll", "sOLL", "K", "Kann", "kann")
    for i, c in enumerate(conds):
        kind = i % 5
        if kind in (0, 1):
            pool.append(c)
        elif kind == 2:
            pool.append(rng.choice(modal) + rng.choice(("", " ")) + c)
        elif kind == 3:
            pool.append(rng.choice(("X", "O", "U", "x", "o", "u")) + rng.choice(("", " ")) + c)
        else:
            other = conds[(i * 7 + 3) % len(conds)]
            pool.append(rng.choice(modal) + " " + c + " " + rng.choice(modal) + other
                        + rng.choice(("", " " + rng.choice(modal))))
    for s in pool:  # the generator and the reference have to agree, otherwise the checker itself is broken
        assert ref.ref_accepts_expression(s), s
    return pool


def _neighbours(s: str) -> Iterable[str]:
    for i in range(len(s)):
        yield s[:i] + s[i + 1:]
        for ch in EDIT_ALPHABET:
            if ch != s[i]:
                yield s[:i] + ch + s[i + 1:]
    for i in range(len(s) + 1):
        for ch in EDIT_ALPHABET:
            yield s[:i] + ch + s[i:]


def _chunks(strings: List[str]) -> List[List[str]]:
    """chunks of balanced cost: accepted (slow) strings cluster in enumeration order, so deal the strings round-robin"""
    n = max(1, min(len(strings) // 20 + 1, -(-len(strings) // CHUNK) if len(strings) > 128 * CHUNK else 256))
    return [c for c in (strings[i::n] for i in range(n)) if c]


def _explore(ctx, name: str, strings: List[str], seen: set, all_failures: List[dict], rule: str, bound: str,
             exhaustive: bool, rejected_pool: List[str]):
    t0 = time.time()
    fresh = []
    for s in strings:
        if s not in seen:
            seen.add(s)
            fresh.append(s)
    results = pmap(_work_chunk, _chunks(fresh))
    evaluations = sum(r[0] for r in results)
    nontrivial = sum(r[2] for r in results)
    for r in results:
        all_failures.extend(r[1])
    well_formed = [s for s in fresh[:20000] if ref.ref_accepts_expression(s)]
    rejected_pool.extend(s for s in fresh if len(s) >= 2)
    step = max(1, len(well_formed) // 4)
    ctx.bounded(name, evaluations, nontrivial, rule, well_formed[::step][:4] + fresh[len(fresh) // 2:len(fresh) // 2 + 1],
                exhaustive=exhaustive, bound=bound + f" ({len(fresh)} distinct strings not seen in an earlier space)",
                seconds=time.time() - t0)


RULE = ("distinct strings that the reference accepts for at least one entry point (the accept direction is exercised) or "
        "whose indicator structure the real AHB parser accepts while a condition part is malformed (the nested-callback "
        "rejection path of the resolver); every string is run through the 3 parsing entry points")


def run(ctx, tier: str, seed: int) -> None:
    ctx.trust("A-LARK-PARSE (lark raises only UnexpectedInput subclasses / TypeError on bad input; observed here)")
    ctx.assume("C02 bounded: repeatabilities a..b with a > b are outside the documented language when packages are "
               "resolved (ValueError of the Repeatability validator) and are not generated with resolve_packages=True")
    ctx.assume("C02 bounded: only ASCII letters/digits count as indicator letters/digits; non-ASCII case-folding "
               "equivalents (e.g. U+017F, U+212A) and non-ASCII digits are not in the generated alphabets")
    rng = random.Random(seed)
    quick = tier == "quick"
    seen: set = set()
    all_failures: List[dict] = []
    rejected_pool: List[str] = []

    n_char = 4 if quick else 5
    _explore(ctx, f"C02 all character strings <= {n_char}", list(_words(CHAR_ALPHABET, n_char)), seen, all_failures,
             RULE, f"every string of length 0..{n_char} over the {len(CHAR_ALPHABET)} characters "
                   f"{''.join(CHAR_ALPHABET)!r}", True, rejected_pool)

    n_tok = 4 if quick else 5
    _explore(ctx, f"C02 all condition token strings <= {n_tok}", list(_words(COND_TOKENS, n_tok)), seen, all_failures,
             RULE, f"every concatenation of 0..{n_tok} tokens out of {COND_TOKENS!r}", True, rejected_pool)
    _explore(ctx, f"C02 all AHB token strings <= {n_tok}", list(_words(AHB_TOKENS, n_tok)), seen, all_failures,
             RULE, f"every concatenation of 0..{n_tok} tokens out of {AHB_TOKENS!r}", True, rejected_pool)
    if quick:  # one token more, sampled
        sample = ["".join(rng.choice(toks) for _ in range(5)) for toks in (COND_TOKENS, AHB_TOKENS) for _ in range(6000)]
        _explore(ctx, "C02 sampled token strings of length 5", sample, seen, all_failures, RULE,
                 "seeded sample of 6000 + 6000 concatenations of 5 tokens (condition / AHB token classes)", False,
                 rejected_pool)
    else:
        sample = ["".join(rng.choice(toks) for _ in range(n)) for toks in (COND_TOKENS, AHB_TOKENS)
                  for n in (6, 7) for _ in range(15000)]
        _explore(ctx, "C02 sampled token strings of length 6 and 7", sample, seen, all_failures, RULE,
                 "seeded sample of 4 x 15000 concatenations of 6 / 7 tokens (condition / AHB token classes)", False,
                 rejected_pool)

    centres = _well_formed_pool(rng, 40 if quick else 200)
    neighbours = [n for c in centres for n in _neighbours(c)]
    _explore(ctx, "C02 single-edit neighbours of well-formed expressions", centres + neighbours, seen, all_failures,
             RULE, f"every single-character deletion, substitution and insertion (alphabet {''.join(EDIT_ALPHABET)!r}) "
                   f"of {len(centres)} seeded well-formed condition / AHB expressions, and the expressions themselves",
             False, rejected_pool)

    # ---------------------------------------------------------------- is_valid_expression on rejected strings
    t0 = time.time()
    n_valid = 600 if quick else 6000
    rng.shuffle(rejected_pool)
    rejected = [s for s in rejected_pool[:40 * n_valid] if not ref.ref_accepts_expression(s)]
    # prefer the interesting ones: indicator structure fine, condition part malformed
    shaped = [s for s in rejected if ref.ref_accepts_ahb(s) == "shape"]
    sample = shaped[:n_valid // 2] + rejected[:n_valid - min(len(shaped), n_valid // 2)]
    sample = list(dict.fromkeys(sample))
    results = pmap(_work_valid, _chunks(sample))
    for r in results:
        all_failures.extend(r[1])
    ctx.bounded("C02 is_valid_expression on rejected strings", sum(r[0] for r in results),
                len({s for s in sample if ref.ref_accepts_ahb(s) == "shape"}),
                "distinct sampled strings with a fine indicator structure and a malformed condition part (the path on "
                "which the SyntaxError is raised inside a lark transformer callback)",
                sample[:3], exhaustive=False,
                bound=f"seeded sample of {len(sample)} strings of the spaces above that the reference rejects",
                seconds=time.time() - t0)

    # ---------------------------------------------------------------- non-ASCII look-alikes (observed, see docstring)
    accepted = []
    for entry, s in NON_ASCII_PROBES:
        status = _run_cond(s)[0] if entry == "cond" else asyncio.run(_run_resolver(s))[0]
        if status == "A":
            accepted.append(f"{entry}:{s!r}")
            if REPORT_NON_ASCII_AS_VIOLATION:
                all_failures.append({"input": s, "clause": "condition-language" if entry == "cond" else "resolver-language",
                                     "message": "string with a non-ASCII digit / indicator letter accepted",
                                     "expected": "SyntaxError", "observed": "accepted"})
    if accepted and not REPORT_NON_ASCII_AS_VIOLATION:
        ctx.note("C02 observation outside the generated (ASCII) space, not counted: accepted although the ASCII reading of "
                 "the documented language rejects them: " + ", ".join(accepted))

    by_clause: Dict[str, List[dict]] = {}
    for f in all_failures:
        by_clause.setdefault(f["clause"], []).append(f)
    for clause in sorted(by_clause):
        g.report_failures(ctx, clause, by_clause[clause], _replay)
