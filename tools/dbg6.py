import sys
from checks.common import load_sidecars, verifier
from pyvc.contracts import REGISTRY
load_sidecars()
v=verifier()
key=[t for t in REGISTRY if sys.argv[1] in t][0]
obl=v.verify(key)
print("FILTER TABLE:")
for k in v.ex.filters.table: print("  ",k[:300])
for o in obl:
    print(o.name,o.status)
    if o.status!="discharged" and len(sys.argv)>2:
        print(str(o.solver_output)[:3000])
