"""Encoder self-test: every lemma of contracts/engine_lemmas.py is (a) given to the engine and (b) run under CPython on all
its (small) argument ranges / sampled strings.  Sound encoder: proved => true under CPython; canaries (false under
CPython) must not be proved.  Exit 0 iff all lemmas behave; prints one line per lemma."""
import itertools
import sys

from checks.common import load_sidecars, _lemma_worker
from pyvc.contracts import LEMMAS, Bool, Int, SeqOf, Str

load_sidecars()
bad = 0
for key, lm in sorted(LEMMAS.items()):
    if not key.startswith("contracts.engine_lemmas:"):
        continue
    doms = []
    for n, spec in lm.params.items():
        if isinstance(spec, Int):
            doms.append(range(spec.lo if spec.lo is not None else -4, (spec.hi if spec.hi is not None else 4) + 1))
        elif isinstance(spec, Bool):
            doms.append([False, True])
        elif isinstance(spec, SeqOf):
            doms.append([[], [5], [5, 6, 7]])
        elif isinstance(spec, Str):
            doms.append(["", "a", "ab "])
        else:
            raise SystemExit(f"engine lemma {key}: parameter kind not sampled")
    native = [bool(lm.fn(*vals)) for vals in itertools.product(*doms)]
    rec = _lemma_worker(key)
    proved = rec["status"] == "discharged"   # for a canary: 'discharged' means REFUTED as expected
    if lm.expect_sat:
        ok = (not all(native)) and proved
        what = (f"canary: CPython refutes it on {native.count(False)} of {len(native)} arguments; engine: "
                f"{'refuted' if proved else rec['status'] + ' ' + (rec['detail'] or '')[:160]}")
    else:
        ok = all(native) and proved
        what = f"CPython: true on all {len(native)} arguments; engine: {rec['status']} {(rec['detail'] or '')[:200]}"
    print(("ok   " if ok else "FAIL ") + key.split(":")[1] + " - " + what)
    bad += 0 if ok else 1
print("ENGINE-SELFTEST", "passed" if not bad else f"FAILED ({bad})")
sys.exit(1 if bad else 0)
