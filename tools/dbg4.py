import sys, z3
from checks.common import load_sidecars, verifier
from pyvc.contracts import REGISTRY
from pyvc import lists as L
load_sidecars()
v=verifier()
orig=L._normalize
depth=[0]
def dbg(lt, eq, implied):
    depth[0]+=1
    r=orig(lt,eq,implied)
    depth[0]-=1
    if depth[0]==0:
        print("NORM IN ", str(lt)[:3000]); print("NORM OUT", str(r)[:3000]); print()
    return r
L._normalize=dbg
tgt=[t for t in REGISTRY if t.endswith(sys.argv[1])][0]
for o in v.verify(tgt, only=["post_offered_in_pool_order"]): print(o.name,o.status,o.detail[:100])
