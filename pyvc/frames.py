"""Syntactic frame analysis (DESIGN §2.7): the write set of every function that can run inside a gathered coroutine
must consist of locals, objects the function created itself, and the declared `modifies` entries (each with a reason
why the write cannot be observed by a concurrently running coroutine).  An undeclared write does not refute anything:
it leaves the frame obligation of that function *undecided* (the order-independence proof is then incomplete and the
bounded adversarial schedules decide)."""
from __future__ import annotations

import ast
from typing import Dict, List, Set, Tuple

MUTATORS = {"append", "extend", "insert", "pop", "remove", "clear", "sort", "reverse", "update", "setdefault",
            "popitem", "add", "discard", "set", "reset"}
LOGGER_NAMES = ("logger", "parsing_logger", "validation_logger")


def _root_name(e: ast.expr):
    while isinstance(e, (ast.Attribute, ast.Subscript)):
        e = e.value
    return e.id if isinstance(e, ast.Name) else None


def _is_chain(e: ast.expr) -> bool:
    while isinstance(e, ast.Attribute):
        e = e.value
    return isinstance(e, ast.Name)


def _is_fresh_value(v: ast.expr) -> bool:
    if isinstance(v, (ast.List, ast.Dict, ast.Set, ast.ListComp, ast.DictComp, ast.SetComp, ast.Tuple, ast.Constant,
                      ast.JoinedStr)):
        return True
    if isinstance(v, ast.Await) and isinstance(v.value, ast.Call) and ast.unparse(v.value.func) in (
            "asyncio.gather", "gather_if_necessary"):
        return True  # both return a list created by the call
    if isinstance(v, ast.Call):
        f = v.func
        name = f.id if isinstance(f, ast.Name) else f.attr if isinstance(f, ast.Attribute) else ""
        return bool(name) and (name[0].isupper() or name in ("dict", "list", "set", "tuple", "deepcopy"))
    return False


def write_set(fn: ast.AST) -> List[Tuple[str, int, str]]:
    """[(description, line, kind)] of writes that are not to plain locals / to objects created in the function"""
    params = {a.arg for a in fn.args.args + fn.args.kwonlyargs + fn.args.posonlyargs}
    fresh: Set[str] = set()
    tainted: Set[str] = set()
    body_nodes = []

    def walk(n):
        for c in ast.iter_child_nodes(n):
            if isinstance(c, (ast.FunctionDef, ast.AsyncFunctionDef, ast.Lambda, ast.ClassDef)):
                continue  # nested functions are analysed on their own
            body_nodes.append(c)
            walk(c)
    walk(fn)
    for n in body_nodes:
        if isinstance(n, (ast.Assign, ast.AnnAssign)) and getattr(n, "value", None) is not None:
            targets = n.targets if isinstance(n, ast.Assign) else [n.target]
            for t in targets:
                if isinstance(t, ast.Name):
                    (fresh if _is_fresh_value(n.value) else tainted).add(t.id)
    fresh -= tainted
    fresh -= params
    # local aliases `name = a.b.c` (assigned once, a pure name / attribute chain): a write through the alias is
    # described through what it stands for, so that introducing or renaming such a temporary changes nothing
    counts: Dict[str, int] = {}
    chains: Dict[str, ast.expr] = {}
    for n in body_nodes:
        tg: List[ast.expr] = []
        if isinstance(n, ast.Assign):
            tg = list(n.targets)
        elif isinstance(n, (ast.AugAssign, ast.AnnAssign, ast.For, ast.AsyncFor)):
            tg = [n.target]
        elif isinstance(n, (ast.With, ast.AsyncWith)):
            tg = [i.optional_vars for i in n.items if i.optional_vars is not None]
        elif isinstance(n, ast.NamedExpr):
            tg = [n.target]
        for t in tg:
            for x in ast.walk(t):
                if isinstance(x, ast.Name):
                    counts[x.id] = counts.get(x.id, 0) + 1
        if isinstance(n, ast.Assign) and len(n.targets) == 1 and isinstance(n.targets[0], ast.Name) \
                and _is_chain(n.value) and isinstance(n.value, ast.Attribute):
            chains[n.targets[0].id] = n.value
    aliases = {k: v for k, v in chains.items() if counts.get(k, 0) == 1 and k not in params}

    def describe(e: ast.expr) -> str:
        text = ast.unparse(e)
        for _ in range(4):
            root = _root_name(e)
            if root is None or root not in aliases:
                break
            full = ast.unparse(aliases[root])
            text = full + text[len(root):]
            e = ast.parse(text, mode="eval").body
        return text

    def root_of(e: ast.expr):
        for _ in range(4):
            r = _root_name(e)
            if r is None or r not in aliases:
                return r
            e = aliases[r]
        return _root_name(e)
    out: List[Tuple[str, int, str]] = []
    for n in body_nodes:
        if isinstance(n, (ast.Global, ast.Nonlocal)):
            out.append((f"{type(n).__name__.lower()} {', '.join(n.names)}", n.lineno, "global"))
        targets: List[ast.expr] = []
        if isinstance(n, ast.Assign):
            targets = list(n.targets)
        elif isinstance(n, (ast.AugAssign, ast.AnnAssign)):
            targets = [n.target]
        for t in targets:
            for tt in (t.elts if isinstance(t, (ast.Tuple, ast.List)) else [t]):
                if isinstance(tt, (ast.Attribute, ast.Subscript)):
                    root = root_of(tt)
                    if root is None or root not in fresh:
                        out.append((describe(tt), n.lineno, "store"))
        if isinstance(n, ast.Call) and isinstance(n.func, ast.Attribute) and n.func.attr in MUTATORS:
            root = root_of(n.func.value)
            recv = describe(n.func.value)
            if any(l in recv for l in LOGGER_NAMES):
                continue
            if root is None or root not in fresh:
                out.append((f"{recv}.{n.func.attr}(...)", n.lineno, "mutator"))
    return out


def functions_of(tree: ast.Module, modname: str) -> Dict[str, ast.AST]:
    out: Dict[str, ast.AST] = {}

    def visit(node, prefix):
        for c in ast.iter_child_nodes(node):
            if isinstance(c, (ast.FunctionDef, ast.AsyncFunctionDef)):
                out[f"{modname}:{prefix}{c.name}"] = c
                visit(c, f"{prefix}{c.name}.")
            elif isinstance(c, ast.ClassDef):
                visit(c, f"{prefix}{c.name}.")
            elif isinstance(c, (ast.If, ast.Try, ast.With, ast.For, ast.While)):
                visit(c, prefix)
    visit(tree, "")
    return out
