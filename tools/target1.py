import time, sys
from checks.common import load_sidecars, verifier
from pyvc.contracts import REGISTRY
load_sidecars()
v=verifier()
for tgt in REGISTRY:
    if sys.argv[1] not in tgt: continue
    t=time.time()
    for o in v.verify(tgt):
        print(o.name, o.status, o.paths, o.detail[:300])
        if o.status=='violated':
            print('   witness', v.concretize(REGISTRY[tgt], o))
    print(round(time.time()-t,2),'s')
