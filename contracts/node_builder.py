"""Contract of ConditionNodeBuilder as seen by requirement_constraint_evaluation (C04): the input nodes are
well-formed leaf nodes, i.e. requirement constraints carry the evaluator's value (never NEUTRAL is the quantifier of
C04), hints and unevaluated format constraints are NEUTRAL (class defaults)."""
import z3

from contracts.rc_transformer import CANDS, node
from pyvc.contracts import DictOf, Inst, Raw, SeqOf, Str, contract
from pyvc.values import Opaque

T = "ahbicht.condition_node_builder:ConditionNodeBuilder."


def leaf_nodes():
    def val(ex, st, name, i):
        ref = node().make(ex, st, name)
        st.assume(st.heap[ref.oid].kind != CANDS.index("EvaluatedComposition"))
        return ref
    return DictOf(lambda ex, st, name, i: Str().make(ex, st, name), val)


@contract(T + "requirement_content_evaluation_for_all_condition_keys", prop=["C04", "C12"])
class AllConditionKeys:
    """modular view: a mapping from keys to well-formed leaf nodes, or whatever the user-supplied evaluators raise"""
    params = dict(self=Inst("ConditionNodeBuilder", token_logic_provider=Raw(lambda ex, st, n: Opaque("inst:TokenLogicProvider")),
                            requirement_constraints_condition_keys=SeqOf(lambda ex, st, n, i: Str().make(ex, st, n)),
                            hints_condition_keys=SeqOf(lambda ex, st, n, i: Str().make(ex, st, n)),
                            format_constraints_condition_keys=SeqOf(lambda ex, st, n, i: Str().make(ex, st, n))))
    raises = {"Exception": None, "NotImplementedError": None, "KeyError": None}
    returns = leaf_nodes()

    def post_union_of_the_three_node_maps(self, result, ghost_BuildRcNodes_result, ghost_BuildHintNodes_result,
                                          ghost_BuildUfcNodes_result):
        """own body: the input nodes are exactly the union of the requirement-constraint, hint and format-constraint
        node maps (their key ranges are disjoint: C18)"""
        return all(k in result for k in ghost_BuildRcNodes_result.keys()) \
            and all(k in result for k in ghost_BuildHintNodes_result.keys()) \
            and all(k in result for k in ghost_BuildUfcNodes_result.keys()) \
            and all(k in ghost_BuildRcNodes_result or k in ghost_BuildHintNodes_result or k in ghost_BuildUfcNodes_result
                    for k in result.keys())


@contract(T + "__init__", prop=["C04"])
class BuilderInit:
    """modular view of the constructor: stores the keys (categorisation is C18's contract)"""
    params = dict(self=Inst("ConditionNodeBuilder"))
    raises = {"ValueError": None, "NotImplementedError": None}

    def hook(ex, st, bound):
        from pyvc.values import sv_none
        st.heap[bound["self"].oid].fields["condition_keys"] = bound["condition_keys"]
        outs = []
        for k in ("ValueError", "NotImplementedError"):
            outs.append(ex.raise_(st.fork(), k, None))
        outs.append((st, sv_none()))
        return outs
