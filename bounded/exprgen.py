"""Enumeration and rendering of condition-expression TREES for the bounded stand-ins (C01, C02, C09, C10).

A *binary tree* is a leaf (an atom of `specs.refparser`: ("c", key) / ("p", key, rep) / ("t", "UBn")) or
(op, [left, right]) with op in {"or", "xor", "and", "then"}.  The expected grouping is known by construction:
`specs.refparser.flatten(tree)` (runs of one operator merged) is what the real parser has to produce up to flattening;
`render` additionally returns the n-ary tree in which only the *written* runs are merged (a bracketed operand stays a
node of its own), of which the real binary tree has to be a binarisation (`specs.refparser.refines`).

Nothing in here calls the code under test; `lark_to_binary` / `lark_to_canonical` only read a lark Tree.
"""
from __future__ import annotations

import random
from functools import lru_cache
from typing import Iterator, List, Optional, Sequence, Tuple

from specs.refparser import PRECEDENCE, WS_CHARS, flatten, is_leaf

OPS = ("or", "xor", "and", "then")
SPELLINGS = {"and": ("U", "u", "∧"), "xor": ("X", "x", "⊻"), "or": ("O", "o", "∨"), "then": ("",)}
ALL_OPERATOR_SPELLINGS = ("U", "u", "∧", "O", "o", "∨", "X", "x", "⊻")
STYLES = ("full", "min", "redundant")

#: key pool of DESIGN §3: requirement 1,2,3 / hints 501,502 / format 901,902 / packages / UBn
PLAIN_KEYS = ("1", "2", "3", "501", "502", "901", "902")
MIXED_ATOMS = (("c", "1"), ("p", "4P", None), ("c", "502"), ("t", "UB1"), ("p", "17P", "0..1"), ("c", "901"),
               ("t", "UB3"), ("c", "2"), ("p", "5P", "2..15"), ("t", "UB2"), ("c", "03"), ("c", "3"))


# ------------------------------------------------------------------------------------------------------ enumeration
@lru_cache(maxsize=None)
def catalan(n: int) -> int:
    """number of binary tree shapes with n leaves"""
    if n <= 1:
        return 1
    return sum(catalan(k) * catalan(n - k) for k in range(1, n))


def count_trees(n_leaves: int, n_ops: int = len(OPS)) -> int:
    return catalan(n_leaves) * n_ops ** (n_leaves - 1)


def _enum(lo: int, hi: int, ops: Sequence[str]) -> Iterator:
    """all binary trees over the leaf placeholders lo..hi-1 (left to right)"""
    if hi - lo == 1:
        yield ("L", lo)
        return
    for mid in range(lo + 1, hi):
        for left in _enum(lo, mid, ops):
            for right in _enum(mid, hi, ops):
                for op in ops:
                    yield (op, [left, right])


def enum_trees(n_leaves: int, ops: Sequence[str] = OPS) -> Iterator:
    """every binary tree with exactly n_leaves leaf placeholders ("L", i) — deterministic order"""
    return _enum(0, n_leaves, ops)


def random_tree(rng: random.Random, n_leaves: int, ops: Sequence[str] = OPS, lo: int = 0):
    """uniformly random shape (Catalan weights), uniformly random operators"""
    if n_leaves == 1:
        return ("L", lo)
    weights = [catalan(k) * catalan(n_leaves - k) for k in range(1, n_leaves)]
    k = rng.choices(range(1, n_leaves), weights=weights)[0]
    return (rng.choice(ops), [random_tree(rng, k, ops, lo), random_tree(rng, n_leaves - k, ops, lo + k)])


def label(tree, atoms: Sequence[tuple]):
    """replaces the placeholder ("L", i) by atoms[i % len(atoms)]"""
    if tree[0] == "L":
        return tuple(atoms[tree[1] % len(atoms)])
    return (tree[0], [label(c, atoms) for c in tree[1]])


def plain_atoms(n: int) -> List[tuple]:
    """distinct plain condition keys: position i -> key i+1 (so the grouping is visible in the keys)"""
    return [("c", str(i + 1)) for i in range(n)]


def n_leaves(tree) -> int:
    if is_leaf(tree) or tree[0] == "L":
        return 1
    return sum(n_leaves(c) for c in tree[1])


# -------------------------------------------------------------------------------------------------------- rendering
def _ws(rng: Optional[random.Random], mode: str) -> str:
    if mode == "none":
        return ""
    if mode == "single":
        return " "
    assert rng is not None
    if mode == "random":  # 0..2 characters of lark's WS
        return "".join(rng.choice(WS_CHARS) for _ in range(rng.choice((0, 0, 1, 1, 2))))
    raise ValueError(mode)


def render_atom(atom: tuple, rng: Optional[random.Random] = None, ws: str = "none") -> str:
    """"[1]", "[4P]", "[4P0..1]", "[UB1]"; with ws == "random" whitespace may stand between the tokens inside"""
    inner = (lambda: _ws(rng, "random")) if ws == "random" else (lambda: "")
    if atom[0] == "c" or atom[0] == "t":
        return "[" + inner() + atom[1] + inner() + "]"
    if atom[0] == "p":
        rep = atom[2]
        return "[" + inner() + atom[1] + ((inner() + rep) if rep else "") + inner() + "]"
    raise ValueError(atom)


def render(tree, style: str = "min", rng: Optional[random.Random] = None, spelling: str = "upper",
           ws: str = "none") -> Tuple[str, object]:
    """-> (text, expected n-ary tree in which exactly the written runs are merged)

    style:    "full"      brackets around every inner operand
              "min"       brackets only where the precedence demands them (a same-operator operand is written bare)
              "redundant" like "min" plus random superfluous brackets (around atoms, doubled, around tighter or
                          same-operator operands, around the whole expression)
    spelling: "upper" (U O X) | "lower" | "symbol" | "random" (per occurrence)
    ws:       "none" | "single" (one blank around operators) | "random" (0..2 WS characters between any two tokens)
    """
    if style not in STYLES:
        raise ValueError(style)
    if (style == "redundant" or spelling == "random" or ws == "random") and rng is None:
        raise ValueError("rng needed")

    def sp(op: str) -> str:
        if op == "then":
            return ""
        idx = {"upper": 0, "lower": 1, "symbol": 2}.get(spelling)
        return SPELLINGS[op][idx] if idx is not None else rng.choice(SPELLINGS[op])

    def gap() -> str:
        return _ws(rng, ws)

    def wrap(text: str) -> str:
        return "(" + gap() + text + gap() + ")"

    def rec(t, parent_op: Optional[str]) -> Tuple[str, object, bool]:
        """-> (text, keep-tree, bracketed)"""
        if is_leaf(t):
            text, bracketed = render_atom(t, rng, ws), False
            if style == "redundant" and rng.random() < 0.15:
                text, bracketed = wrap(text), True
            return text, tuple(t), bracketed
        op = t[0]
        texts, children = [], []
        for c in t[1]:
            c_text, c_keep, c_br = rec(c, op)
            texts.append(c_text)
            if not is_leaf(c_keep) and c_keep[0] == op and not c_br:
                children.extend(c_keep[1])  # a written run
            else:
                children.append(c_keep)
        if op == "then":
            text = texts[0] + gap() + texts[1]
        else:
            sep = gap() if ws != "single" else " "
            text = texts[0] + sep + sp(op) + (gap() if ws != "single" else " ") + texts[1]
        keep = (op, children)
        if parent_op is None:
            need = False
        elif style == "full":
            need = True
        else:
            need = PRECEDENCE[op] < PRECEDENCE[parent_op]
            if style == "redundant" and not need and rng.random() < 0.3:
                need = True
        bracketed = False
        if need:
            text, bracketed = wrap(text), True
            if style == "redundant" and rng.random() < 0.2:
                text = wrap(text)
        return text, keep, bracketed

    text, keep, _ = rec(tree, None)
    if style == "redundant" and rng.random() < 0.25:
        text = wrap(text)
    if ws == "random":
        text = gap() + text + gap()
    return text, keep


def respell(text: str, rng: random.Random) -> str:
    """replaces every operator character OUTSIDE square brackets by a random spelling of the same operator"""
    from specs.refparser import OP_OF
    out, depth = [], 0
    for ch in text:
        if ch == "[":
            depth += 1
        elif ch == "]":
            depth -= 1
        if depth == 0 and ch in OP_OF:
            out.append(rng.choice(SPELLINGS[OP_OF[ch]]))
        else:
            out.append(ch)
    return "".join(out)


# ------------------------------------------------------------------------------------------- reading real lark trees
_DATA_TO_OP = {"or_composition": "or", "xor_composition": "xor", "and_composition": "and",
               "then_also_composition": "then"}


def lark_to_binary(tree):
    """lark Tree of the condition grammar -> tree in the notation of this module, grouping kept as it is.  Anything
    unexpected becomes a ("?", repr) leaf so that a comparison fails instead of the checker crashing."""
    data = str(getattr(tree, "data", None))
    children = getattr(tree, "children", None)
    if children is None:
        return ("?", repr(tree))
    types = [getattr(c, "type", None) for c in children]
    if data == "condition" and types == ["CONDITION_KEY"]:
        return ("c", str(children[0]))
    if data == "time_condition" and types == ["TIME_CONDITION_KEY"]:
        return ("t", str(children[0]))
    if data == "package" and types == ["PACKAGE_KEY"]:
        return ("p", str(children[0]), None)
    if data == "package" and types == ["PACKAGE_KEY", "REPEATABILITY"]:
        return ("p", str(children[0]), str(children[1]))
    if data in _DATA_TO_OP and len(children) == 2:
        return (_DATA_TO_OP[data], [lark_to_binary(c) for c in children])
    return ("?", repr(tree))


def lark_to_canonical(tree):
    """lark Tree -> flattened canonical tree (comparable with specs.refparser.ref_parse)"""
    return flatten(lark_to_binary(tree))


def tree_signature(tree):
    """exact, hashable image of any lark Tree: rule names, token types and token values, grouping kept (stricter than
    lark's Tree.__eq__, which compares tokens as plain strings)"""
    children = getattr(tree, "children", None)
    if children is None:
        t = getattr(tree, "type", None)
        return ("tok", t, str(tree)) if t is not None else ("obj", repr(tree))
    return (str(tree.data), tuple(tree_signature(c) for c in children))


def rewhitespace(text: str, rng: random.Random, p: float = 0.5) -> str:
    """inserts 0..2 characters of lark's WS at random token boundaries of a condition expression (outside square
    brackets anywhere between two characters; inside them only after "[", before "]" and between the package key
    and its repeatability), plus leading/trailing whitespace.  Never inserts inside a token."""
    def w() -> str:
        return "".join(rng.choice(WS_CHARS) for _ in range(rng.choice((1, 1, 2)))) if rng.random() < p else ""

    out, inside = [w()], False
    for idx, ch in enumerate(text):
        nxt = text[idx + 1] if idx + 1 < len(text) else ""
        out.append(ch)
        if ch == "[":
            inside = True
            out.append(w())
        elif ch == "]":
            inside = False
            out.append(w())
        elif inside:
            if nxt == "]" or (ch == "P" and nxt.isdigit()):
                out.append(w())
        else:
            out.append(w())
    return "".join(out)


# ------------------------------------------------------------------------------------------------ reporting helper
def report_failures(ctx, clause: str, failures: list, replay, limit: int = 5) -> int:
    """`failures`: dicts with at least "input" (str or JSON-able) and "message".  The smallest `limit` ones are re-run
    through `replay(failure) -> (still_fails: bool, replay_code: str)` in this process and reported as violations.
    Returns the number of violations reported."""
    def size(f):
        i = f["input"]
        return (len(i) if isinstance(i, str) else len(repr(i)), repr(i))

    reported = 0
    seen = set()
    for f in sorted(failures, key=size):
        key = repr(f["input"])
        if key in seen:
            continue
        seen.add(key)
        still, code = replay(f)
        if not still:
            ctx.note(f"{clause}: failure on {f['input']!r} did not reproduce in the parent process (not reported)")
            continue
        ctx.violation(obligation=f"bounded/{clause}" + (f"-{reported + 1}" if reported else ""), message=f["message"], witness=f, replayed=True,
                      signature=f"{clause}:{key}"[:200], replay_code=code)
        reported += 1
        if reported >= limit:
            break
    return reported
