"""dev helper: run checks against a scratch copy of /repo with one textual replacement or a patch applied.
usage: mutate.py <props comma separated> <relative file under src/ahbicht> <old> <new>   |   mutate.py <props> --patch file"""
import os, shutil, subprocess, sys, tempfile
props = sys.argv[1].split(",")
d = tempfile.mkdtemp(prefix="ahb_mut_")
try:
    shutil.copytree("/repo/src", d + "/src")
    if sys.argv[2] == "--patch":
        subprocess.run(["patch", "-p1", "-s", "-i", os.path.abspath(sys.argv[3])], cwd=d, check=True)
    else:
        p = f"{d}/src/ahbicht/{sys.argv[2]}"
        s = open(p).read()
        assert sys.argv[3] in s, "old text not found"
        open(p, "w").write(s.replace(sys.argv[3], sys.argv[4], 1))
    env = dict(os.environ, AHBICHT_REPO=d)
    for pr in props:
        r = subprocess.run(["/verif/vcheck", pr] + sys.argv[5:] if sys.argv[2] != "--patch" else ["/verif/vcheck", pr] + sys.argv[4:], env=env, capture_output=True, text=True, cwd="/verif")
        lines = [l for l in r.stdout.splitlines() if l.startswith(("VIOLATION", "  obligation", "SUMMARY", "UNDECIDED", "CHECKER", "KNOWN"))]
        print(f"--- {pr}: exit {r.returncode}")
        print("\n".join(lines[:14]))
        if r.returncode == 3: print(r.stdout[-1500:], r.stderr[-1500:])
finally:
    shutil.rmtree(d, ignore_errors=True)
    # evidence/replays were rewritten by the mutant run: restore evidence from git
    subprocess.run(["git", "checkout", "--", "evidence"], cwd="/verif", capture_output=True)
