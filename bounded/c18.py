"""C18 bounded stand-in: key extraction partitions keys by number range; the possible content evaluation results are
exactly the Cartesian product.

(a) `derive_condition_node_type` on every key "0".."3000" and every "nP" (n = 0..3000) vs key_type — complete for that range.
(b) `extract_categorized_keys_from_tree` / `extract_categorized_keys` on generated expressions (keys at all range
    boundaries, duplicates, packages with/without repeatability, UB1..3, with and without package / time-condition
    resolution): categories by range, each key once, ascending numeric order, extract(a op b) == extract(a) + extract(b),
    sanitize idempotent, keys outside the ranges rejected.
(c) `CategorizedKeyExtract.generate_possible_content_evaluation_results()` == {F,U,UNKNOWN}^m × {True,False}^n as a multiset.
Oracles are written from the property statement (key_type of DESIGN Appendix A); none of them calls ahbicht.
"""
from __future__ import annotations

import itertools
import random
import time
from collections import Counter
from typing import Any, Dict, List, Optional, Tuple

from bounded.common import F, N, make_cer, pmap, run as run_coro, set_cer

MAXV = 5

# ------------------------------------------------------------------------------------------------ oracle
RC, HINT, FC, REP, PKG = "REQUIREMENT_CONSTRAINT", "HINT", "FORMAT_CONSTRAINT", "REPEATABILITY_CONSTRAINT", "PACKAGE"


def key_type(is_package: bool, n: int) -> Optional[str]:
    """DESIGN Appendix A; None stands for 'rejected'."""
    if is_package:
        return PKG
    if 1 <= n <= 499:
        return RC
    if 500 <= n <= 900:
        return HINT
    if 901 <= n <= 999:
        return FC
    if 2000 <= n <= 2499:
        return REP
    return None


def category(key: str) -> Optional[str]:
    """Which list of the extract a condition key belongs to ('rc' | 'hint' | 'fc'), None = rejected."""
    t = key_type(False, int(key))
    return {RC: "rc", REP: "rc", HINT: "hint", FC: "fc"}.get(t)


BOUNDARIES = (0, 1, 499, 500, 900, 901, 999, 1000, 1999, 2000, 2499, 2500, 3000)

# ------------------------------------------------------------------------------------------------ (a)
REPLAY_A = ("from ahbicht.condition_node_distinction import derive_condition_node_type\n"
            "print(derive_condition_node_type({key!r}))")


def _derive(key: str) -> Tuple[str, Any]:
    from ahbicht.condition_node_distinction import derive_condition_node_type
    try:
        return ("ok", str(derive_condition_node_type(key).value))
    except Exception as exc:  # noqa
        return ("raised", type(exc).__name__)


def _part_a(ctx) -> None:
    t0 = time.time()
    keys = [str(n) for n in range(0, 3001)] + [f"{n}P" for n in range(0, 3001)]
    reported = 0
    other_exc = Counter()
    nontrivial = set()
    for key in keys:
        is_pkg = key.endswith("P")
        n = int(key[:-1]) if is_pkg else int(key)
        exp = key_type(is_pkg, n)
        kind, val = _derive(key)
        if any(abs(n - b) <= 2 for b in BOUNDARIES):
            nontrivial.add(key)
        ok = (kind == "ok" and val == exp) if exp is not None else (kind == "raised")
        if exp is None and kind == "raised" and val != "ValueError":
            other_exc[val] += 1
        if not ok and reported < MAXV:
            reported += 1
            ctx.violation(obligation=f"bounded/derive_condition_node_type/{key}",
                          message=f"derive_condition_node_type({key!r}): observed {kind} {val}, expected "
                                  f"{exp if exp is not None else 'rejection (ValueError)'}",
                          witness={"condition_key": key, "observed": [kind, val], "expected": exp or "ValueError"},
                          replayed=True, signature=f"derive|{key}", replay_code=REPLAY_A.format(key=key))
    if other_exc:
        ctx.note(f"C18: keys outside the ranges are rejected with exceptions other than ValueError: {dict(other_exc)}")
    ctx.bounded("derive_condition_node_type(key) == key_type for every key '0'..'3000' and '0P'..'3000P'",
                evaluations=len(keys), distinct_nontrivial=len(nontrivial),
                rule="distinct keys (plain or package form) whose number lies within ±2 of a range boundary "
                     "(0/1, 499/500, 900/901, 999/1000, 1999/2000, 2499/2500, 3000)",
                samples=["0", "499", "500", "900", "901"], exhaustive=True,
                bound="all decimal keys without leading zeros 0..3000, plain and with the package suffix P", seconds=time.time() - t0)


# ------------------------------------------------------------------------------------------------ (b) generator
# Condition keys at every range boundary and of different lengths ("9" before "10" needs key=int).  The keys with a
# leading zero denote numbers that no other key of the pool denotes, so "ascending numeric order" fixes the order.
RC_KEYS = ["1", "2", "9", "10", "11", "99", "100", "101", "498", "499", "2000", "2001", "2100", "2498", "2499", "050"]
HINT_KEYS = ["500", "501", "502", "899", "900", "0600"]
FC_KEYS = ["901", "902", "950", "998", "999", "0940"]
COND_KEYS = RC_KEYS + HINT_KEYS + FC_KEYS
PACKAGES: Dict[str, str] = {
    "1P": "[1] U [501]",
    "9P": "[902] O [2000] U [9]",
    "10P": "[10][11]",
    "123P": "[499] X [500] U [UB1]",
    "2000P": "([2499] ∧ [900]) ⊻ [901]",
}
#: the leaves of the package expressions, written down by hand (oracle side)
PACKAGE_LEAVES: Dict[str, List[Tuple[str, str]]] = {
    "1P": [("c", "1"), ("c", "501")],
    "9P": [("c", "902"), ("c", "2000"), ("c", "9")],
    "10P": [("c", "10"), ("c", "11")],
    "123P": [("c", "499"), ("c", "500"), ("t", "UB1")],
    "2000P": [("c", "2499"), ("c", "900"), ("c", "901")],
}
REPEATABILITIES = [None, None, "0..1", "1..2", "1..5", "0..99"]
TIME_KEYS = ["UB1", "UB2", "UB3"]
#: what the statement/README say a time condition is replaced with
TIME_LEAVES = {"UB1": ["932"], "UB2": ["934"], "UB3": ["932", "492", "934", "493"]}
OPS = ["U", "O", "X", "∧", "∨", "⊻", "", "u", "o", "x"]
REJECTED = ["0", "00", "1000", "1001", "1500", "1999", "2500", "2501", "3000", "9999", "10000"]
MODES = [(False, False), (False, True), (True, False), (True, True)]  # (resolve_packages, replace_time_conditions)


def _gen_leaf(rnd: random.Random, local_pool: List[str]) -> tuple:
    r = rnd.random()
    if r < 0.70:
        return ("c", rnd.choice(local_pool) if rnd.random() < 0.6 else rnd.choice(COND_KEYS))
    if r < 0.87:
        return ("p", rnd.choice(sorted(PACKAGES)), rnd.choice(REPEATABILITIES))
    return ("t", rnd.choice(TIME_KEYS))


def _gen_tree(rnd: random.Random, leaves: int, local_pool: List[str]) -> tuple:
    if leaves == 1:
        return _gen_leaf(rnd, local_pool)
    left = rnd.randint(1, leaves - 1)
    return ("n", rnd.choice(OPS), _gen_tree(rnd, left, local_pool), _gen_tree(rnd, leaves - left, local_pool))


def _render(t: tuple, rnd: random.Random) -> str:
    if t[0] == "c":
        return f"[{t[1]}]"
    if t[0] == "p":
        return f"[{t[1]}{t[2] or ''}]"
    if t[0] == "t":
        return f"[{t[1]}]"
    sp = rnd.choice(["", " ", "  "])
    op = t[1]
    return f"({_render(t[2], rnd)}){sp}{op}{sp or (' ' if op == '' else '')}({_render(t[3], rnd)})"


def _leaves(t: tuple) -> List[tuple]:
    if t[0] == "n":
        return _leaves(t[2]) + _leaves(t[3])
    return [t]


def _gen_cases(seed: int, count: int) -> List[dict]:
    rnd = random.Random(seed * 7919 + 18)
    cases = []
    for i in range(count):
        local_pool = rnd.sample(COND_KEYS, rnd.randint(2, 5))   # a small pool per case produces duplicates
        la, lb = rnd.randint(1, 3), rnd.randint(1, 3)
        a, b = _gen_tree(rnd, la, local_pool), _gen_tree(rnd, lb, local_pool)
        op = rnd.choice(OPS)
        sa, sb = _render(a, rnd), _render(b, rnd)
        prefix = rnd.choice(["", "", "", "Muss ", "X ", "Soll ", "Kann "])
        whole = f"{prefix}({sa}) {op} ({sb})"
        cases.append({"i": i, "a": sa, "b": sb, "op": op, "whole": whole, "leaves_a": _leaves(a), "leaves_b": _leaves(b)})
    return cases


def _expected_extract(leaves: List[tuple], rp: bool, rt: bool, dedupe: bool = True) -> Dict[str, List[str]]:
    """What the statement demands for an expression with these leaves under the two resolution flags."""
    cond: List[str] = []
    pkgs: List[str] = []
    times: List[str] = []
    work = list(leaves)
    flat: List[tuple] = []
    for leaf in work:
        if leaf[0] == "p" and rp:
            flat.extend(PACKAGE_LEAVES[leaf[1]])
        else:
            flat.append(leaf)
    for leaf in flat:
        if leaf[0] == "c":
            cond.append(leaf[1])
        elif leaf[0] == "p":
            pkgs.append(leaf[1])
        elif rt:
            cond.extend(TIME_LEAVES[leaf[1]])
        else:
            times.append(leaf[1])
    out = {"rc": [k for k in cond if category(k) == "rc"], "hint": [k for k in cond if category(k) == "hint"],
           "fc": [k for k in cond if category(k) == "fc"], "pkg": pkgs, "time": times}
    if dedupe:
        for name in ("rc", "hint", "fc"):
            out[name] = sorted(set(out[name]), key=int)
        out["pkg"] = sorted(set(out["pkg"]))
        out["time"] = sorted(set(out["time"]))
    return out


def _as_dict(extract) -> Dict[str, List[str]]:
    return {"rc": list(extract.requirement_constraint_keys), "hint": list(extract.hint_keys),
            "fc": list(extract.format_constraint_keys), "pkg": list(extract.package_keys),
            "time": list(extract.time_condition_keys)}


def _wellformed(d: Dict[str, List[str]]) -> Optional[str]:
    """The clauses of the statement that need no expected value: exactly one category by range, once, ascending."""
    for name in ("rc", "hint", "fc"):
        lst = d[name]
        for k in lst:
            if category(k) != name:
                return f"key {k} listed under {name} but its range says {category(k)}"
        if len(set(lst)) != len(lst):
            return f"{name}: a key is listed more than once: {lst}"
        nums = [int(k) for k in lst]
        if nums != sorted(nums):
            return f"{name}: not in ascending numeric order: {lst}"
    if len({k for name in ("rc", "hint", "fc") for k in d[name]}) != sum(len(d[name]) for name in ("rc", "hint", "fc")):
        return "a key is listed in two categories"
    for name in ("pkg", "time"):
        if len(set(d[name])) != len(d[name]):
            return f"{name}: listed more than once: {d[name]}"
    return None


def _same(observed: Dict[str, List[str]], expected: Dict[str, List[str]]) -> bool:
    """Condition keys: exact list (order is fixed by the statement); packages / time conditions: as sets, once each."""
    return (all(observed[n] == expected[n] for n in ("rc", "hint", "fc"))
            and all(sorted(observed[n]) == sorted(expected[n]) for n in ("pkg", "time")))


REPLAY_B = ("import asyncio, logging; logging.disable(logging.CRITICAL)\n"
            "from bounded.common import configure_inject, make_cer, set_cer\n"
            "from bounded.c18 import PACKAGES\n"
            "from ahbicht.expressions.condition_expression_parser import extract_categorized_keys\n"
            "configure_inject(); set_cer(make_cer(packages=PACKAGES))\n"
            "print(asyncio.run(extract_categorized_keys({expr!r}, resolve_packages={rp}, replace_time_conditions={rt})))")


def _extract(expr: str, rp: bool, rt: bool):
    from ahbicht.expressions.condition_expression_parser import extract_categorized_keys
    set_cer(make_cer(packages=PACKAGES))
    return run_coro(extract_categorized_keys(expr, resolve_packages=rp, replace_time_conditions=rt))


def _check_case(case: dict) -> Tuple[int, List[dict]]:
    """All clauses of (b) for one generated case; returns (#real executions, failures)."""
    import copy
    from ahbicht.expressions.condition_expression_parser import (extract_categorized_keys_from_tree,
                                                                  parse_condition_expression_to_tree)
    fails: List[dict] = []
    n = 0

    def fail(clause: str, expr: str, rp, rt, observed, expected):
        fails.append({"clause": clause, "expression": expr, "resolve_packages": rp, "replace_time_conditions": rt,
                      "observed": observed, "expected": expected, "case": case["i"]})

    all_leaves = case["leaves_a"] + case["leaves_b"]
    for rp, rt in MODES:
        n += 3
        extracts = []
        for expr in (case["whole"], case["a"], case["b"]):
            try:
                extracts.append(_extract(expr, rp, rt))
            except Exception as exc:  # noqa: every key of the pool lies in one of the ranges: nothing may be rejected
                fail("well-formed-expression-not-rejected", expr, rp, rt, f"raised {type(exc).__name__}: {exc}", "an extract")
        if len(extracts) != 3:
            continue
        e_whole, e_a, e_b = extracts
        for expr, ext, leaves in ((case["whole"], e_whole, all_leaves), (case["a"], e_a, case["leaves_a"]),
                                  (case["b"], e_b, case["leaves_b"])):
            d = _as_dict(ext)
            problem = _wellformed(d)
            if problem:
                fail("one-category-once-ascending", expr, rp, rt, d, problem)
            exp = _expected_extract(leaves, rp, rt)
            if not _same(d, exp):
                fail("extract-equals-keys-of-expression", expr, rp, rt, d, exp)
        # the extract of a composed expression is the union of the extracts of its parts (__add__)
        summed = e_a + e_b
        n += 1
        if not (_same(_as_dict(summed), _as_dict(e_whole)) and _wellformed(_as_dict(summed)) is None):
            fail("extract(a op b)==extract(a)+extract(b)", case["whole"], rp, rt,
                 {"whole": _as_dict(e_whole), "a+b": _as_dict(summed)}, "equal")
        # sanitize is idempotent
        again = copy.deepcopy(e_whole)
        again.sanitize()
        n += 1
        if again != e_whole:
            fail("sanitize-idempotent", case["whole"], rp, rt, {"once": _as_dict(e_whole), "twice": _as_dict(again)}, "equal")
    # tree level, unsanitised: every occurrence lands in exactly the category of its range, nothing else does
    cond_expr = f"({case['a']}) {case['op']} ({case['b']})"
    tree = parse_condition_expression_to_tree(cond_expr)
    n += 2
    try:
        raw = extract_categorized_keys_from_tree(tree, sanitize=False)
        san = extract_categorized_keys_from_tree(tree, sanitize=True)
    except Exception as exc:  # noqa
        fail("well-formed-expression-not-rejected", cond_expr, False, False, f"raised {type(exc).__name__}: {exc}", "an extract")
        return n, fails
    exp_raw = _expected_extract(all_leaves, False, False, dedupe=False)
    d_raw = _as_dict(raw)
    if any(Counter(d_raw[k]) != Counter(exp_raw[k]) for k in exp_raw):
        fail("from_tree-unsanitised-multiset", cond_expr, False, False, d_raw, exp_raw)
    exp_san = _expected_extract(all_leaves, False, False)
    if not _same(_as_dict(san), exp_san) or _wellformed(_as_dict(san)):
        fail("from_tree-sanitised", cond_expr, False, False, _as_dict(san), exp_san)
    # list input
    keys = [leaf[1] for leaf in all_leaves if leaf[0] == "c"]
    n += 1
    try:
        from_list = extract_categorized_keys_from_tree(list(keys), sanitize=True)
    except Exception as exc:  # noqa
        fail("well-formed-expression-not-rejected", repr(keys), False, False, f"raised {type(exc).__name__}: {exc}", "an extract")
        return n, fails
    exp_list = _expected_extract([("c", k) for k in keys], False, False)
    if not _same(_as_dict(from_list), exp_list) or _wellformed(_as_dict(from_list)):
        fail("from_list-sanitised", repr(keys), False, False, _as_dict(from_list), exp_list)
    return n, fails


def _check_rejected(item: Tuple[str, bool, bool]) -> Tuple[str, Any]:
    expr, rp, rt = item
    try:
        return ("ok", _as_dict(_extract(expr, rp, rt)))
    except Exception as exc:  # noqa
        return ("raised", type(exc).__name__)


def _is_nontrivial_case(case: dict) -> bool:
    leaves = case["leaves_a"] + case["leaves_b"]
    conds = [leaf[1] for leaf in leaves if leaf[0] == "c"]
    kinds = {leaf[0] for leaf in leaves}
    cats = {category(k) for k in conds}
    return len(conds) != len(set(conds)) or len(kinds) > 1 or len(cats) > 1 or len({len(k) for k in conds}) > 1


def _part_b(ctx, tier: str, seed: int) -> List[dict]:
    t0 = time.time()
    count = 2000 if tier == "quick" else 15000
    cases = _gen_cases(seed, count)
    results = pmap(_check_case, cases)
    evaluations = sum(r[0] for r in results)
    fails = [f for r in results for f in r[1]]
    by_clause: Dict[str, List[dict]] = {}
    for f in fails:
        by_clause.setdefault(f["clause"], []).append(f)
    for clause, fs in sorted(by_clause.items()):
        fs.sort(key=lambda f: (len(f["expression"]), f["expression"], f["resolve_packages"], f["replace_time_conditions"]))
        uniq_fs, seen_sig = [], set()
        for f in fs:
            sig = (f["expression"], f["resolve_packages"], f["replace_time_conditions"])
            if sig not in seen_sig:
                seen_sig.add(sig)
                uniq_fs.append(f)
        confirmed = []
        for f in uniq_fs:
            if len(confirmed) >= MAXV:
                break
            # replay: run the real code again on the same case in this process; keep the finding only if it shows again
            again = _check_case(cases[f["case"]])[1]
            if any(g["clause"] == clause and g["expression"] == f["expression"]
                   and g["resolve_packages"] == f["resolve_packages"]
                   and g["replace_time_conditions"] == f["replace_time_conditions"] for g in again):
                confirmed.append(f)
        for j, f in enumerate(confirmed):
            ctx.violation(obligation=f"bounded/{clause}/{j}",
                          message=f"{clause}: {f['expression']!r} (resolve_packages={f['resolve_packages']}, "
                                  f"replace_time_conditions={f['replace_time_conditions']}): observed {f['observed']}, expected {f['expected']}",
                          witness=f, replayed=True,
                          signature=f"{clause}|{f['expression']}|{f['resolve_packages']}|{f['replace_time_conditions']}",
                          replay_code=REPLAY_B.format(expr=f["expression"], rp=f["resolve_packages"], rt=f["replace_time_conditions"]))
    distinct = {c["whole"] for c in cases if _is_nontrivial_case(c)}
    ctx.bounded("extract_categorized_keys / extract_categorized_keys_from_tree: category by range, once, ascending numeric, "
                "union of parts, sanitize idempotent",
                evaluations=evaluations, distinct_nontrivial=len(distinct),
                rule="distinct generated expressions that contain a duplicate key, keys of different categories or lengths, "
                     "or a package / time condition next to condition keys (each checked under 4 resolution modes)",
                samples=[cases[0]["whole"], cases[1]["whole"], cases[2]["whole"]], exhaustive=False,
                bound=f"{count} seeded random expressions '(a) op (b)' with 1–3 leaves per side, keys from "
                      f"{len(COND_KEYS)} condition keys at all range boundaries (incl. 3 with a leading zero), 5 packages "
                      "(with/without repeatability), UB1..3, 10 operator spellings, optional requirement indicator; "
                      "× {resolve_packages} × {replace_time_conditions}",
                seconds=time.time() - t0)

    # keys outside the ranges are rejected
    t0 = time.time()
    items = []
    for bad in REJECTED:
        for template in ("[{}]", "[1] U [{}]", "Muss [{}][901]", "([501] O [{}]) U [2000]", "[{}] U [1P]"):
            for rp, rt in MODES:
                items.append((template.format(bad), rp, rt))
    res = pmap(_check_rejected, items)
    reported = 0
    others = Counter()
    for item, (kind, val) in zip(items, res):
        if kind == "raised" and val != "ValueError":
            others[val] += 1
        if kind == "ok" and reported < MAXV and _check_rejected(item)[0] == "ok":  # replayed in this process
            reported += 1
            ctx.violation(obligation=f"bounded/keys-outside-ranges-rejected/{reported}",
                          message=f"extract_categorized_keys({item[0]!r}) returned {val} although a key is outside all ranges",
                          witness={"expression": item[0], "resolve_packages": item[1], "replace_time_conditions": item[2],
                                   "observed": val, "expected": "rejected (ValueError)"},
                          replayed=True, signature=f"rejected|{item}",
                          replay_code=REPLAY_B.format(expr=item[0], rp=item[1], rt=item[2]))
    if others:
        ctx.note(f"C18: expressions with keys outside the ranges are rejected with exceptions other than ValueError: {dict(others)}")
    ctx.bounded("extract_categorized_keys rejects expressions with a key outside all ranges",
                evaluations=len(items), distinct_nontrivial=len({i[0] for i in items}),
                rule="distinct expressions containing one key outside 1–999 / 2000–2499",
                samples=[items[0][0], items[5][0]], exhaustive=False,
                bound=f"{len(REJECTED)} keys outside the ranges × 5 expression templates × 4 resolution modes", seconds=time.time() - t0)
    return cases


# ------------------------------------------------------------------------------------------------ (c)
RC_POOL = ["1", "9", "10", "53", "499", "2000", "2499", "7", "100"]
FC_POOL = ["901", "999", "950", "902", "931", "998", "940", "910", "960"]
HINT_VARIANTS = [[], ["501"], ["500", "900"]]

REPLAY_C = ("from ahbicht.models.categorized_key_extract import CategorizedKeyExtract\n"
            "x = CategorizedKeyExtract(hint_keys={h!r}, format_constraint_keys={f!r}, requirement_constraint_keys={r!r}, "
            "package_keys=[], time_condition_keys=[])\n"
            "res = x.generate_possible_content_evaluation_results()\n"
            "print(len(res)); [print(c.requirement_constraints, {{k: v.format_constraint_fulfilled for k, v in c.format_constraints.items()}}) for c in res[:20]]")


def _check_product(item: Tuple[List[str], List[str], List[str]]) -> dict:
    """Compares the generated list with the Cartesian product as multisets; returns a small summary."""
    from ahbicht.models.categorized_key_extract import CategorizedKeyExtract
    rc_keys, fc_keys, hint_keys = item
    m, n = len(rc_keys), len(fc_keys)
    t0 = time.time()
    extract = CategorizedKeyExtract(hint_keys=list(hint_keys), format_constraint_keys=list(fc_keys),
                                    requirement_constraint_keys=list(rc_keys), package_keys=[], time_condition_keys=[])
    results = extract.generate_possible_content_evaluation_results()
    secs = time.time() - t0
    problems: List[str] = []
    observed: Counter = Counter()
    for cer in results:
        rc_items = tuple(sorted((k, str(v.value)) for k, v in cer.requirement_constraints.items()))
        fc_items = tuple(sorted((k, v.format_constraint_fulfilled) for k, v in cer.format_constraints.items()))
        observed[(rc_items, fc_items)] += 1
        if any(v == N for v in cer.requirement_constraints.values()) and len(problems) < 3:
            problems.append(f"a result contains NEUTRAL: {dict(cer.requirement_constraints)}")
        if any(not isinstance(v.format_constraint_fulfilled, bool) for v in cer.format_constraints.values()) and len(problems) < 3:
            problems.append("a format constraint outcome is not a bool")
        if (set(cer.hints) != set(hint_keys) or any(not isinstance(v, str) or not v for v in cer.hints.values())) and len(problems) < 3:
            problems.append(f"hints not filled for exactly the hint keys: {cer.hints}")
    expected: Counter = Counter()
    if m + n > 0:
        for rc_vals in itertools.product(("FULFILLED", "UNFULFILLED", "UNKNOWN"), repeat=m):
            for fc_vals in itertools.product((True, False), repeat=n):
                expected[(tuple(sorted(zip(rc_keys, rc_vals))), tuple(sorted(zip(fc_keys, fc_vals))))] += 1
    if (len(results) == 0) != (m + n == 0):
        problems.append(f"[] iff m = n = 0 violated: {len(results)} results for m={m}, n={n}")
    if observed != expected:
        missing = list((expected - observed).items())[:2]
        extra = list((observed - expected).items())[:2]
        problems.append(f"multiset differs from the Cartesian product: {len(results)} results, {3 ** m * 2 ** n if m + n else 0} expected; "
                        f"missing e.g. {missing}; surplus/duplicate e.g. {extra}")
    return {"rc": rc_keys, "fc": fc_keys, "hints": hint_keys, "results": len(results), "problems": problems, "seconds": round(secs, 2)}


def _product_items(tier: str, seed: int) -> List[Tuple[List[str], List[str], List[str]]]:
    rnd = random.Random(seed * 104729 + 180)
    limit = 7 if tier == "quick" else 8
    items = []
    for m in range(0, limit + 1):
        for n in range(0, limit + 1 - m):
            variants = 1 if m >= 6 else (2 if m + n >= 6 else 3)   # the m ≥ 6 cases filter ≥ 134 596 combinations
            for v in range(variants):
                if v == 0:
                    rc, fc = RC_POOL[:m], FC_POOL[:n]
                else:  # other keys, not in ascending order
                    rc, fc = rnd.sample(RC_POOL, m), rnd.sample(FC_POOL, n)
                items.append((rc, fc, HINT_VARIANTS[(m + n + v) % 3]))
    if tier == "thorough":
        items.append((RC_POOL[:9], [], []))  # m = 9: 94 143 280 filtered combinations, beyond the stated bound
    items.sort(key=lambda it: -len(it[0]))  # heaviest first
    return items


def _part_c(ctx, tier: str, seed: int, cases: List[dict]) -> None:
    t0 = time.time()
    items = _product_items(tier, seed)
    # the same identity on real extracts of generated expressions (the precondition "keys distinct" comes from sanitize)
    extra = []
    seen = set()
    for c in cases:
        exp = _expected_extract(c["leaves_a"] + c["leaves_b"], True, True)
        sig = (tuple(exp["rc"]), tuple(exp["fc"]), tuple(exp["hint"]))
        if len(exp["rc"]) + len(exp["fc"]) <= 5 and sig not in seen:
            seen.add(sig)
            extra.append(c)
        if len(extra) >= (60 if tier == "quick" else 400):
            break
    results = pmap(_check_product, items, chunksize=1)
    results2 = pmap(_check_pipeline, extra, chunksize=4)
    reported = 0
    for r in sorted(results + results2, key=lambda r: (len(r["rc"]) + len(r["fc"]), r["rc"], r["fc"])):
        if r["problems"] and reported < MAXV \
                and _check_product((r["rc"], r["fc"], r["hints"]))["problems"]:  # replayed in this process
            reported += 1
            ctx.violation(obligation=f"bounded/possible-results==cartesian-product/{reported}",
                          message=f"generate_possible_content_evaluation_results for rc={r['rc']} fc={r['fc']} hints={r['hints']}: "
                                  + "; ".join(r["problems"][:2]),
                          witness=r, replayed=True, signature=f"product|{r['rc']}|{r['fc']}|{r['hints']}",
                          replay_code=REPLAY_C.format(h=r["hints"], f=r["fc"], r=r["rc"]))
    sizes = sorted({(len(r["rc"]), len(r["fc"])) for r in results})
    slow = max(results, key=lambda r: r["seconds"])
    distinct = {(tuple(r["rc"]), tuple(r["fc"]), tuple(r["hints"])) for r in results + results2 if len(r["rc"]) + len(r["fc"]) >= 2}
    ctx.bounded("generate_possible_content_evaluation_results == {F,U,UNKNOWN}^m × {True,False}^n (multiset, no NEUTRAL, hints filled, [] iff m=n=0)",
                evaluations=len(results) + len(results2), distinct_nontrivial=len(distinct),
                rule="distinct (requirement keys, format keys, hint keys) inputs with m + n ≥ 2 (the combinations filter has "
                     "artefacts to remove); every generated result of each input is compared with the product",
                samples=[{"rc": r["rc"], "fc": r["fc"], "results": r["results"]} for r in results[:2]] +
                        [{"rc": r["rc"], "fc": r["fc"], "results": r["results"], "via": r.get("expression")} for r in results2[:1]],
                exhaustive=False,
                bound=f"all (m, n) with m + n ≤ {7 if tier == 'quick' else 8}" + (" plus (9, 0)" if tier == "thorough" else "")
                      + f" over distinct keys (1–3 key choices each, {len(results)} inputs; slowest {slow['seconds']} s for m={len(slow['rc'])}); "
                      f"plus {len(results2)} real extracts (resolved) of generated expressions with m + n ≤ 5; sizes {sizes[:3]}…{sizes[-1:]}",
                seconds=time.time() - t0)


def _check_pipeline(case: dict) -> dict:
    try:
        ext = _extract(case["whole"], True, True)
    except Exception as exc:  # noqa: already reported by part (b)
        return {"rc": [], "fc": [], "hints": [], "results": 0, "problems": [], "seconds": 0.0, "expression": case["whole"],
                "skipped": f"{type(exc).__name__}"}
    r = _check_product((list(ext.requirement_constraint_keys), list(ext.format_constraint_keys), list(ext.hint_keys)))
    r["expression"] = case["whole"]
    return r


# ------------------------------------------------------------------------------------------------ part (d): histories
def _vandalise_results(results: list) -> int:
    """what a caller may legitimately do with the objects it was handed: edit them in place"""
    from ahbicht.models.condition_nodes import EvaluatedFormatConstraint
    edits = 0
    for cer in results:
        for k in list(cer.requirement_constraints):
            cer.requirement_constraints[k] = N
            edits += 1
        for k in list(cer.format_constraints):
            cer.format_constraints[k] = EvaluatedFormatConstraint(format_constraint_fulfilled=True, error_message="edited")
            edits += 1
        cer.requirement_constraints["4711"] = F
        cer.format_constraints.pop(next(iter(cer.format_constraints), None), None)
        cer.hints["599"] = "edited"
        cer.packages["1P"] = "[1]"
        edits += 3
    if results:
        results.append(results[0])
        del results[0]
    return edits


def _check_product_history(item: Tuple[List[str], List[str], List[str]]) -> dict:
    """generate -> edit everything that was returned, in place -> generate again (same extract, an equal new extract,
    an extract of a differently written expression with the same keys): the later results must be the Cartesian product
    again.  Also: the extract itself is not changed by generating."""
    from ahbicht.models.categorized_key_extract import CategorizedKeyExtract
    rc_keys, fc_keys, hint_keys = item
    extract = CategorizedKeyExtract(hint_keys=list(hint_keys), format_constraint_keys=list(fc_keys),
                                    requirement_constraint_keys=list(rc_keys), package_keys=[], time_condition_keys=[])
    first = extract.generate_possible_content_evaluation_results()
    edits = _vandalise_results(first)
    problems: List[str] = []
    if (extract.requirement_constraint_keys, extract.format_constraint_keys, extract.hint_keys) != (list(rc_keys), list(fc_keys), list(hint_keys)):
        problems.append("generating / editing the results changed the extract itself")
    second = extract.generate_possible_content_evaluation_results()
    shared = any(a is b for a in second for b in first)
    after = _check_product(item)  # a new, equal extract
    for pr in after["problems"]:
        problems.append("after editing the results of an earlier call in place: " + pr)
    if problems and shared:  # an explanation, not a demand of its own
        problems.append("(the second call hands out objects the first call handed out)")
    return {"rc": rc_keys, "fc": fc_keys, "hints": hint_keys, "edits": edits, "problems": problems, "results": after["results"]}


REPLAY_D = ("from bounded import c18\nprint(c18._check_product_history(({r!r}, {f!r}, {h!r})))")


def _part_d(ctx, tier: str, seed: int) -> None:
    """history clause of the enumeration and of the extraction: objects handed to a caller are the caller's"""
    import ahbicht.content_evaluation  # noqa: F401
    from ahbicht.expressions.condition_expression_parser import extract_categorized_keys
    t0 = time.time()
    items = [it for it in _product_items(tier, seed) if 1 <= len(it[0]) + len(it[1]) <= 4]
    results = [_check_product_history(it) for it in items]  # same process on purpose: the history is the point
    reported = 0
    for r in sorted(results, key=lambda r: (len(r["rc"]) + len(r["fc"]), r["rc"], r["fc"])):
        if r["problems"] and reported < MAXV and _check_product_history((r["rc"], r["fc"], r["hints"]))["problems"]:
            reported += 1
            ctx.violation(obligation=f"bounded/possible-results-after-caller-edits/{reported}",
                          message=f"generate_possible_content_evaluation_results for rc={r['rc']} fc={r['fc']} hints={r['hints']}: "
                                  + "; ".join(r["problems"][:2]),
                          witness=r, replayed=True, signature=f"product-history|{r['rc']}|{r['fc']}|{r['hints']}",
                          replay_code=REPLAY_D.format(h=r["hints"], f=r["fc"], r=r["rc"]))
    # extraction: edit the lists of a returned extract, extract again
    exprs = ["[1] U [2]", "[3] O [501] U [901]", "([10] X [2000])[902]", "[1][950] U [7] O [502]", "[53]"]
    bad = []
    n_ext = 0
    for e in exprs:
        a = run_coro(extract_categorized_keys(e)) if _is_coro_fn(extract_categorized_keys) else extract_categorized_keys(e)
        snapshot = _as_dict(a)
        for lst in (a.requirement_constraint_keys, a.hint_keys, a.format_constraint_keys, a.package_keys, a.time_condition_keys):
            lst.append("4711")
            lst.reverse()
        b = run_coro(extract_categorized_keys(e)) if _is_coro_fn(extract_categorized_keys) else extract_categorized_keys(e)
        n_ext += 2
        if _as_dict(b) != snapshot:
            bad.append({"expression": e, "first": snapshot, "after_editing_the_first": _as_dict(b)})
    for n, b in enumerate(bad[:2]):
        ctx.violation(obligation=f"bounded/extract-after-caller-edits/{n + 1}",
                      message=f"extract_categorized_keys({b['expression']!r}) returns {b['after_editing_the_first']} after the "
                              f"lists of an earlier result were edited in place (first: {b['first']})",
                      witness=b, replayed=True, signature=f"extract-history|{b['expression']}",
                      replay_code="extract, append to / reverse the returned lists, extract again")
    ctx.bounded("results and extracts handed out earlier may be edited in place without affecting later calls",
                evaluations=3 * len(results) + n_ext, distinct_nontrivial=len({(tuple(r["rc"]), tuple(r["fc"]), tuple(r["hints"])) for r in results if r["edits"] > 0}) + len(exprs),
                rule="distinct key sets whose first results were edited in place (every mapping of every result, the list "
                     "itself) before generating again + distinct expressions whose extract lists were edited before extracting again",
                samples=[{"rc": r["rc"], "fc": r["fc"], "edits": r["edits"]} for r in results[:2]], exhaustive=False,
                bound=f"{len(results)} key sets with 1 <= m + n <= 4, one generate / edit / generate history each, in one process; {len(exprs)} expressions",
                seconds=time.time() - t0)


def _is_coro_fn(f) -> bool:
    import inspect
    return inspect.iscoroutinefunction(f)


# ------------------------------------------------------------------------------------------------ entry point
def run(ctx, tier: str, seed: int) -> None:
    ctx.trust("A-LARK-TREE (lark Tree.scan_values visits every token)", "A-STDLIB (set, list.sort, itertools)")
    ctx.explanation = ("bounded: derive_condition_node_type complete for 0..3000 (+P forms); extraction clauses on seeded "
                       "generated expressions under 4 resolution modes; Cartesian-product identity for m + n ≤ 7/8")
    _part_a(ctx)
    cases = _part_b(ctx, tier, seed)
    _part_c(ctx, tier, seed, cases)
    _part_d(ctx, tier, seed)
