"""Shared plumbing of the bounded stand-ins: dependency injection with content-evaluation-result based evaluators
whose data lives in a ContextVar (so that concurrently running evaluations each see their own data), a process pool,
and small helpers.  Everything here runs the REAL ahbicht code of $AHBICHT_REPO (default /repo)."""
from __future__ import annotations

import asyncio
import contextvars
import multiprocessing as mp
import os
from typing import Any, Callable, Dict, Iterable, List, Optional, Sequence

import inject
import ahbicht.content_evaluation  # noqa: F401  (import order matters: avoids a circular import)
from ahbicht.content_evaluation.evaluationdatatypes import EvaluatableData, EvaluatableDataProvider
from ahbicht.content_evaluation.evaluator_factory import create_content_evaluation_result_based_evaluators
from ahbicht.content_evaluation.token_logic_provider import SingletonTokenLogicProvider, TokenLogicProvider
from ahbicht.models.condition_nodes import ConditionFulfilledValue as CFV
from ahbicht.models.condition_nodes import EvaluatedFormatConstraint
from ahbicht.models.content_evaluation_result import ContentEvaluationResult, ContentEvaluationResultSchema
from efoli import EdifactFormat, EdifactFormatVersion

F, U, K, N = CFV.FULFILLED, CFV.UNFULFILLED, CFV.UNKNOWN, CFV.NEUTRAL
NPROC = min(16, os.cpu_count() or 1)

_cer_body: contextvars.ContextVar[Optional[dict]] = contextvars.ContextVar("verif_cer_body", default=None)
_schema = ContentEvaluationResultSchema()


def _provider() -> EvaluatableData:
    return EvaluatableData(body=_cer_body.get(), edifact_format=EdifactFormat.UTILMD,
                           edifact_format_version=EdifactFormatVersion.FV2210)


def configure_inject(extra: Optional[Callable[[Any], None]] = None, token_logic_provider: Any = None) -> None:
    """(Re)configures `inject` with content-evaluation-result based RC/FC evaluators, hints provider and package
    resolver; the evaluatable data is read from a ContextVar at every injection (context-local)."""
    evs = create_content_evaluation_result_based_evaluators(EdifactFormat.UTILMD, EdifactFormatVersion.FV2210)
    tlp = token_logic_provider or SingletonTokenLogicProvider([*evs])

    def cfg(binder):
        binder.bind(TokenLogicProvider, tlp)
        binder.bind_to_provider(EvaluatableDataProvider, _provider)
        if extra:
            extra(binder)

    inject.clear_and_configure(cfg)


def make_cer(rc: Optional[Dict[str, CFV]] = None, fc: Optional[Dict[str, Any]] = None,
             hints: Optional[Dict[str, Optional[str]]] = None, packages: Optional[Dict[str, str]] = None
             ) -> ContentEvaluationResult:
    """fc values may be bool (message added for False) or EvaluatedFormatConstraint."""
    fcs = {}
    for k, v in (fc or {}).items():
        if isinstance(v, EvaluatedFormatConstraint):
            fcs[k] = v
        else:
            fcs[k] = EvaluatedFormatConstraint(format_constraint_fulfilled=bool(v),
                                               error_message=None if v else f"[{k}] not fulfilled")
    return ContentEvaluationResult(hints=hints or {}, format_constraints=fcs, requirement_constraints=rc or {},
                                   packages=packages or {})


def set_cer(cer: ContentEvaluationResult) -> None:
    """Sets the content evaluation result for the *current context* (the setter handed to is_valid_expression)."""
    _cer_body.set(_schema.dump(cer))


def run(coro):
    return asyncio.run(coro)


async def evaluate_async(expression: str, cer: ContentEvaluationResult, resolve_packages: bool = True):
    from ahbicht.expressions.ahb_expression_evaluation import evaluate_ahb_expression_tree
    from ahbicht.expressions.expression_resolver import parse_expression_including_unresolved_subexpressions
    set_cer(cer)
    tree = await parse_expression_including_unresolved_subexpressions(expression, resolve_packages=resolve_packages)
    return await evaluate_ahb_expression_tree(tree)


def evaluate(expression: str, cer: ContentEvaluationResult, resolve_packages: bool = True):
    """Parses (resolver) and evaluates `expression` under `cer` through the public API of the real code."""
    return asyncio.run(evaluate_async(expression, cer, resolve_packages))


def hints_for(keys: Iterable[str]) -> Dict[str, str]:
    return {k: f"Hinweis {k}" for k in keys}


# ------------------------------------------------------------------------------------------------ process pool
def _init_worker():
    import logging
    logging.disable(logging.CRITICAL)
    configure_inject()


def pmap(fn: Callable[[Any], Any], items: Sequence[Any], chunksize: Optional[int] = None,
         nproc: int = NPROC) -> List[Any]:
    """Order-preserving parallel map over a fork pool; `fn` must be a module-level function.  Falls back to a serial
    loop for small inputs."""
    items = list(items)
    if len(items) < 64 or nproc <= 1:
        _init_worker()
        return [fn(x) for x in items]
    ctx = mp.get_context("fork")
    cs = chunksize or max(1, len(items) // (nproc * 8))
    with ctx.Pool(nproc, initializer=_init_worker) as pool:
        return pool.map(fn, items, chunksize=cs)


def in_fresh_child(fn: Callable[[], Any], timeout: float = 120.0) -> Any:
    """runs `fn()` in a forked child of this process and returns its (picklable) result: the child starts from this
    process's state and whatever `fn` does to caches / module state dies with it.  Used to replay a SEQUENCE of calls
    from a state in which none of them has happened yet."""
    import os
    import pickle
    import select
    r, w = os.pipe()
    pid = os.fork()
    if pid == 0:  # child
        try:
            os.close(r)
            try:
                payload = pickle.dumps(("ok", fn()))
            except BaseException as e:  # noqa
                payload = pickle.dumps(("err", f"{type(e).__name__}: {e}"))
            with os.fdopen(w, "wb") as f:
                f.write(payload)
        finally:
            os._exit(0)
    os.close(w)
    chunks = []
    with os.fdopen(r, "rb") as f:
        ready, _, _ = select.select([f], [], [], timeout)
        if ready:
            chunks.append(f.read())
    os.waitpid(pid, 0)
    if not chunks or not chunks[0]:
        return None
    kind, val = pickle.loads(chunks[0])
    return val if kind == "ok" else None


def in_fresh_interpreter(module: str, function: str, args: list, timeout: float = 600.0) -> Any:
    """runs `module.function(*args)` in a NEW Python interpreter (same sys.path, same environment) and returns its
    JSON result: no cache, memo or module-level state of this process - which has run provers, replays and other
    harnesses on the same library - exists there.  None if the child failed (stderr goes to a NOTE by the caller)."""
    import json
    import os
    import subprocess
    import sys
    code = ("import json, sys\nimport importlib\nm = importlib.import_module(sys.argv[1])\n"
            "print('\\n@@RESULT@@' + json.dumps(getattr(m, sys.argv[2])(*json.loads(sys.argv[3])), default=repr))")
    env = dict(os.environ)
    env["PYTHONPATH"] = os.pathsep.join(p for p in sys.path if p)
    r = subprocess.run([sys.executable, "-W", "ignore", "-c", code, module, function, json.dumps(args)],
                       capture_output=True, text=True, timeout=timeout, env=env)
    for line in r.stdout.splitlines():
        if line.startswith("@@RESULT@@"):
            return json.loads(line[len("@@RESULT@@"):])
    return None
