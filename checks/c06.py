"""C06 - validity is structural; validity check and evaluation agree: proof (raise conditions of the callbacks +
ghost invariant 'state != NEUTRAL iff the sub-tree carries a requirement constraint' in the induction steps) +
bounded backstop (incl. is_valid_expression through generate_possible_content_evaluation_results)."""
from checks.c04 import AROUND, CALLBACKS
from checks.common import guarded, list_theory_obligations, prove, prove_lemmas, run_bounded
from vlib.report import Ctx

LEVEL = "proof"


def run(ctx: Ctx) -> None:
    ctx.explanation = (
        "the raise condition of _or_xor_composition / or_ / xor_composition is proved to be exactly the structural "
        "criterion on the operands (a single hint against a single format constraint, or NEUTRAL against non-NEUTRAL); "
        "and_/then_also never raise InvalidExpressionError; the induction steps carry the invariant 'state != NEUTRAL "
        "iff the sub-tree carries a requirement constraint', so the criterion mentions no F/U/UNKNOWN value: the same "
        "verdict under every assignment; evaluate_requirement_constraint_tree lets the callback's exception through "
        "(no VisitError). is_valid_expression's agreement relies on generate_possible_content_evaluation_results, which "
        "is only bounded-validated (C18) - decided here by the bounded part.")
    ctx.trust("A-LARK-FOLD", "generate_possible_content_evaluation_results covers every assignment (bounded-validated, C18)")
    prove(ctx, CALLBACKS + AROUND[1:2] + ["ahbicht.content_evaluation:is_valid_expression"])
    prove_lemmas(ctx, "contracts.c04_lemmas", ["step_and", "step_or", "step_xor", "step_then",
                                              "invalid_needs_a_requirement_or_format_key", "canary_or_never_raises"])
    run_bounded(ctx, "C06")
    # several modal-mark parts: every part is evaluated whatever earlier parts yield (a normal return means no part is
    # invalid), which rests on gather_if_necessary letting an item's InvalidExpressionError (a BaseException) through
    prove(ctx, ["ahbicht.expressions.ahb_expression_evaluation:AhbExpressionTransformer._ahb_expression_async",
                "ahbicht.utility_functions:gather_if_necessary#loop"])
    prove(ctx, ["ahbicht.utility_functions:gather_if_necessary#body"], kind="B (bounded by list length <= 4, symbolic contents)")
    list_theory_obligations(ctx)
    from bounded import multipart_invalid
    guarded(ctx, "C06", lambda: multipart_invalid.run(ctx, "C06"))
    # the validity check evaluates under EVERY possible content evaluation result (each handed to the setter once)
    from bounded import setter_pairing
    guarded(ctx, "C06", lambda: setter_pairing.run(ctx, "C06"), what="setter-pairing harness")
