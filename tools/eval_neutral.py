"""Run every registered check (quick tier) against a scratch worktree of /repo with a behaviour-preserving patch applied:
no check may print a VIOLATION line or exit 1 (undecided obligations are allowed and listed).
usage: eval_neutral.py <patch.diff> [Cxx ...]      -> one JSON line + human-readable lines; exit 1 if any alarm"""
import concurrent.futures as cf
import json, os, shutil, subprocess, sys, tempfile, time

VERIF = os.path.dirname(os.path.dirname(os.path.abspath(__file__)))   # the tree this script belongs to
patch = os.path.abspath(sys.argv[1])
props = sys.argv[2:] or [c["property_id"] for c in json.load(open(VERIF + "/MANIFEST.json"))["checks"]]
d = tempfile.mkdtemp(prefix="neutral_")
wt = d + "/wt"
rec = {"patch": patch, "checks": {}}
try:
    subprocess.run(["git", "-C", "/repo", "worktree", "add", "-q", "--detach", wt, "HEAD"], check=True)
    r = subprocess.run(["git", "apply", patch], cwd=wt, capture_output=True, text=True)
    if r.returncode != 0:
        print("patch does not apply:", r.stderr[-300:])
        sys.exit(3)
    env = dict(os.environ, AHBICHT_REPO=wt, PYTHONPATH=wt + "/src")
    t = subprocess.run("/venv/bin/python -m pytest -q -p no:cacheprovider --timeout=900 unittests 2>&1 | tail -1",
                       cwd=wt, env=env, shell=True, capture_output=True, text=True)
    rec["tests"] = t.stdout.strip()[-60:]

    def one(p):
        t0 = time.time()
        # evidence of these runs must not overwrite the committed evidence: separate output directory
        e = dict(env, VERIF_EVIDENCE_DIR=d + "/evidence")
        r = subprocess.run([VERIF + "/vcheck", p, "--tier", "quick"], cwd=VERIF, env=e, capture_output=True, text=True)
        out = r.stdout + r.stderr
        lines = [l for l in out.splitlines() if l.startswith(("VIOLATION", "  obligation", "UNDECIDED", "SUMMARY", "CHECKER"))]
        return p, {"exit": r.returncode, "seconds": round(time.time() - t0, 1), "lines": lines[:10]}
    with cf.ThreadPoolExecutor(max_workers=int(os.environ.get("NEUTRAL_JOBS", "3"))) as ex:
        for p, res in ex.map(one, props):
            rec["checks"][p] = res
finally:
    subprocess.run(["git", "-C", "/repo", "worktree", "remove", "--force", wt], capture_output=True)
    shutil.rmtree(d, ignore_errors=True)
    subprocess.run(["git", "checkout", "--", "evidence"], cwd=VERIF, capture_output=True)
alarms = [p for p, r in rec["checks"].items() if r["exit"] != 0 or any(l.startswith("VIOLATION") for l in r["lines"])]
und = {p: [l for l in r["lines"] if l.startswith("UNDECIDED")] for p, r in rec["checks"].items()}
und = {p: v for p, v in und.items() if v}
print(json.dumps({"patch": os.path.basename(patch), "tests": rec.get("tests"), "alarms": alarms, "undecided_in": sorted(und)}))
for p in alarms:
    print("ALARM", p, "exit", rec["checks"][p]["exit"])
    for l in rec["checks"][p]["lines"][:6]:
        print("    ", l[:300])
for p, v in und.items():
    for l in v[:3]:
        print("  undecided", p, l[:240])
sys.exit(1 if alarms else 0)
