"""C07 (bounded stand-in, API level): the collected format-constraint expression is well-formed and meaning-preserving.

For every valid in-domain expression tree within the bound x every assignment of FULFILLED/UNFULFILLED/UNKNOWN to its
requirement keys x every truth assignment to its format-constraint keys, the `format_constraints_expression` returned
by the REAL evaluation is `None` or a string that
  (a) parses with the real condition parser,
  (b) consists only of format-constraint keys of the source expression joined by U/O/X and brackets,
  (c) has - under the truth assignment - the Boolean value `fc_value(fc_spec(tree, asg), truth)`; judged twice: by a tiny
      evaluator over the tree the real parser returns for it, and by the real `format_constraint_evaluation` (whose
      result is part of what the public API returns).
`fc_spec`/`fc_value` are the oracle written from the property statement (specs.treesem).
"""
from __future__ import annotations

import random
import re
import time
from typing import Dict, List, Optional

from bounded import common as bc
from bounded.c04 import (Violations, cut_note, deadline_for, eval_item, fc_words, make_item, pmap_until, rc_words,
                         replay_snippet)
from specs import treesem as ts

_ALPHABET = re.compile(r"(?:\[\d+\]|[UOX]|[()]| )*")
_OPS = {"and_composition": ts.AND, "or_composition": ts.OR, "xor_composition": ts.XOR}


class Inspected:
    """what the real parser makes of one returned expression string"""

    def __init__(self, fce):
        self.problem: Optional[str] = None
        self.keys: List[str] = []
        self.term = None
        if not isinstance(fce, str):
            self.problem = f"neither None nor a string: {fce!r}"
            return
        if not _ALPHABET.fullmatch(fce):
            self.problem = "contains something else than [keys], U/O/X, brackets and blanks"
            return
        from ahbicht.expressions.condition_expression_parser import parse_condition_expression_to_tree
        try:
            tree = parse_condition_expression_to_tree(fce)
        except SyntaxError as err:
            self.problem = "does not parse: SyntaxError " + " ".join(str(err).split())[:80]
            return
        try:
            self.term = self._convert(tree)
        except ValueError as err:
            self.problem = str(err)

    def _convert(self, node):
        from lark import Token, Tree
        if not isinstance(node, Tree):
            raise ValueError(f"unexpected parse result {node!r}")
        if node.data == "condition" and len(node.children) == 1 and isinstance(node.children[0], Token):
            self.keys.append(str(node.children[0].value))
            return ts.Key(str(node.children[0].value))
        if node.data in _OPS and len(node.children) == 2:
            return ts.Bin(_OPS[node.data], self._convert(node.children[0]), self._convert(node.children[1]))
        raise ValueError(f"contains a '{node.data}' (only U/O/X compositions of keys are allowed)")


_CACHE: Dict[object, Inspected] = {}


def judge(t: ts.Tree, rc_keys, fc_keys, rw: str, fw: str, r):
    """-> (problem or None, returned expression, direct reading, expected value) for one real result `r`"""
    fce, real_fc_fulfilled = r[3], r[4]
    asg, truth = ts.decode_asg(rc_keys, rw), ts.decode_truth(fc_keys, fw)
    spec_term = ts.fc_spec(t, asg)
    expected = ts.fc_value(spec_term, truth)
    problem = None
    if fce is None:
        if expected is not True:
            problem = f"no expression returned (counts as fulfilled) but the direct reading {_show(spec_term)} is unfulfilled"
    else:
        ins = _CACHE.get(fce) if isinstance(fce, str) else None
        if ins is None:
            ins = Inspected(fce)
            if isinstance(fce, str):
                _CACHE[fce] = ins
        if ins.problem:
            problem = f"returned expression {fce!r} {ins.problem}"
        elif not set(ins.keys) <= set(fc_keys):
            problem = f"returned expression {fce!r} contains keys that are no format-constraint keys of the source"
        else:
            own = ts.fc_value(ins.term, truth)
            if own is not expected:
                problem = (f"returned expression {fce!r} has value {own} under {truth}; the direct reading "
                           f"{_show(spec_term)} has value {expected}")
    if problem is None and real_fc_fulfilled is not expected:
        problem = (f"format_constraint_evaluation of the returned expression {fce!r} gave {real_fc_fulfilled!r} "
                   f"under {truth}; the direct reading {_show(spec_term)} has value {expected}")
    return problem, fce, spec_term, expected


def check_trees(ctx, name: str, trees: List[ts.Tree], exhaustive: bool, bound: str, deadline: float) -> None:
    t0 = time.time()
    bc.configure_inject()
    items = [make_item(t, [(rw, fw) for rw in rc_words(t) for fw in fc_words(t)]) for t in trees]
    results = pmap_until(eval_item, items, deadline)
    exhaustive, bound = exhaustive and len(results) == len(items), bound + cut_note(len(results), len(items))
    viol = Violations(ctx, name)
    evaluations, samples, seen, distinct, distinct_strings, absent, skipped = 0, [], set(), 0, set(), 0, 0
    for t, item, res in zip(trees, items, results):
        text, rc_keys, fc_keys, hint_keys, cases = item
        evaluations += len(cases)
        if any(r[0] != "ok" for r in res):
            skipped += 1  # structurally valid but not evaluable: C04/C06 report that
            continue
        nontrivial = bool(fc_keys) and ts.n_ops(t) >= 1
        if nontrivial and text not in seen:
            seen.add(text)
            distinct += len(set(cases))
        for (rw, fw), r in zip(cases, res):
            problem, fce, spec_term, expected = judge(t, rc_keys, fc_keys, rw, fw, r)
            if fce is None:
                absent += 1
            elif isinstance(fce, str):
                distinct_strings.add(fce)
            if len(samples) < 5 and fce and len(distinct_strings) % 13 == 5 and len(fce) > 12 and \
                    all(s["returned"] != fce for s in samples):
                samples.append({"expression": text, "rc": dict(zip(rc_keys, rw)), "fc": dict(zip(fc_keys, fw)),
                                "returned": fce, "value": expected})
            if problem:
                def recheck(t=t, item=item, rw=rw, fw=fw):
                    r2 = eval_item((*item[:4], ((rw, fw),)))[0]
                    if r2[0] != "ok":
                        return list(r2[:2])
                    p2 = judge(t, item[1], item[2], rw, fw, r2)[0]
                    return None if p2 is None else {"format_constraints_expression": r2[3],
                                                    "format_constraints_fulfilled": r2[4], "problem": p2}
                viol.add(len(text), f"{text}|{rw}|{fw}", f"{text!r} under {dict(zip(rc_keys, rw))}: {problem}",
                         {"expression": "Muss " + text, "rc": dict(zip(rc_keys, rw)), "fc": dict(zip(fc_keys, fw)),
                          "returned_format_constraints_expression": fce, "direct_reading": _show(spec_term),
                          "expected_value": expected},
                         recheck, replay_snippet(text, rc_keys, fc_keys, hint_keys, rw, fw))
    viol.flush()
    if skipped:
        ctx.note(f"{name}: {skipped} structurally valid expressions were not evaluable by the real code "
                 "(reported by C04/C06, skipped here)")
    ctx.bounded(name, evaluations, distinct,
                "distinct (expression text, requirement assignment, format truth assignment) triples whose tree has "
                f">=1 operator and >=1 format-constraint key; {len(distinct_strings)} distinct returned strings "
                f"inspected, {absent} cases with no expression",
                samples, exhaustive=exhaustive, bound=bound + " x all 3^m assignments x all 2^n truth assignments",
                seconds=time.time() - t0)


def _show(term) -> str:
    if term == ts.BOT:
        return "<absent>"
    if ts.is_key(term):
        return f"[{term.k}]"
    return f"({_show(term.a)} {ts.LETTER[term.op]} {_show(term.b)})"


def run(ctx, tier: str, seed: int) -> None:
    ts.self_check()
    ctx.trust("A-LARK-RESOLVE (grouping of the rendered text is the tree it was rendered from: C01)")
    rng = random.Random(seed)
    deadline = deadline_for(tier, time.time())
    leaves = ts.default_leaves()
    by_n = ts.enumerate_trees(3 if tier == "quick" else 4, leaves)
    small = [t for n in (1, 2, 3) for t in by_n[n] if ts.valid(t)]
    check_trees(ctx, "fc-expression/<=3-leaves", small, True,
                "all valid in-domain trees with <=3 leaves over keys 1,2,3/501,502/901,902", deadline)
    if tier != "quick":
        four = [t for t in by_n[4] if ts.valid(t) and ts.keys_of(t, ts.FC)]
        n = 50000
        exhaustive = len(four) <= n
        if not exhaustive:
            four = rng.sample(four, n)
        check_trees(ctx, "fc-expression/4-leaves", four, exhaustive,
                    f"{'all' if exhaustive else 'seeded sample of ' + str(n) + ' of the'} valid in-domain trees with 4 "
                    "leaves and >=1 format-constraint key", deadline)
    from bounded.c04 import run_same_tree
    run_same_tree(ctx, "C07")
