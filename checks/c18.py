"""C18 - key extraction partitions keys by range; all possible evaluations enumerated: hybrid.
P: number ranges for all integers (linear arithmetic over a key view), partition of a key list (first offending key
decides the exception), sanitize / __add__ (set + sort(key=int) as assumed library functions).  B: tree extraction,
Cartesian-product identity of generate_possible_content_evaluation_results (itertools: bounded only)."""
from checks.common import encapsulation_obligations, prove, run_bounded
from vlib.report import Ctx

LEVEL = "other"
TARGETS = ["ahbicht.condition_node_distinction:derive_condition_node_type",
           "ahbicht.expressions.condition_expression_parser:extract_categorized_keys_from_tree",
           "ahbicht.models.categorized_key_extract:CategorizedKeyExtract.sanitize",
           "ahbicht.models.categorized_key_extract:CategorizedKeyExtract.__add__"]


def run(ctx: Ctx) -> None:
    ctx.explanation = (
        "PROVED (z3, linear integer arithmetic): derive_condition_node_type maps every key to the category of its "
        "number range and rejects everything else - the key string is seen through the view (is_package, is_numeric, n), "
        "`endswith('P')` and `int()` being the only operations performed on it; extract_categorized_keys_from_tree "
        "(list input) puts every key into exactly the list of its range, in input order, and aborts at the first "
        "package / out-of-range key; sanitize leaves each list as sort_by_int(distinct(list)) and __add__ returns the "
        "sanitised union without touching the summands (set and list.sort(key=int) are assumed library contracts). "
        "BOUNDED: extraction from trees and with resolution, and the Cartesian-product identity of "
        "generate_possible_content_evaluation_results (itertools.combinations/product, generator expressions).")
    ctx.trust("A-STDLIB set / list.sort(key=int)", "A-LARK-TREE (scan_values) for tree input: bounded only",
              "itertools.combinations / product: bounded only")
    prove(ctx, TARGETS)
    encapsulation_obligations(ctx, cached_function_private=False)
    run_bounded(ctx, "C18")
