"""Token-level obligations of C02 (and C01/C09): every terminal of the two Lark grammars - as Lark compiled it from the
grammar string of the CURRENT tree - denotes exactly the documented token language, decided for ALL strings over the
full Unicode alphabet (0 .. 0x10FFFF), not for samples:

* the structure of the terminal's regular expression is taken from CPython's own regex parser (`re._parser`);
* the set of characters each single-character construct matches (a literal under IGNORECASE, `\\d`, `\\s`, a class, ...)
  is computed with the real `re` engine over all 1 114 112 code points - so Unicode digits, the Kelvin sign matching
  `(?i:k)`, the long s matching `(?i:s)` and the like are what the engine really does, not what we believe it does;
* equality of the two regular languages is decided by a product construction over the (few) character classes.

A terminal that differs is reported with a shortest distinguishing string, replayed against `re.fullmatch`.  This is a
SUFFICIENT-condition obligation (token languages right + grammar rules right => language right): a failure is
*undecided* unless the distinguishing string, put into an expression, is accepted by the real parser and rejected by the
reference recogniser (or vice versa) - then it is a violation with that expression as witness.
Terminals with look-arounds (CONDITION_EXPRESSION of the AHB grammar, a pre-filter whose matches are parsed again by the
condition grammar) are outside regular-language reasoning and are listed as not covered."""
from __future__ import annotations

import re
import time
from typing import Dict, FrozenSet, List, Optional, Set, Tuple

try:
    import re._parser as sre_parse  # Python >= 3.11
    import re._constants as sre_c
except ImportError:  # pragma: no cover
    import sre_parse  # type: ignore
    import sre_constants as sre_c  # type: ignore

MAXCP = 0x110000
ALLCHARS = "".join(map(chr, range(MAXCP)))

#: documented token languages (ASCII, explicit classes, no flags) by terminal name
SPEC: Dict[str, str] = {
    "WS": r"[ \t\f\r\n]+",
    "TIME_CONDITION_KEY": r"UB[123]",
    "CONDITION_KEY": r"[0-9]+",
    "REPEATABILITY": r"[0-9]+\.\.[1-9][0-9]*",
    "PACKAGE_KEY": r"[0-9]+P",
    "O": r"[Oo]", "X": r"[Xx]", "U": r"[Uu]",
    "LPAR": r"\(", "RPAR": r"\)", "LSQB": r"\[", "RSQB": r"\]",
    "PREFIX_OPERATOR": r"[XxOoUu]",
    "MODAL_MARK": r"[Mm]([Uu][Ss][Ss])?|[Ss]([Oo][Ll][Ll])?|[Kk]([Aa][Nn][Nn])?",
}
SYMBOLS = {"∨", "⊻", "∧"}          # anonymous terminals: exactly these one-character strings
NOT_REGULAR = {"CONDITION_EXPRESSION"}  # look-ahead + \B: a pre-filter, re-parsed by the condition grammar


class NotTranslatable(Exception):
    pass


# ------------------------------------------------------------------------------------------------ regex -> AST with atoms
class Atom:
    """a single-character construct: `text` is a one-character pattern, `icase` whether IGNORECASE is active"""
    __slots__ = ("text", "icase", "chars")

    def __init__(self, text: str, icase: bool) -> None:
        self.text, self.icase = text, icase
        self.chars: Optional[FrozenSet[str]] = None


def _esc(cp: int) -> str:
    return re.escape(chr(cp))


_CATEGORY_TEXT = {sre_c.CATEGORY_DIGIT: r"\d", sre_c.CATEGORY_NOT_DIGIT: r"\D", sre_c.CATEGORY_SPACE: r"\s",
                  sre_c.CATEGORY_NOT_SPACE: r"\S", sre_c.CATEGORY_WORD: r"\w", sre_c.CATEGORY_NOT_WORD: r"\W"}


def _class_text(items) -> str:
    out = ["["]
    for op, av in items:
        if op is sre_c.NEGATE:
            out.append("^")
        elif op is sre_c.LITERAL:
            out.append(_esc(av))
        elif op is sre_c.RANGE:
            out.append(f"{_esc(av[0])}-{_esc(av[1])}")
        elif op is sre_c.CATEGORY:
            if av not in _CATEGORY_TEXT:
                raise NotTranslatable(f"category {av}")
            out.append(_CATEGORY_TEXT[av])
        else:
            raise NotTranslatable(f"class item {op}")
    out.append("]")
    return "".join(out)


def translate(sub, icase: bool, atoms: List[Atom]):
    """SubPattern -> ('cat', [..]) | ('alt', [..]) | ('rep', r, lo, hi|None) | ('atom', index) | ('eps',)"""
    seq = []
    for op, av in sub:
        if op is sre_c.LITERAL:
            atoms.append(Atom(_esc(av), icase))
            seq.append(("atom", len(atoms) - 1))
        elif op is sre_c.NOT_LITERAL:
            atoms.append(Atom(f"[^{_esc(av)}]", icase))
            seq.append(("atom", len(atoms) - 1))
        elif op is sre_c.IN:
            atoms.append(Atom(_class_text(av), icase))
            seq.append(("atom", len(atoms) - 1))
        elif op is sre_c.ANY:
            atoms.append(Atom(".", icase))
            seq.append(("atom", len(atoms) - 1))
        elif op is sre_c.BRANCH:
            seq.append(("alt", [translate(b, icase, atoms) for b in av[1]]))
        elif op is sre_c.SUBPATTERN:
            _group, add_flags, del_flags, p = av
            ic = (icase or bool(add_flags & re.IGNORECASE)) and not bool(del_flags & re.IGNORECASE)
            seq.append(translate(p, ic, atoms))
        elif op in (sre_c.MAX_REPEAT, sre_c.MIN_REPEAT):
            lo, hi, p = av
            seq.append(("rep", translate(p, icase, atoms), lo, None if hi is sre_c.MAXREPEAT else hi))
        else:
            raise NotTranslatable(f"construct {op}")
    return ("cat", seq)


def parse(pattern: str, flags: int = 0):
    atoms: List[Atom] = []
    sub = sre_parse.parse(pattern, flags)
    icase = bool((flags | sub.state.flags) & re.IGNORECASE)
    if (flags | sub.state.flags) & ~(re.IGNORECASE | re.UNICODE):
        raise NotTranslatable("flags other than IGNORECASE")
    return translate(sub, icase, atoms), atoms


_ATOM_CACHE: Dict[Tuple[str, bool], FrozenSet[str]] = {}


def atom_chars(a: Atom) -> FrozenSet[str]:
    key = (a.text, a.icase)
    if key not in _ATOM_CACHE:
        rx = re.compile(a.text, (re.IGNORECASE if a.icase else 0) | re.DOTALL)
        _ATOM_CACHE[key] = frozenset(rx.findall(ALLCHARS))
    return _ATOM_CACHE[key]


# ------------------------------------------------------------------------------------------------ NFA over character classes
class NFA:
    def __init__(self) -> None:
        self.eps: List[Set[int]] = []
        self.edges: List[List[Tuple[int, int]]] = []   # state -> [(atom id, target)]

    def new(self) -> int:
        self.eps.append(set())
        self.edges.append([])
        return len(self.eps) - 1

    def build(self, node, start: int) -> int:
        kind = node[0]
        if kind == "atom":
            t = self.new()
            self.edges[start].append((node[1], t))
            return t
        if kind == "cat":
            cur = start
            for n in node[1]:
                cur = self.build(n, cur)
            return cur
        if kind == "alt":
            end = self.new()
            for n in node[1]:
                s = self.new()
                self.eps[start].add(s)
                self.eps[self.build(n, s)].add(end)
            return end
        if kind == "rep":
            _, r, lo, hi = node
            cur = start
            for _ in range(lo):
                cur = self.build(r, cur)
            if hi is None:
                loop = self.new()
                self.eps[cur].add(loop)
                back = self.build(r, loop)
                self.eps[back].add(loop)
                return loop
            end = self.new()
            self.eps[cur].add(end)
            for _ in range(hi - lo):
                cur = self.build(r, cur)
                self.eps[cur].add(end)
            return end
        raise NotTranslatable(kind)

    def closure(self, states: FrozenSet[int]) -> FrozenSet[int]:
        seen = set(states)
        stack = list(states)
        while stack:
            s = stack.pop()
            for t in self.eps[s]:
                if t not in seen:
                    seen.add(t)
                    stack.append(t)
        return frozenset(seen)


def _compile(pattern: str, flags: int):
    ast_, atoms = parse(pattern, flags)
    n = NFA()
    s0 = n.new()
    acc = n.build(ast_, s0)
    return n, s0, acc, atoms


def distinguish(pat_a: str, flags_a: int, pat_b: str, flags_b: int = 0) -> Optional[str]:
    """None if the two patterns match exactly the same strings (as with fullmatch), else a shortest string in the
    symmetric difference"""
    na, sa, fa, atoms_a = _compile(pat_a, flags_a)
    nb, sb, fb, atoms_b = _compile(pat_b, flags_b)
    sets = [atom_chars(a) for a in atoms_a] + [atom_chars(a) for a in atoms_b]
    # character classes: signature of membership in every atom; code points in no 'small' set form the rest class
    small = [s if len(s) <= MAXCP // 2 else None for s in sets]
    compl = [None if sm is not None else frozenset(ALLCHARS) - s for sm, s in zip(small, sets)]
    mentioned: Set[str] = set()
    for sm, co in zip(small, compl):
        mentioned |= sm if sm is not None else co
    classes: Dict[Tuple[bool, ...], str] = {}
    for ch in sorted(mentioned, key=lambda c: (ord(c) < 128, ord(c))):   # prefer a non-ASCII representative
        sig = tuple(ch in s for s in sets)
        classes.setdefault(sig, ch)
    rest = next((chr(cp) for cp in (0x10FFFF, 0xE000, 0x263A, 0x7F) if chr(cp) not in mentioned), None)
    if rest is not None:
        classes.setdefault(tuple(rest in s for s in sets), rest)
    reps = list(classes.items())
    ka = len(atoms_a)
    start = (na.closure(frozenset([sa])), nb.closure(frozenset([sb])))
    seen = {start: ""}
    queue = [start]
    while queue:
        cur = queue.pop(0)
        A, B = cur
        if (fa in A) != (fb in B):
            return seen[cur]
        for sig, ch in reps:
            ta = frozenset(t for s in A for (k, t) in na.edges[s] if sig[k])
            tb = frozenset(t for s in B for (k, t) in nb.edges[s] if sig[ka + k])
            nxt = (na.closure(ta), nb.closure(tb))
            if not nxt[0] and not nxt[1]:
                continue
            if nxt not in seen:
                seen[nxt] = seen[cur] + ch
                queue.append(nxt)
    return None


# ------------------------------------------------------------------------------------------------ the obligations
def _flags_of(term) -> int:
    f = 0
    for x in term.pattern.flags:
        f |= {"i": re.IGNORECASE}.get(x, 1 << 30)
    return f


def obligations(ctx, grammars=("condition", "ahb")) -> None:
    import ahbicht.content_evaluation  # noqa: F401
    from ahbicht.expressions import ahb_expression_parser as ahbp
    from ahbicht.expressions import condition_expression_parser as condp
    from specs import refparser
    for gname, parser, wrap in (("condition", getattr(condp, "_parser", None), True),
                                ("ahb", getattr(ahbp, "_parser", None), False)):
        if gname not in grammars:
            continue
        if parser is None or not hasattr(parser, "terminals"):
            ctx.obligation(f"token-language/{gname}", "undecided", backend="automaton equivalence over all of Unicode",
                           detail="the module-level Lark parser `_parser` was not found in this tree")
            continue
        for term in parser.terminals:
            t0 = time.time()
            name = term.name
            oname = f"token-language/{gname}/{name}"
            real = term.pattern.to_regexp()
            if name in NOT_REGULAR:
                ctx.note(f"{oname}: {real!r} uses look-arounds (a pre-filter; its matches are parsed again by the "
                         f"condition grammar): not covered by the token-language obligations")
                continue
            try:
                if name.startswith("__ANON"):
                    w = None if real in SYMBOLS else real
                    spec = real
                else:
                    if name not in SPEC:
                        ctx.obligation(oname, "undecided", backend="automaton equivalence over all of Unicode",
                                       seconds=time.time() - t0,
                                       detail=f"terminal {name} = {real!r} is not in the table of documented tokens")
                        continue
                    spec = SPEC[name]
                    w = distinguish(real, _flags_of(term), spec, 0)
            except NotTranslatable as e:
                ctx.obligation(oname, "undecided", backend="automaton equivalence over all of Unicode",
                               seconds=time.time() - t0, detail=f"{real!r}: {e}")
                continue
            if w is None:
                ctx.obligation(oname, "exhaustive", backend="automaton equivalence over all of Unicode "
                               "(character sets taken from the re engine)", seconds=time.time() - t0,
                               detail=f"{real!r} == {spec!r}")
                continue
            # replay 1: the regular expression engine itself
            in_real = re.fullmatch(real, w, _flags_of(term)) is not None
            in_spec = re.fullmatch(spec, w) is not None
            detail = (f"terminal {name} = {real!r} and the documented token {spec!r} differ on {w!r} "
                      f"(U+{' U+'.join(f'{ord(c):04X}' for c in w)}): re.fullmatch says real={in_real}, documented={in_spec}")
            # replay 2: an expression around the token, real parser against the reference recogniser
            exprs = []
            if gname == "condition":
                exprs = [f"[{w}]", f"[1{w}]", f"[1]{w}[2]", f"[1P{w}]", f"{w}[1]", f"[1] {w} [2]"]
            else:
                exprs = [f"{w}[1]", f"{w} [1]", f"{w}"]
            witness = None
            for e in exprs:
                try:
                    (condp.parse_condition_expression_to_tree if gname == "condition"
                     else ahbp.parse_ahb_expression_to_single_requirement_indicator_expressions)(e)
                    real_ok = True
                except SyntaxError:
                    real_ok = False
                if gname == "condition":
                    ref_ok = refparser.ref_accepts_condition(e)
                    differ = real_ok != ref_ok
                else:
                    # the AHB parser alone only splits: it may accept a malformed condition part ('shape')
                    verdict = refparser.ref_accepts_ahb(e)
                    ref_ok = verdict != "no"
                    differ = (real_ok and verdict == "no") or (not real_ok and verdict == "yes")
                if differ:
                    witness = (e, real_ok, ref_ok)
                    break
            if witness is None:
                ctx.obligation(oname, "undecided", backend="automaton equivalence over all of Unicode",
                               seconds=time.time() - t0, detail=detail + "; no expression around it separates the real "
                               "parser from the reference recogniser")
                continue
            e, real_ok, ref_ok = witness
            ctx.obligation(oname, "violated", backend="automaton equivalence over all of Unicode", seconds=time.time() - t0,
                           detail=detail)
            ctx.violation(oname, f"{detail}; the expression {e!r} is {'accepted' if real_ok else 'rejected'} by the real "
                          f"parser and {'accepted' if ref_ok else 'rejected'} by the documented language",
                          witness={"expression": e, "token": w, "real_accepts": real_ok, "documented": ref_ok},
                          replayed=True, signature=f"token|{gname}|{name}",
                          replay_code=("import ahbicht.content_evaluation\n"
                                       + ("from ahbicht.expressions.condition_expression_parser import "
                                          "parse_condition_expression_to_tree as p\n" if gname == "condition" else
                                          "from ahbicht.expressions.ahb_expression_parser import "
                                          "parse_ahb_expression_to_single_requirement_indicator_expressions as p\n")
                                       + f"try:\n    print('accepted:', p({e!r}))\nexcept SyntaxError as x:\n"
                                         f"    print('SyntaxError:', x)\n"))
