#!/bin/bash
# usage: .mut.sh <module> <mutant dir name>
cd /verif && ./.runmod.sh $1 quick /tmp/pa/$2/src 2>&1 | grep -E "^VIOLATION|^  obligation|^SUMMARY|^exit|Traceback|Error" | cut -c1-260 | head -14
