"""C19 - JSON serialisation round-trips: exploration (bounded) plus ground conformance obligations generated from both
ASTs (attrs class <-> marshmallow schema).  marshmallow interprets declarative schema objects by reflection: a VC
through it is out of reach (DESIGN §6)."""
import ast
import time

from checks.common import run_bounded, verifier
from vlib.report import Ctx

LEVEL = "exploration"
PAIRS = [("ahbicht.models.evaluation_results", "RequirementConstraintEvaluationResult"),
         ("ahbicht.models.evaluation_results", "FormatConstraintEvaluationResult"),
         ("ahbicht.models.evaluation_results", "AhbExpressionEvaluationResult"),
         ("ahbicht.models.content_evaluation_result", "ContentEvaluationResult"),
         ("ahbicht.models.categorized_key_extract", "CategorizedKeyExtract"),
         ("ahbicht.models.condition_nodes", "EvaluatedFormatConstraint")]


def _kw(call: ast.Call, name: str):
    for k in call.keywords:
        if k.arg == name:
            return k.value
    return None


def ground_obligations(ctx: Ctx) -> None:
    """for every field f: T of the attrs class: a schema field of the same name exists, and if T admits None the
    schema field accepts None on load (A-MARSHMALLOW: allow_none, or load_default=None which implies it)"""
    v = verifier()
    t0 = time.time()
    for modname, cls in PAIRS:
        mod = v.ex.repo.modules[modname]
        ci = mod.classes[cls]
        sch = mod.classes.get(cls + "Schema")
        if sch is None:
            ctx.obligation(f"schema/{cls}/exists", "undecided", backend="ground check on both ASTs",
                           detail="schema class not found")
            continue
        fields = {f.name: f for f in v.ex.repo.attrs_fields(cls)}
        sfields = {k: e for k, e in sch.class_attrs.items() if isinstance(e, ast.Call)}
        missing = [f for f in fields if f not in sfields]
        bad_none = []
        for name, f in fields.items():
            if name not in sfields:
                continue
            ann = ast.unparse(f.annotation) if f.annotation is not None else ""
            optional = ann.startswith("Optional[")
            call = sfields[name]
            allow = _kw(call, "allow_none")
            ld = _kw(call, "load_default")
            accepts_none = (isinstance(allow, ast.Constant) and allow.value is True) or \
                (allow is None and isinstance(ld, ast.Constant) and ld.value is None)
            if optional and not accepts_none:
                bad_none.append(name)
        ok = not missing and not bad_none
        ctx.obligation(f"schema/{cls}/every-field-has-a-schema-field-and-optional-fields-accept-null",
                       "discharged" if ok else "undecided", backend="ground check on both ASTs",
                       seconds=time.time() - t0,
                       detail=f"fields={sorted(fields)} missing={missing} optional-but-null-rejected={bad_none}")


def run(ctx: Ctx) -> None:
    ctx.explanation = ("bounded round trips of every schema over small field domains and over objects the real code "
                       "produces; plus ground conformance obligations attrs class <-> schema")
    ctx.trust("A-MARSHMALLOW (field contracts)", "bounded: never counted as proved")
    ground_obligations(ctx)
    run_bounded(ctx, "C19")
