"""Lemmas over the CONTRACTS of the requirement-constraint transformer callbacks (nothing here looks at their bodies:
`t.and_composition(l, r)` etc. are applied modularly): the structural-induction steps of C04 / C06 / C07, the
transformations of C05, and the canaries.  The induction principle itself is the assumed contract A-LARK-FOLD
(Transformer.transform is a bottom-up fold over exactly these callbacks).

A sub-tree is represented by the node `n` it evaluated to plus the ghost values the spec functions of DESIGN
Appendix A assign to it:  sc = spec_cf(tree, asg),  crc = carries_rc(tree),  fs = fc_spec(tree, asg) (canonical
string or None),  leaf-ness is visible in the class of `n` (kind_of(tree) = class of the leaf node, EC for inner nodes).
IH(n; sc, crc, fs)  :=  n.cf == sc  and  (n.cf != N) == crc  and  fcv(n) == fs.
"""
from ahbicht.expressions import InvalidExpressionError
from ahbicht.models.condition_nodes import (EvaluatedComposition, Hint, RequirementConstraint,
                                            UnevaluatedFormatConstraint)
from contracts.rc_transformer import SELF, fcv, invalid_mix, join, node
from pyvc.contracts import Bool, Enum, Opt, Str, lemma
from specs.logic import F, K, N, U, and4, or4, refines, xor4

CFV = "ConditionFulfilledValue"
STEP = dict(t=SELF, l=node(), r=node(), sl=Enum(CFV), sr=Enum(CFV), cl=Bool(), cr=Bool(), fl=Opt(Str()),
            fr=Opt(Str()))


def ih(n, sc, crc, fs):
    return n.conditions_fulfilled == sc and (n.conditions_fulfilled != N) == crc and fcv(n) == fs


# ------------------------------------------------------------------------------------------------ induction steps
@lemma(STEP, prop=["C04", "C06", "C07"])
def step_and(t, l, r, sl, sr, cl, cr, fl, fr):
    """AND node: never raises; spec_cf = and4, carries_rc = cl or cr, fc_spec = join(U)"""
    if not (ih(l, sl, cl, fl) and ih(r, sr, cr, fr)):
        return True
    res = t.and_composition(l, r)
    return isinstance(res, EvaluatedComposition) and ih(res, and4(sl, sr), cl or cr, join("U", fl, fr))


def valid_here(l, r, cl, cr):
    """C06, structural: invalid iff a single hint meets a single format constraint, or a neutral-only operand meets
    an operand carrying a requirement constraint"""
    if (isinstance(l, Hint) and isinstance(r, UnevaluatedFormatConstraint)) \
            or (isinstance(r, Hint) and isinstance(l, UnevaluatedFormatConstraint)):
        return False
    return cl == cr


@lemma(STEP, prop=["C04", "C06", "C07"])
def step_or(t, l, r, sl, sr, cl, cr, fl, fr):
    if not (ih(l, sl, cl, fl) and ih(r, sr, cr, fr)):
        return True
    try:
        res = t.or_composition(l, r)
    except InvalidExpressionError:
        return not valid_here(l, r, cl, cr)
    return valid_here(l, r, cl, cr) and isinstance(res, EvaluatedComposition) \
        and ih(res, or4(sl, sr), cl or cr, join("O", fl, fr))


@lemma(STEP, prop=["C04", "C06", "C07"])
def step_xor(t, l, r, sl, sr, cl, cr, fl, fr):
    if not (ih(l, sl, cl, fl) and ih(r, sr, cr, fr)):
        return True
    try:
        res = t.xor_composition(l, r)
    except InvalidExpressionError:
        return not valid_here(l, r, cl, cr)
    return valid_here(l, r, cl, cr) and isinstance(res, EvaluatedComposition) \
        and ih(res, xor4(sl, sr), cl or cr, join("X", fl, fr))


def then_spec_fc(fc, other, so, fo):
    """fc_spec of a THEN node: the attached constraint takes part iff its partner is FULFILLED or a hint"""
    if so == F or isinstance(other, Hint):
        return join("U", "[" + fc.condition_key + "]", fo)
    return None


@lemma(STEP, prop=["C04", "C06", "C07"])
def step_then(t, l, r, sl, sr, cl, cr, fl, fr):
    """THEN node inside the quantifier's domain: exactly one operand is a format-constraint leaf, the other one a
    hint leaf or an operand carrying a requirement constraint: never raises, keeps the partner's state"""
    if not (ih(l, sl, cl, fl) and ih(r, sr, cr, fr)):
        return True
    lf = isinstance(l, UnevaluatedFormatConstraint)
    rf = isinstance(r, UnevaluatedFormatConstraint)
    if lf == rf:
        return True
    if lf:
        if not (isinstance(r, Hint) or cr):
            return True
        res = t.then_also_composition(l, r)
        return isinstance(res, EvaluatedComposition) and ih(res, sr, cr, then_spec_fc(l, r, sr, fr))
    if not (isinstance(l, Hint) or cl):
        return True
    res = t.then_also_composition(l, r)
    return isinstance(res, EvaluatedComposition) and ih(res, sl, cl, then_spec_fc(r, l, sl, fl))


@lemma(dict(l=node(), r=node(), cl=Bool(), cr=Bool()), prop=["C06"])
def invalid_needs_a_requirement_or_format_key(l, r, cl, cr):
    """(iii) of C06: an invalid composition contains a format key or a requirement key"""
    if valid_here(l, r, cl, cr):
        return True
    return isinstance(l, UnevaluatedFormatConstraint) or isinstance(r, UnevaluatedFormatConstraint) or cl or cr


# ------------------------------------------------------------------------------------------------ C05 transformations
def outcome_of(t, which, x, y):
    """('raise', None) or ('ok', cf) of one callback - used to compare two applications"""
    try:
        if which == 0:
            res = t.and_composition(x, y)
        elif which == 1:
            res = t.or_composition(x, y)
        else:
            res = t.xor_composition(x, y)
    except InvalidExpressionError:
        return ("raise", None)
    return ("ok", res.conditions_fulfilled)


WHICH = dict(which=Enum("LogicalOperator"))


def _idx(which):
    from ahbicht.models.enums import LogicalOperator
    if which == LogicalOperator.LAND:
        return 0
    if which == LogicalOperator.LOR:
        return 1
    return 2


@lemma(dict(t=SELF, x=node(), h=node()), prop=["C05"])
def l1_hint_onto_operand_keeps_state(t, x, h):
    """and-ing a hint onto x never raises, yields an EvaluatedComposition with x's state"""
    if not isinstance(h, Hint):
        return True
    res = t.and_composition(x, h)
    res2 = t.and_composition(h, x)
    return isinstance(res, EvaluatedComposition) and res.conditions_fulfilled == x.conditions_fulfilled \
        and isinstance(res2, EvaluatedComposition) and res2.conditions_fulfilled == x.conditions_fulfilled


@lemma(dict(t=SELF, x=node(), y=node(), h=node(), which=Enum("LogicalOperator")), prop=["C05"])
def l1_hint_onto_operand_is_a_congruence(t, x, y, h, which):
    """if c(x, y) is valid then c(x and h, y) and c(y, x and h) are valid with the same state"""
    if not isinstance(h, Hint):
        return True
    w = _idx(which)
    before = outcome_of(t, w, x, y)
    if before[0] == "raise":
        return True
    xh = t.and_composition(x, h)
    return outcome_of(t, w, xh, y) == before and outcome_of(t, w, y, xh) == outcome_of(t, w, y, x)


@lemma(dict(t=SELF, e1=node(), e2=node(), z=node(), which=Enum("LogicalOperator")), prop=["C05"])
def upward_congruence(t, e1, e2, z, which):
    """two EvaluatedCompositions with the same state are interchangeable as operands of every callback"""
    if not (isinstance(e1, EvaluatedComposition) and isinstance(e2, EvaluatedComposition)
            and e1.conditions_fulfilled == e2.conditions_fulfilled):
        return True
    w = _idx(which)
    return outcome_of(t, w, e1, z) == outcome_of(t, w, e2, z) and outcome_of(t, w, z, e1) == outcome_of(t, w, z, e2)


def then_outcome(t, x, fc):
    try:
        res = t.then_also_composition(x, fc)
    except NotImplementedError:
        return ("raise", None)
    return ("ok", res.conditions_fulfilled)


@lemma(dict(t=SELF, e1=node(), e2=node(), fc=node()), prop=["C05"])
def upward_congruence_then(t, e1, e2, fc):
    if not (isinstance(e1, EvaluatedComposition) and isinstance(e2, EvaluatedComposition)
            and e1.conditions_fulfilled == e2.conditions_fulfilled and isinstance(fc, UnevaluatedFormatConstraint)):
        return True
    return then_outcome(t, e1, fc) == then_outcome(t, e2, fc)


@lemma(dict(t=SELF, x=node(), y=node(), fc=node(), which=Enum("LogicalOperator")), prop=["C05"])
def l2_format_constraint_onto_requirement_operand(t, x, y, fc, which):
    """attaching a format constraint to an operand that carries a requirement constraint (state != NEUTRAL, C06
    invariant) keeps its state, and the enclosing composition keeps its outcome"""
    if not isinstance(fc, UnevaluatedFormatConstraint) or isinstance(x, UnevaluatedFormatConstraint) \
            or x.conditions_fulfilled == N:
        return True
    xf = t.then_also_composition(x, fc)
    fx = t.then_also_composition(fc, x)
    w = _idx(which)
    return xf.conditions_fulfilled == x.conditions_fulfilled and fx.conditions_fulfilled == x.conditions_fulfilled \
        and isinstance(xf, EvaluatedComposition) \
        and outcome_of(t, w, xf, y) == outcome_of(t, w, x, y) and outcome_of(t, w, y, xf) == outcome_of(t, w, y, x)


@lemma(dict(t=SELF, x=node(), y=node(), which=Enum("LogicalOperator")), prop=["C05"])
def l4_operand_swap(t, x, y, which):
    w = _idx(which)
    return outcome_of(t, w, x, y) == outcome_of(t, w, y, x)


def same_shape_refined(x, x2):
    """x2 is x with UNKNOWN possibly resolved: same class, state refined"""
    return isinstance(x, RequirementConstraint) == isinstance(x2, RequirementConstraint) \
        and isinstance(x, Hint) == isinstance(x2, Hint) \
        and isinstance(x, UnevaluatedFormatConstraint) == isinstance(x2, UnevaluatedFormatConstraint) \
        and isinstance(x, EvaluatedComposition) == isinstance(x2, EvaluatedComposition) \
        and refines(x.conditions_fulfilled, x2.conditions_fulfilled)


@lemma(dict(t=SELF, x=node(), y=node(), x2=node(), y2=node(), which=Enum("LogicalOperator")), prop=["C05"])
def l5_unknown_monotone(t, x, y, x2, y2, which):
    """every callback is monotone in the information order and its raising does not depend on F/U/UNKNOWN: by the
    fold principle a definite root outcome is unchanged by every resolution of UNKNOWN keys"""
    if not (same_shape_refined(x, x2) and same_shape_refined(y, y2)):
        return True
    w = _idx(which)
    a = outcome_of(t, w, x, y)
    b = outcome_of(t, w, x2, y2)
    if a[0] == "raise" or b[0] == "raise":
        return a[0] == b[0]
    return refines(a[1], b[1])


@lemma(dict(t=SELF, x=node(), x2=node(), fc=node()), prop=["C05"])
def l5_unknown_monotone_then(t, x, x2, fc):
    if not (same_shape_refined(x, x2) and isinstance(fc, UnevaluatedFormatConstraint)):
        return True
    a = then_outcome(t, x, fc)
    b = then_outcome(t, x2, fc)
    if a[0] == "raise" or b[0] == "raise":
        return a[0] == b[0]
    return refines(a[1], b[1])


# ------------------------------------------------------------------------------------------------ canaries
@lemma(STEP, prop=["C04"], canary=True)
def canary_step_or_with_and_semantics(t, l, r, sl, sr, cl, cr, fl, fr):
    if not (ih(l, sl, cl, fl) and ih(r, sr, cr, fr)):
        return True
    try:
        res = t.or_composition(l, r)
    except InvalidExpressionError:
        return True
    return res.conditions_fulfilled == and4(sl, sr)


@lemma(dict(t=SELF, x=node(), y=node()), prop=["C06"], canary=True)
def canary_or_never_raises(t, x, y):
    try:
        t.or_composition(x, y)
    except InvalidExpressionError:
        return False
    return True
