"""C19 bounded stand-in: JSON round trips of trees, evaluation inputs and evaluation results.

(1) every instance over small field domains of the six model classes: load(dump(x)) == x and loads(dumps(x)) == x;
(2) the same for objects PRODUCED by the real code: results of evaluating a pool of expressions × assignments (incl.
    UNKNOWN → None outcomes), generated content evaluation results, extracted CategorizedKeyExtracts;
(3) TreeSchema over trees produced by the real parsers / resolver (≤ 4 leaves, packages, time conditions, resolved and
    unresolved): load(dump(t)) == t, loads(dumps(t)) == t, and evaluating the round-tripped tree gives the same result;
(w) additionally (beyond the literal statement, labelled as such): dumps(x) is the published JSON shape (keys = model
    field names, tree: type/children/token/tree/value as in /repo/json_schemas and the TypeScript models derived from it).
"""
from __future__ import annotations

import json
import random
import time
import uuid
from typing import Any, Dict, List, Tuple

from bounded.common import F, K, N, U, make_cer, pmap, run as run_coro, set_cer

MAXV = 5


# ------------------------------------------------------------------------------------------------ helpers
def _classes():
    from ahbicht.models.categorized_key_extract import CategorizedKeyExtract, CategorizedKeyExtractSchema
    from ahbicht.models.condition_nodes import EvaluatedFormatConstraint, EvaluatedFormatConstraintSchema
    from ahbicht.models.content_evaluation_result import ContentEvaluationResult, ContentEvaluationResultSchema
    from ahbicht.models.evaluation_results import (AhbExpressionEvaluationResult, AhbExpressionEvaluationResultSchema,
                                                   FormatConstraintEvaluationResult, FormatConstraintEvaluationResultSchema,
                                                   RequirementConstraintEvaluationResult,
                                                   RequirementConstraintEvaluationResultSchema)
    return {
        RequirementConstraintEvaluationResult: RequirementConstraintEvaluationResultSchema,
        FormatConstraintEvaluationResult: FormatConstraintEvaluationResultSchema,
        AhbExpressionEvaluationResult: AhbExpressionEvaluationResultSchema,
        ContentEvaluationResult: ContentEvaluationResultSchema,
        CategorizedKeyExtract: CategorizedKeyExtractSchema,
        EvaluatedFormatConstraint: EvaluatedFormatConstraintSchema,
    }


IMPORTS = ("import uuid\n"
           "import ahbicht.content_evaluation\n"
           "from ahbicht.models.categorized_key_extract import *\n"
           "from ahbicht.models.condition_nodes import *\n"
           "from ahbicht.models.content_evaluation_result import *\n"
           "from ahbicht.models.evaluation_results import *\n"
           "from ahbicht.models.enums import *\n")


def pyexpr(x: Any) -> str:
    """An evaluable Python expression that rebuilds x (for the replay snippets)."""
    import enum
    import attrs
    if isinstance(x, enum.Enum):
        return f"{type(x).__name__}.{x.name}"
    if isinstance(x, uuid.UUID):
        return f"uuid.UUID({str(x)!r})"
    if attrs.has(type(x)):
        inner = ", ".join(f"{a.name}={pyexpr(getattr(x, a.name))}" for a in attrs.fields(type(x)))
        return f"{type(x).__name__}({inner})"
    if isinstance(x, dict):
        return "{" + ", ".join(f"{pyexpr(k)}: {pyexpr(v)}" for k, v in x.items()) + "}"
    if isinstance(x, list):
        return "[" + ", ".join(pyexpr(v) for v in x) + "]"
    return repr(x)


def wire(x: Any) -> Any:
    """The published JSON shape of x, built from the object alone (oracle of clause (w))."""
    import enum
    import attrs
    from lark import Token, Tree
    if isinstance(x, Tree):
        children = []
        for c in x.children:
            if isinstance(c, Tree):
                children.append({"token": None, "tree": wire(c)})
            else:
                children.append({"token": {"value": str(c), "type": c.type}, "tree": None})
        return {"type": str(x.data), "children": children}
    if isinstance(x, enum.Enum):
        return str(x.value).upper()
    if isinstance(x, uuid.UUID):
        return str(x)
    if attrs.has(type(x)):
        return {a.name: wire(getattr(x, a.name)) for a in attrs.fields(type(x))}
    if isinstance(x, dict):
        return {k: wire(v) for k, v in x.items()}
    if isinstance(x, list):
        return [wire(v) for v in x]
    return x


def roundtrip_problems(x: Any) -> List[Tuple[str, str]]:
    """[(clause, description)] for one instance of one of the six model classes."""
    schema_cls = _classes()[type(x)]
    out: List[Tuple[str, str]] = []
    try:
        dumped = schema_cls().dump(x)
        back = schema_cls().load(dumped)
        if not (back == x and type(back) is type(x)):
            out.append(("load(dump(x))==x", f"got {back!r}"))
    except Exception as exc:  # noqa: a failing round trip is the violation looked for
        out.append(("load(dump(x))==x", f"raised {type(exc).__name__}: {str(exc)[:200]}"))
    text = None
    try:
        text = schema_cls().dumps(x)
        back = schema_cls().loads(text)
        if not (back == x and type(back) is type(x)):
            out.append(("loads(dumps(x))==x", f"got {back!r} from {text}"))
    except Exception as exc:  # noqa
        out.append(("loads(dumps(x))==x", f"raised {type(exc).__name__}: {str(exc)[:200]}"))
    if text is not None:
        try:
            if json.loads(text) != wire(x):
                out.append(("wire-format", f"dumps gives {text}, published shape is {json.dumps(wire(x), ensure_ascii=False)}"))
        except Exception as exc:  # noqa
            out.append(("wire-format", f"dumps is not JSON: {type(exc).__name__}"))
    return out


def _replay_model(x: Any) -> str:
    name = _classes()[type(x)].__name__
    return (IMPORTS + f"x = {pyexpr(x)}\n"
            f"d = {name}().dump(x); print(d)\n"
            f"y = {name}().load(d); print(y); print(y == x)\n"
            f"print({name}().loads({name}().dumps(x)) == x)")


def _report(ctx, fails: List[dict], clause_prefix: str, confirm=None) -> None:
    """fails: {clause, what, size, witness, signature, replay}; `confirm(f)` re-runs the real code on the failing input in
    the reporting process and says whether the failure shows again (a finding that does not replay is dropped)."""
    by: Dict[str, List[dict]] = {}
    for f in fails:
        by.setdefault(f["clause"], []).append(f)
    for clause, fs in sorted(by.items()):
        if clause == "wire-format":
            # stricter than the property (a consistently renamed key still round-trips): reported, never a violation
            ctx.note(f"C19 wire-format drift (not a violation): {fs[0]['what'][:200]}")
            continue
        fs.sort(key=lambda f: (f["size"], f["signature"]))
        seen = set()
        j = 0
        for f in fs:
            if f["signature"] in seen:
                continue
            seen.add(f["signature"])
            if confirm is not None and not confirm(f):
                continue
            ctx.violation(obligation=f"bounded/{clause_prefix}/{clause}/{j}", message=f"{clause}: {f['what']}",
                          witness=f["witness"], replayed=True, signature=f"{clause}|{f['signature']}", replay_code=f["replay"])
            j += 1
            if j >= MAXV:
                break


# ------------------------------------------------------------------------------------------------ (1) field domains
STRS = [None, "[901]", "Hinweis: 'ID der Messlokation' – äöüß € 日本 🕛 \"quoted\" \\ \n line"]
UUID1 = uuid.UUID("12345678-1234-5678-1234-567812345678")


def _instances() -> Dict[str, List[Any]]:
    from ahbicht.models.categorized_key_extract import CategorizedKeyExtract
    from ahbicht.models.condition_nodes import EvaluatedFormatConstraint
    from ahbicht.models.content_evaluation_result import ContentEvaluationResult
    from ahbicht.models.enums import ModalMark, PrefixOperator
    from ahbicht.models.evaluation_results import (AhbExpressionEvaluationResult, FormatConstraintEvaluationResult,
                                                   RequirementConstraintEvaluationResult)
    out: Dict[str, List[Any]] = {}
    tri = [None, True, False]
    out["RequirementConstraintEvaluationResult"] = [
        RequirementConstraintEvaluationResult(requirement_constraints_fulfilled=a, requirement_is_conditional=b,
                                              format_constraints_expression=c, hints=d)
        for a in tri for b in tri for c in [None, "[901]", "[901] U ([902] O [903])"] for d in STRS]
    out["FormatConstraintEvaluationResult"] = [
        FormatConstraintEvaluationResult(format_constraints_fulfilled=a, error_message=m)
        for a in (True, False) for m in [None, "Condition [901] has to be fulfilled.", STRS[2]]]
    rcers = [RequirementConstraintEvaluationResult(requirement_constraints_fulfilled=a, requirement_is_conditional=b,
                                                   format_constraints_expression=c, hints=d)
             for (a, b) in [(True, True), (True, False), (False, True), (None, None)]
             for (c, d) in [(None, None), ("[901]", None), (None, STRS[2]), ("[901] U [902]", "[501] foo")]]
    fcers = out["FormatConstraintEvaluationResult"][:2] + out["FormatConstraintEvaluationResult"][3:5]
    out["AhbExpressionEvaluationResult"] = [
        AhbExpressionEvaluationResult(requirement_indicator=ri, requirement_constraint_evaluation_result=r,
                                      format_constraint_evaluation_result=f)
        for ri in [*ModalMark, *PrefixOperator] for r in rcers for f in fcers]
    efcs = [EvaluatedFormatConstraint(format_constraint_fulfilled=a, error_message=m)
            for a in (True, False) for m in [None, "Format nicht erfüllt", STRS[2]]]
    out["EvaluatedFormatConstraint"] = efcs
    hints = [{}, {"501": "Hinweis 501"}, {"501": None}, {"501": STRS[2], "502": None}]
    fcs = [{}, {"901": efcs[0]}, {"901": efcs[4], "902": efcs[0]}, {"950": efcs[3]}]
    rcs = [{}, {"1": F}, {"1": U, "2": K}, {"1": N, "2000": F}]
    pkgs = [None, {}, {"1P": "[1] U [2]"}, {"1P": "[1] ∧ [501]", "10P": "[2][901]"}]
    ids = [None, UUID1]
    out["ContentEvaluationResult"] = [
        ContentEvaluationResult(hints=dict(h), format_constraints=dict(f), requirement_constraints=dict(r),
                                packages=None if p is None else dict(p), id=i)
        for h in hints for f in fcs for r in rcs for p in pkgs for i in ids]
    hk, fk, rk = [[], ["501"], ["500", "900"]], [[], ["901"], ["902", "999"]], [[], ["1"], ["9", "10", "2000"]]
    pk, tk = [[], ["1P"], ["10P", "1P"]], [[], ["UB1"], ["UB1", "UB3"]]
    out["CategorizedKeyExtract"] = [
        CategorizedKeyExtract(hint_keys=list(a), format_constraint_keys=list(b), requirement_constraint_keys=list(c),
                              package_keys=list(d), time_condition_keys=list(e))
        for a in hk for b in fk for c in rk for d in pk for e in tk]
    return out


def _nontrivial_instance(x: Any) -> bool:
    """At least one Optional at None, a non-ASCII string, a non-empty container or a UUID: not the all-default shape."""
    text = pyexpr(x)
    return "None" in text or "ä" in text or "UUID" in text or "{'" in text or "['" in text


# ------------------------------------------------------------------------------------------------ (2) produced objects
HINTS = {"501": "Hinweis 501 äöü", "502": None}
PKGS = {"1P": "[1] U [501]", "10P": "[2][901]"}
CONDS = ["[1]", "[2]", "[1] U [2]", "[1] O [2]", "[1] X [2]", "[1][501]", "[1] U [901]", "[901]", "[501]", "[502]",
         "[1] U ([2] O [901])[501]", "[1P]", "[10P1..2] O [1]", "[1] U [UB1]", "[UB3]", "[2000] U [1]", "[901] X [902]",
         "[1][901] U [2][902]", "[1] ∧ [2] ∨ [1][902]", "([1] ⊻ [2])[901][501]"]
INDICATORS = ["Muss", "Soll", "Kann", "X", "O", "U"]
MULTI = ["Muss", "X", "Muss [1] Soll [2]", "Muss [1] Kann", "Muss [1] U [901] Soll [2][501] Kann [902]", "X [1] O [2] U [901]",
         "Soll [1][501] Kann [2]"]


def _eval_pool(tier: str) -> List[Tuple[str, Dict[str, str], Tuple[bool, bool]]]:
    dom = ["FULFILLED", "UNFULFILLED", "UNKNOWN"] + (["NEUTRAL"] if tier == "thorough" else [])
    exprs = [f"{i} {c}" for i in INDICATORS for c in CONDS] + MULTI
    items = []
    for e in exprs:
        for v1 in dom:
            for v2 in dom:
                for fc in ((True, True), (False, True), (False, False)):
                    items.append((e, {"1": v1, "2": v2}, fc))
    return items


def _eval_item(item) -> dict:
    """Evaluates through the public API and round-trips the produced result objects."""
    from ahbicht.models.condition_nodes import ConditionFulfilledValue as CFV
    from bounded.common import evaluate
    expr, rc, fc = item
    rcs = {k: CFV(v) for k, v in rc.items()}
    rcs.update({"2000": CFV(rc["1"]), "492": CFV(rc["1"]), "493": CFV(rc["2"])})
    cer = make_cer(rc=rcs, fc={"901": fc[0], "902": fc[1], "932": fc[0], "934": fc[1]}, hints=HINTS, packages=PKGS)
    try:
        res = evaluate(expr, cer, resolve_packages=True)
    except (KeyboardInterrupt, SystemExit):
        raise
    except BaseException as exc:  # noqa: InvalidExpressionError derives from BaseException; no result object is produced
        return {"produced": False, "why": type(exc).__name__}
    fails = []
    for obj in (res, res.requirement_constraint_evaluation_result, res.format_constraint_evaluation_result, cer):
        for clause, what in roundtrip_problems(obj):
            fails.append({"clause": clause, "what": f"{pyexpr(obj)}: {what}", "size": len(pyexpr(obj)),
                          "witness": {"produced_by": {"expression": expr, "requirement_constraints": rc, "format_constraints": list(fc)},
                                      "object": pyexpr(obj), "problem": what},
                          "signature": pyexpr(obj), "replay": _replay_model(obj), "item": item})
    return {"produced": True, "repr": pyexpr(res), "fails": fails,
            "none_outcome": res.requirement_constraint_evaluation_result.requirement_constraints_fulfilled is None}


# ------------------------------------------------------------------------------------------------ (3) trees
LEAVES = ["[1]", "[2]", "[501]", "[901]", "[902]", "[1P]", "[10P1..2]", "[UB1]", "[UB2]", "[UB3]", "[2000]"]
TREE_OPS = [" U ", " O ", " X ", " ", " ∧ ", " ∨ ", " ⊻ ", "u"]
PREFIXES = ["", "", "Muss ", "Soll ", "Kann ", "X ", "O ", "U ", "muss ", "M "]
MODES = [(False, False), (False, True), (True, False), (True, True)]
TREE_REPLAY = ("import asyncio, logging; logging.disable(logging.CRITICAL)\n"
               "from bounded.common import configure_inject, make_cer, set_cer\n"
               "from bounded.c19 import HINTS, PKGS\n"
               "from ahbicht.expressions.expression_resolver import parse_expression_including_unresolved_subexpressions as parse\n"
               "from ahbicht.json_serialization.tree_schema import TreeSchema\n"
               "configure_inject(); set_cer(make_cer(hints=HINTS, packages=PKGS))\n"
               "t = asyncio.run(parse({expr!r}, resolve_packages={rp}, replace_time_conditions={rt}))\n"
               "d = TreeSchema().dump(t); print(TreeSchema().dumps(t))\n"
               "t2 = TreeSchema().load(d); print(t); print(t2); print(t2 == t)\n"
               "print(TreeSchema().loads(TreeSchema().dumps(t)) == t)")


def _tree_expressions(tier: str, seed: int) -> List[str]:
    rnd = random.Random(seed * 6151 + 19)
    conds: List[str] = list(LEAVES)
    pairs = [f"{a}{op}{b}" for a in LEAVES for op in TREE_OPS for b in LEAVES]
    conds += pairs if tier == "thorough" else rnd.sample(pairs, 120)
    n3, n4 = (250, 250) if tier == "quick" else (2500, 2500)
    for _ in range(n3):
        a, b, c = (rnd.choice(LEAVES) for _ in range(3))
        o1, o2 = rnd.choice(TREE_OPS), rnd.choice(TREE_OPS)
        conds.append(rnd.choice([f"{a}{o1}{b}{o2}{c}", f"({a}{o1}{b}){o2}{c}", f"{a}{o1}({b}{o2}{c})"]))
    for _ in range(n4):
        a, b, c, d = (rnd.choice(LEAVES) for _ in range(4))
        o1, o2, o3 = (rnd.choice(TREE_OPS) for _ in range(3))
        conds.append(rnd.choice([f"{a}{o1}{b}{o2}{c}{o3}{d}", f"({a}{o1}{b}){o2}({c}{o3}{d})", f"{a}{o1}({b}{o2}{c}){o3}{d}",
                                 f"(({a}{o1}{b}){o2}{c}){o3}{d}", f"{a}{o1}({b}{o2}({c}{o3}{d}))"]))
    out = []
    for c in conds:
        out.append(rnd.choice(PREFIXES) + c)
    # several requirement indicators in one AHB expression, bare indicators
    out += ["Muss", "X", "Kann", "Muss [1] Soll [2]", "Muss [1] Kann", "Muss [1P] U [901] Soll [2][501] Kann [UB3]",
            "X [1] O [2] U [901]", "Soll [UB1][501] Kann [10P1..2]", "Muss ([1] O [2])[901] Soll [501]"]
    seen, uniq = set(), []
    for e in out:
        if e not in seen:
            seen.add(e)
            uniq.append(e)
    return uniq


def _deep_equal(a: Any, b: Any) -> bool:
    """Structural equality that also compares token types explicitly."""
    from lark import Token, Tree
    if isinstance(a, Tree) != isinstance(b, Tree):
        return False
    if isinstance(a, Tree):
        return (str(a.data) == str(b.data) and len(a.children) == len(b.children)
                and all(_deep_equal(x, y) for x, y in zip(a.children, b.children)))
    return isinstance(a, Token) and isinstance(b, Token) and a.type == b.type and str(a) == str(b)


def _assignments():
    from ahbicht.models.condition_nodes import ConditionFulfilledValue as CFV
    a1 = make_cer(rc={k: F for k in ("1", "2", "2000", "492", "493")},
                  fc={k: True for k in ("901", "902", "932", "934")}, hints=HINTS, packages=PKGS)
    a2 = make_cer(rc={"1": U, "2": F, "2000": K, "492": F, "493": U},
                  fc={"901": False, "902": True, "932": True, "934": False}, hints=HINTS, packages=PKGS)
    a3 = make_cer(rc={"1": K, "2": U, "2000": F, "492": U, "493": F},
                  fc={k: False for k in ("901", "902", "932", "934")}, hints=HINTS, packages=PKGS)
    return [a1, a2, a3]


def _evaluate_tree(tree, cer) -> Tuple[str, str]:
    from ahbicht.expressions.ahb_expression_evaluation import evaluate_ahb_expression_tree
    from ahbicht.expressions.requirement_constraint_expression_evaluation import requirement_constraint_evaluation
    set_cer(cer)
    try:
        if str(tree.data) == "ahb_expression":
            return ("ok", pyexpr(run_coro(evaluate_ahb_expression_tree(tree))))
        return ("ok", pyexpr(run_coro(requirement_constraint_evaluation(tree))))
    except (KeyboardInterrupt, SystemExit):
        raise
    except BaseException as exc:  # noqa: invalid expression / unresolved package or time condition: both trees must agree
        return ("raised", f"{type(exc).__name__}: {str(exc)[:120]}")


def _tree_item(expr: str) -> dict:
    import copy
    from ahbicht.expressions.ahb_expression_parser import parse_ahb_expression_to_single_requirement_indicator_expressions
    from ahbicht.expressions.condition_expression_parser import parse_condition_expression_to_tree
    from ahbicht.expressions.expression_resolver import parse_expression_including_unresolved_subexpressions
    from ahbicht.json_serialization.tree_schema import TreeSchema
    set_cer(make_cer(hints=HINTS, packages=PKGS))
    trees: List[Tuple[str, Any, Any, Any]] = []
    for rp, rt in MODES:
        try:
            t = run_coro(parse_expression_including_unresolved_subexpressions(expr, resolve_packages=rp, replace_time_conditions=rt))
        except SyntaxError:
            continue
        trees.append((f"resolver(resolve_packages={rp}, replace_time_conditions={rt})", t, rp, rt))
    for name, fn in (("parse_ahb_expression_to_single_requirement_indicator_expressions",
                      parse_ahb_expression_to_single_requirement_indicator_expressions),
                     ("parse_condition_expression_to_tree", parse_condition_expression_to_tree)):
        try:
            trees.append((name, fn(expr), None, None))
        except SyntaxError:
            pass
    fails: List[dict] = []
    n = 0
    sigs = []
    assignments = _assignments()
    for how, tree, rp, rt in trees:
        original = copy.deepcopy(tree)
        replay = (TREE_REPLAY.format(expr=expr, rp=rp, rt=rt) if rp is not None else
                  f"from ahbicht.expressions.ahb_expression_parser import *\nfrom ahbicht.expressions.condition_expression_parser import *\n"
                  f"from ahbicht.json_serialization.tree_schema import TreeSchema\nt = {how}({expr!r})\n"
                  f"print(TreeSchema().dumps(t))\n"
                  f"t2 = TreeSchema().load(TreeSchema().dump(t)); print(t); print(t2); print(t2 == t)")
        sigs.append(json.dumps(wire(tree), ensure_ascii=False, sort_keys=True))

        def fail(clause: str, what: str):
            fails.append({"clause": clause, "what": f"{expr!r} via {how}: {what}", "size": len(expr),
                          "witness": {"expression": expr, "tree_from": how, "problem": what},
                          "signature": f"{expr}|{how}", "replay": replay, "expr": expr})

        back = None
        n += 1
        try:
            dumped = TreeSchema().dump(tree)
            back = TreeSchema().load(dumped)
            if not (back == tree and tree == back):
                fail("load(dump(tree))==tree", f"got {back!r} for {tree!r}")
            elif not _deep_equal(back, tree):
                fail("load(dump(tree))==tree", f"token types/values differ: {back!r} vs {tree!r}")
        except Exception as exc:  # noqa
            fail("load(dump(tree))==tree", f"raised {type(exc).__name__}: {str(exc)[:200]}")
        n += 1
        try:
            text = TreeSchema().dumps(tree)
            back2 = TreeSchema().loads(text)
            if not (back2 == tree and _deep_equal(back2, tree)):
                fail("loads(dumps(tree))==tree", f"got {back2!r} for {tree!r}")
            if json.loads(text) != wire(tree):
                fail("wire-format", f"dumps gives {text}, published shape is {json.dumps(wire(tree), ensure_ascii=False)}")
        except Exception as exc:  # noqa
            fail("loads(dumps(tree))==tree", f"raised {type(exc).__name__}: {str(exc)[:200]}")
        if tree != original:
            fail("dump-leaves-the-tree-untouched", f"the tree was changed by dump/load: {tree!r} vs {original!r}")
        if back is not None:
            for idx, cer in enumerate(assignments):
                n += 2
                r1 = _evaluate_tree(tree, cer)
                r2 = _evaluate_tree(back, cer)
                if r1 != r2:
                    fail("evaluate(round-tripped)==evaluate(original)", f"assignment #{idx}: original {r1}, round-tripped {r2}")
    return {"n": n, "fails": fails, "sigs": sigs, "trees": len(trees)}


# ------------------------------------------------------------------------------------------------ entry point
def shared_schema_history(cls_name: str) -> dict:
    """ONE schema instance per class (as the shipped evaluators / providers hold one) round-trips ALL instances of the
    class one after the other (many share their id / their keys while differing elsewhere), the loaded objects being
    edited in place in between: every load(dump(x)) has to equal ITS x.  -> first failure or None"""
    inst = _instances()[cls_name]
    schema = _classes()[type(inst[0])]()
    n = 0
    for pos, x in enumerate(inst):
        n += 1
        try:
            back = schema.load(schema.dump(x))
        except Exception as exc:  # noqa
            return {"evaluations": n, "failing": {"class": cls_name, "position": pos, "object": pyexpr(x),
                                                  "problem": f"raised {type(exc).__name__}: {str(exc)[:200]}"}}
        if not (back == x and type(back) is type(x)):
            return {"evaluations": n, "failing": {"class": cls_name, "position": pos, "object": pyexpr(x),
                                                  "problem": f"got {back!r}"}}
        for attr in ("packages", "hints", "requirement_constraints", "format_constraints", "hint_keys",
                     "requirement_constraint_keys"):
            v = getattr(back, attr, None)  # the caller owns what it loaded
            if isinstance(v, dict):
                v["4711"] = None
            elif isinstance(v, list):
                v.append("4711")
    return {"evaluations": n, "failing": None}


def _run_shared_schema_histories(ctx) -> None:
    from bounded.common import in_fresh_interpreter
    t0 = time.time()
    total, names = 0, list(_instances())
    for cls_name in names:
        r = shared_schema_history(cls_name)
        total += r["evaluations"]
        f = r["failing"]
        if not f:
            continue
        again = in_fresh_interpreter("bounded.c19", "shared_schema_history", [cls_name])
        if not again or not again["failing"]:
            ctx.note(f"C19 shared-schema history of {cls_name}: failure did not reproduce in a new interpreter (not reported)")
            continue
        g = again["failing"]
        alone = roundtrip_problems(_instances()[cls_name][g["position"]])
        ctx.violation(obligation=f"bounded/one-schema-instance/{cls_name}",
                      message=(f"{cls_name}: with ONE schema instance, load(dump(x)) of instance #{g['position']} {g['object']} "
                               f"after the round trips of the {g['position']} instances before it: {g['problem']}"
                               + ("" if alone else " (the same round trip on a new schema instance is fine: history-dependent)"))[:1500],
                      witness=g, replayed=True, signature=f"one-schema|{cls_name}|{g['position']}",
                      replay_code=f"# in a NEW interpreter:\nfrom bounded import c19\nprint(c19.shared_schema_history({cls_name!r}))")
    ctx.bounded("one schema instance per class round-trips all instances one after the other (loaded objects edited in between)",
                evaluations=total, distinct_nontrivial=len(names),
                rule="distinct classes; within a class consecutive instances share id / keys and differ elsewhere",
                samples=names[:3], exhaustive=True, bound="the instance lists of part (1), in order, one schema object each",
                seconds=time.time() - t0)


def run(ctx, tier: str, seed: int) -> None:
    ctx.trust("A-MARSHMALLOW (marshmallow interprets the declarative schemas as documented)", "A-LARK-TREE (Tree/Token equality)")
    ctx.explanation = ("bounded: JSON round trips over small field domains of the six model classes, over objects produced by "
                       "real evaluation / extraction / generation, and over trees of the real parsers and resolver (≤ 4 leaves)")
    ctx.assume("the 'wire-format' comparison with /repo/json_schemas goes beyond the property statement: a drift is "
               "printed as a NOTE and never reported as a violation")

    # ---------------------------------------------------------------- (1)
    t0 = time.time()
    inst = _instances()
    fails: List[dict] = []
    total = 0
    nontrivial = set()
    for cls_name, objs in inst.items():
        for x in objs:
            total += 2
            if _nontrivial_instance(x):
                nontrivial.add(pyexpr(x))
            for clause, what in roundtrip_problems(x):
                fails.append({"clause": f"{cls_name}/{clause}", "what": f"{pyexpr(x)}: {what}", "size": len(pyexpr(x)),
                              "witness": {"object": pyexpr(x), "problem": what}, "signature": pyexpr(x),
                              "replay": _replay_model(x)})
    _report(ctx, fails, "instances")
    _run_shared_schema_histories(ctx)
    ctx.bounded("load(dump(x)) == x and loads(dumps(x)) == x for every instance over small field domains of the six model classes",
                evaluations=total, distinct_nontrivial=len(nontrivial),
                rule="distinct instances with at least one Optional at None, a non-ASCII string, a UUID or a non-empty container",
                samples=[pyexpr(inst["RequirementConstraintEvaluationResult"][0]), pyexpr(inst["ContentEvaluationResult"][37])],
                exhaustive=True,
                bound="complete product of the stated field domains: " + ", ".join(f"{k}: {len(v)}" for k, v in inst.items())
                      + " (Optional[bool] at None/True/False, Optional[str] at None/ASCII/non-ASCII, dicts of size 0–2, hints "
                        "with None values, packages None/{}/1/2 entries, id None/UUID, every requirement indicator, every "
                        "ConditionFulfilledValue)",
                seconds=time.time() - t0)

    # ---------------------------------------------------------------- (2)
    t0 = time.time()
    items = _eval_pool(tier)
    results = pmap(_eval_item, items)
    produced = [r for r in results if r["produced"]]
    fails = [f for r in produced for f in r["fails"]]
    # objects produced by generation / extraction
    from ahbicht.expressions.condition_expression_parser import extract_categorized_keys
    from bounded.common import configure_inject
    configure_inject()
    set_cer(make_cer(hints=HINTS, packages=PKGS))
    extra_objects = []
    for cond in CONDS:
        for rp, rt in MODES:
            try:
                ext = run_coro(extract_categorized_keys(cond, resolve_packages=rp, replace_time_conditions=rt))
            except Exception:  # noqa
                continue
            extra_objects.append(ext)
            if rp and rt and len(ext.requirement_constraint_keys) + len(ext.format_constraint_keys) <= 4:
                extra_objects.extend(ext.generate_possible_content_evaluation_results())
    for obj in extra_objects:
        for clause, what in roundtrip_problems(obj):
            fails.append({"clause": clause, "what": f"{pyexpr(obj)}: {what}", "size": len(pyexpr(obj)),
                          "witness": {"object": pyexpr(obj), "problem": what, "produced_by": "extract_categorized_keys / "
                                      "generate_possible_content_evaluation_results"},
                          "signature": pyexpr(obj), "replay": _replay_model(obj)})
    def confirm_produced(f: dict) -> bool:
        if "item" not in f:
            return True  # extraction / generation ran in this process already
        again = _eval_item(f["item"])
        return again["produced"] and any(g["clause"] == f["clause"] and g["signature"] == f["signature"] for g in again["fails"])

    _report(ctx, fails, "produced", confirm_produced)
    distinct = {r["repr"] for r in produced} | {pyexpr(o) for o in extra_objects}
    n_none = len({r["repr"] for r in produced if r["none_outcome"]})
    not_produced = len(results) - len(produced)
    ctx.bounded("round trips of result objects produced by real evaluation, extraction and generation",
                evaluations=len(results) + 8 * len(produced) + 2 * len(extra_objects), distinct_nontrivial=len(distinct),
                rule=f"distinct produced objects (by value); {n_none} distinct evaluation results have an undetermined (None) "
                     f"requirement outcome; {not_produced} evaluations raised and produced nothing",
                samples=[r["repr"] for r in produced if r["none_outcome"]][:1] + [pyexpr(o) for o in extra_objects[:1]],
                exhaustive=False,
                bound=f"{len(INDICATORS)} indicators × {len(CONDS)} condition expressions + {len(MULTI)} multi-indicator expressions, "
                      f"× requirement keys 1, 2 over {3 if tier == 'quick' else 4} values each × 3 format-constraint patterns; "
                      f"{len(extra_objects)} extracts / generated content evaluation results",
                seconds=time.time() - t0)

    # ---------------------------------------------------------------- (3)
    t0 = time.time()
    exprs = _tree_expressions(tier, seed)
    results = pmap(_tree_item, exprs)
    fails = [f for r in results for f in r["fails"]]
    def confirm_tree(f: dict) -> bool:
        again = _tree_item(f["expr"])
        return any(g["clause"] == f["clause"] and g["signature"] == f["signature"] for g in again["fails"])

    _report(ctx, fails, "trees", confirm_tree)
    sigs = {s for r in results for s in r["sigs"]}
    ctx.bounded("TreeSchema: load(dump(t)) == t, loads(dumps(t)) == t, evaluate(round-tripped) == evaluate(original)",
                evaluations=sum(r["n"] for r in results), distinct_nontrivial=len(sigs),
                rule="distinct trees (by their JSON) produced by the resolver under the 4 resolution modes, by "
                     "parse_ahb_expression_to_single_requirement_indicator_expressions and by parse_condition_expression_to_tree",
                samples=exprs[:2] + exprs[-2:], exhaustive=False,
                bound=f"{len(exprs)} expressions with ≤ 4 leaves over {len(LEAVES)} leaves (conditions, hints, format constraints, "
                      f"packages with/without repeatability, UB1–3), {len(TREE_OPS)} operator spellings, bracketings, "
                      f"{len(set(PREFIXES))} requirement-indicator prefixes, multi-indicator AHB expressions; "
                      f"{sum(r['trees'] for r in results)} trees × 3 assignments",
                seconds=time.time() - t0)
