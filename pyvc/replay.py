"""Replay of a counter-model on the real code under CPython: call the real function with the concretised arguments and
evaluate the violated contract clause natively."""
from __future__ import annotations

import asyncio
import importlib
import inspect
from typing import Any, Dict, Optional, Tuple

from pyvc.contracts import Contract


def resolve(target: str):
    modname, qual = target.split(":")
    obj = importlib.import_module(modname)
    for p in qual.split("."):
        obj = getattr(obj, p)
    return obj


def run_native(c: Contract, args: Dict[str, Any]) -> Tuple[str, Any]:
    """-> ('return', value) | ('raise', exception)"""
    if c.call_native is not None:
        f = lambda: c.call_native(dict(args))  # noqa: E731
    else:
        fn = resolve(c.target)
        fn = getattr(fn, "__wrapped__", fn) if False else fn
        f = lambda: fn(**args)  # noqa: E731
    try:
        r = f()
        if inspect.isawaitable(r):
            r = asyncio.run(_await(r))
        return "return", r
    except BaseException as e:  # noqa: InvalidExpressionError is a BaseException
        if isinstance(e, (KeyboardInterrupt, SystemExit)):
            raise
        return "raise", e


async def _await(x):
    return await x


class NotReplayable(Exception):
    pass


def clause_native(c: Contract, clause: str, args: Dict[str, Any], result: Any) -> Any:
    fn = c.cls.__dict__[clause]
    names = list(inspect.signature(fn).parameters)
    gn = getattr(c.cls, "ghost_native", {})
    env_g = {}
    for n in names:
        if n.startswith("ghost_"):
            if n[6:] not in gn:
                raise NotReplayable(f"clause {clause} mentions ghost state ({n}) that has no native reading")
            env_g[n] = gn[n[6:]](args)
    env = dict(args)
    env["result"] = result
    env.update(env_g)
    return fn(**{n: env[n] for n in names})


def replay_obligation(c: Contract, clause_or_kind: str, args: Dict[str, Any]):
    """(True, msg) if the real code violates the contract on `args`, (False, msg) if it satisfies every clause that has
    a native reading, (None, msg) if nothing could be replayed"""
    try:
        return _replay(c, clause_or_kind, args)
    except NotReplayable as e:
        return None, str(e)


def _replay(c: Contract, clause_or_kind: str, args: Dict[str, Any]):
    kind, val = run_native(c, args)
    if kind == "raise":
        cls_names = [k.__name__ for k in type(val).__mro__]
        allowed = next((k for k in c.raises if k in cls_names), None)
        if allowed is None:
            return True, f"real code raises undeclared {type(val).__name__}: {str(val)[:120]}"
        cond = c.raises[allowed]
        if cond and not cond.startswith("may_"):
            # an iff-condition or an only-if condition: raising while it is false is a violation either way
            if not clause_native(c, cond, args, None):
                return True, f"real code raises {type(val).__name__} although the contract's condition is false"
        return False, f"real code raises {type(val).__name__} as the contract allows"
    for k, cond in c.raises.items():
        if cond and not cond.startswith(("may_", "onlyif_")) and clause_native(c, cond, args, None):
            return True, f"real code returns {val!r} although the contract demands {k}"
    skipped = 0
    for p in c.posts:
        try:
            ok = clause_native(c, p, args, val)
        except NotReplayable:
            skipped += 1
            continue
        except BaseException as e:  # noqa
            return True, f"clause {p} could not be evaluated natively on result {val!r}: {type(e).__name__}: {e}"
        if not ok:
            return True, f"real code returns {val!r}; clause {p} is false"
    if skipped == len(c.posts) and c.posts:
        raise NotReplayable("no clause of this contract has a native reading")
    return False, f"real code returns {val!r}; all natively readable clauses hold"
