"""Contracts of the functions around the requirement-constraint transformer: BaseTransformer.condition,
evaluate_requirement_constraint_tree, requirement_constraint_evaluation (C04 final mapping, C06, C07 root case)."""
import z3

from ahbicht.models.condition_nodes import (ConditionFulfilledValue, EvaluatedComposition, Hint, RequirementConstraint,
                                            UnevaluatedFormatConstraint)
from contracts.rc_transformer import CANDS, fcv, node
from pyvc import assumed
from pyvc.contracts import AnyOf, Bool, Const, DictOf, Enum, Inst, Node, Opt, Raw, Str, contract
from pyvc.values import Opaque, Sc
from specs.ghost import fx_meaning
from specs.logic import F, K, N, U

assumed.FOLD_RESULT["RequirementConstraintTransformer"] = node


def input_values():
    return DictOf(lambda ex, st, name, i: Str().make(ex, st, name), lambda ex, st, name, i: node().make(ex, st, name))


def tree_param():
    return Raw(lambda ex, st, name: Opaque("inst:Tree"))


@contract("ahbicht.expressions.base_transformer:BaseTransformer.condition", prop=["C04", "C08"])
class Condition:
    """returns the input node registered for the token's key; ValueError iff there is none"""
    params = dict(self=Inst("RequirementConstraintTransformer", input_values=input_values()),
                  token=Inst("Token", value=Str(), type=Const("CONDITION_KEY")))
    raises = {"ValueError": "raises_missing"}
    returns = node()

    def raises_missing(self, token):
        return token.value not in self.input_values

    def post_is_registered_node(self, token, result):
        expected = self.input_values[token.value]
        return result.conditions_fulfilled == expected.conditions_fulfilled \
            and isinstance(result, Hint) == isinstance(expected, Hint) \
            and isinstance(result, RequirementConstraint) == isinstance(expected, RequirementConstraint) \
            and isinstance(result, UnevaluatedFormatConstraint) == isinstance(expected, UnevaluatedFormatConstraint)


T = "ahbicht.expressions.requirement_constraint_expression_evaluation:"


@contract(T + "evaluate_requirement_constraint_tree", prop=["C04", "C06"])
class EvaluateRcTree:
    """returns exactly what the fold over the callbacks returned (A-LARK-FOLD); lark's VisitError never escapes: the
    original exception of the callback does (InvalidExpressionError, NotImplementedError, ValueError)"""
    params = dict(parsed_tree=tree_param(), input_values=input_values())
    raises = {"ValueError": None, "InvalidExpressionError": None, "NotImplementedError": None}
    returns = node()
    ghost_out = ["fold_root"]

    def post_is_fold_result(parsed_tree, input_values, result, ghost_fold_root):
        return result is ghost_fold_root


def outcome(cf):
    """C04: the four cases of the property statement"""
    if cf == F:
        return (True, True)
    if cf == N:
        return (True, False)
    if cf == U:
        return (False, True)
    return (None, None)


@contract(T + "requirement_constraint_evaluation", prop=["C04", "C07", "C09"])
class RequirementConstraintEvaluation:
    """(fulfilled, conditional) = outcome(state of the evaluated root); hints / format-constraint expression are those
    of the root (a bare format constraint yields "[key]")"""
    cases = [dict(condition_expression=Str()), dict(condition_expression=tree_param())]
    returns = Inst("RequirementConstraintEvaluationResult", requirement_constraints_fulfilled=Opt(Bool()),
                   requirement_is_conditional=Opt(Bool()), format_constraints_expression=Opt(Str()), hints=Opt(Str()))
    ghost_out = ["rce_result"]
    ghost_specs = {"fold_root": node}
    clause_props = {"post_outcome": ["C04"], "post_fc_expression_of_root": ["C07"], "post_hints_of_root": ["C04", "C09"],
                    "raises-only-declared": ["C04"]}
    raises = {"SyntaxError": None, "ValueError": None, "InvalidExpressionError": None, "NotImplementedError": None,
              "Exception": None}

    def post_outcome(condition_expression, result, ghost_fold_root):
        return (result.requirement_constraints_fulfilled, result.requirement_is_conditional) \
            == outcome(ghost_fold_root.conditions_fulfilled)

    def post_fc_expression_of_root(condition_expression, result, ghost_fold_root):
        return fx_meaning(result.format_constraints_expression) == fcv(ghost_fold_root)

    def post_hints_of_root(condition_expression, result, ghost_fold_root):
        if isinstance(ghost_fold_root, Hint) or isinstance(ghost_fold_root, EvaluatedComposition):
            return result.hints == ghost_fold_root.hint
        return result.hints is None
