"""C06 (bounded stand-in, API level): validity is structural; validity check and evaluation agree.

For every in-domain expression tree within the bound (valid or not):
  A  under EVERY assignment (3 states per requirement key x 2 truth values per format-constraint key) the real
     evaluation raises InvalidExpressionError iff the structural criterion `not valid(tree)` holds (and raises nothing
     else);
  B  `ahbicht.content_evaluation.is_valid_expression("Muss <text>", set_cer)` returns `(False, <str reason>)` iff
     `not valid(tree)` and `(True, None)` otherwise.
`valid` is the oracle written from the property statement (specs.treesem).  Expressions made of hints only have no
requirement/format key: the criterion can never make them invalid and the validity check generates no evaluation for
them; `(True, None)` is what the statement demands.
"""
from __future__ import annotations

import random
import time
from typing import List

from bounded import common as bc
from bounded.c04 import (Violations, cut_note, deadline_for, eval_item, fc_words, make_item, pmap_until, rc_words,
                         replay_snippet)
from specs import treesem as ts


def isvalid_item(text: str):
    """one call of the real validity check"""
    from ahbicht.content_evaluation import is_valid_expression
    try:
        res = bc.run(is_valid_expression("Muss " + text, bc.set_cer))
    except Exception as err:  # noqa: BLE001
        return ("exc", f"{type(err).__name__}: {err}"[:300])
    except BaseException as err:  # noqa: BLE001  e.g. an InvalidExpressionError that escapes the check
        if type(err).__name__ in ("KeyboardInterrupt", "SystemExit", "GeneratorExit"):
            raise
        return ("exc", f"{type(err).__name__}: {err}"[:300])
    return ("ret", res)


def _has_or_xor(t: ts.Tree) -> bool:
    return (not ts.is_leaf(t)) and (t.op in (ts.OR, ts.XOR) or _has_or_xor(t.l) or _has_or_xor(t.r))


def _isvalid_snippet(text: str) -> str:
    return ("from bounded.common import *\nconfigure_inject()\n"
            "from ahbicht.content_evaluation import is_valid_expression\n"
            f"print(run(is_valid_expression({('Muss ' + text)!r}, set_cer)))")


def check_trees(ctx, name: str, trees: List[ts.Tree], exhaustive: bool, bound: str, deadline_a: float,
                deadline_b: float, chunk: int = 6000) -> None:
    bc.configure_inject()
    # ------------------------------------------------------------------------------------------- clause A
    t0 = time.time()
    items = [make_item(t, [(rw, fw) for rw in rc_words(t) for fw in fc_words(t)]) for t in trees]
    results = pmap_until(eval_item, items, deadline_a, chunk=chunk)
    exh_a, bound_a = exhaustive and len(results) == len(items), bound + cut_note(len(results), len(items))
    viol = Violations(ctx, name + "/raises<=>structurally-invalid")
    evaluations, distinct, seen, samples, n_invalid = 0, 0, set(), [], 0
    for t, item, res in zip(trees, items, results):
        text, rc_keys, fc_keys, hint_keys, cases = item
        is_valid = ts.valid(t)
        n_invalid += 0 if is_valid else 1
        evaluations += len(cases)
        if _has_or_xor(t) and text not in seen:
            seen.add(text)
            distinct += len(set(cases))
            if len(samples) < 5 and len(seen) % 701 == 1:
                samples.append({"expression": text, "structurally_valid": is_valid, "assignments": len(cases),
                                "verdicts": sorted({r[0] for r in res})})
        want = "ok" if is_valid else "invalid"
        for (rw, fw), r in zip(cases, res):
            if r[0] != want:
                def recheck(item=item, rw=rw, fw=fw, want=want):
                    r2 = eval_item((*item[:4], ((rw, fw),)))[0]
                    return None if r2[0] == want else list(r2[:2])
                viol.add(len(text), f"{text}|{rw}|{fw}",
                         f"{text!r} is structurally {'valid' if is_valid else 'INVALID'} but the evaluation under "
                         f"{dict(zip(rc_keys, rw))} / {dict(zip(fc_keys, fw))} gave {r[0]}"
                         + (f" ({r[1]})" if r[0] == "exc" else ""),
                         {"expression": "Muss " + text, "rc": dict(zip(rc_keys, rw)), "fc": dict(zip(fc_keys, fw)),
                          "structurally_valid": is_valid, "observed": list(r[:2])},
                         recheck, replay_snippet(text, rc_keys, fc_keys, hint_keys, rw, fw))
    viol.flush()
    ctx.bounded(name + "/raises<=>structurally-invalid", evaluations, distinct,
                "distinct (expression text, requirement assignment, format truth assignment) triples whose tree "
                f"contains at least one O/X composition ({n_invalid} of {len(trees)} trees are structurally invalid)",
                samples, exhaustive=exh_a, bound=bound_a + " x all 3^m * 2^n assignments", seconds=time.time() - t0)
    # ------------------------------------------------------------------------------------------- clause B
    t0 = time.time()
    texts = [it[0] for it in items]
    verdicts = pmap_until(isvalid_item, texts, deadline_b, chunk=chunk)
    exh_b, bound_b = exhaustive and len(verdicts) == len(texts), bound + cut_note(len(verdicts), len(texts))
    viol = Violations(ctx, name + "/is_valid_expression")
    seen, samples = set(), []
    for t, text, v in zip(trees, texts, verdicts):
        is_valid = ts.valid(t)
        if _has_or_xor(t):
            seen.add(text)
            if len(samples) < 5 and len(seen) % 701 == 1 and v[0] == "ret":
                samples.append({"expression": "Muss " + text, "structurally_valid": is_valid,
                                "returned": [v[1][0], (v[1][1] or "")[:60] if v[1][1] is not None else None]})

        def good(v, is_valid=is_valid):
            if v[0] != "ret" or not isinstance(v[1], tuple) or len(v[1]) != 2:
                return False
            ok, reason = v[1]
            return (ok is True and reason is None) if is_valid else (ok is False and isinstance(reason, str))
        if not good(v):
            def recheck(text=text, good=good):
                v2 = isvalid_item(text)
                return None if good(v2) else [v2[0], repr(v2[1])[:200]]
            viol.add(len(text), f"is_valid_expression|{text}",
                     f"is_valid_expression('Muss {text}') returned {v[1]!r:.200} but the expression is structurally "
                     f"{'valid: expected (True, None)' if is_valid else 'invalid: expected (False, <reason>)'}",
                     {"expression": "Muss " + text, "structurally_valid": is_valid, "observed": repr(v[1])[:300]},
                     recheck, _isvalid_snippet(text))
    viol.flush()
    ctx.bounded(name + "/is_valid_expression", len(verdicts), len(seen),
                "distinct expression texts containing at least one O/X composition (one call of the validity check "
                "each; the check itself evaluates under all generated content evaluation results)",
                samples, exhaustive=exh_b, bound=bound_b, seconds=time.time() - t0)


def run(ctx, tier: str, seed: int) -> None:
    ts.self_check()
    ctx.trust("A-LARK-RESOLVE (grouping of the rendered text is the tree it was rendered from: C01)",
              "generate_possible_content_evaluation_results yields >=1 result whenever a requirement/format key is "
              "present (C18)")
    rng = random.Random(seed)
    deadline = deadline_for(tier, time.time())
    leaves = ts.default_leaves()
    by_n = ts.enumerate_trees(3 if tier == "quick" else 4, leaves)
    three = list(by_n[3])
    rng.shuffle(three)  # so that a prefix cut off by the time budget is a seeded sample
    check_trees(ctx, "<=3-leaves", by_n[1] + by_n[2] + three, True,
                "all in-domain trees (valid or not) with <=3 leaves over keys 1,2,3/501,502/901,902",
                *((deadline - 15.0, deadline) if tier == "quick" else (deadline - 300.0, deadline - 250.0)),
                chunk=2000 if tier == "quick" else 6000)
    if tier != "quick":
        n = 40000
        four = rng.sample(by_n[4], min(n, len(by_n[4])))
        check_trees(ctx, "4-leaves", four, False, f"seeded sample of {n} of {len(by_n[4])} in-domain trees with 4 leaves",
                    deadline - 120.0, deadline)
