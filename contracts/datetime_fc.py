"""Contracts for the shipped date-time format constraints (C20) over the view 'aware datetime = (instant u in seconds,
written offset o in seconds)'.  Assumed (A-DATETIME / A-PYTZ, see the library models below): fromisoformat returns a
naive or aware datetime or raises ValueError only; astimezone keeps the instant, takes the offset of the target zone
at that instant and may raise OverflowError at the edges of the representable range; .time() is the wall clock modulo
one day; Europe/Berlin's offset is eu_offset(u) in {3600, 7200} (table checked completely by the bounded part)."""
import z3

from pyvc import assumed
from pyvc.contracts import AnyOf, Const, Inst, Opt, Raw, Str, contract, lemma
from pyvc.values import BuiltinV, Obj, Opaque, Ref, Sc, SV, Tup, mk_b, mk_i, mk_s, sv_bool, sv_none
from specs.ghost import dt_instant, dt_offset, eu_offset

G = "ahbicht.content_evaluation.german_strom_and_gas_tag:"
DAY = 86400
EU = z3.Function("g_eu_offset", Sc, Sc)


def _eu(ex, u_int):
    if "axiom:eu_offset" not in ex._ufs:
        ex._ufs["axiom:eu_offset"] = True
        x = z3.Const("gxu", Sc)
        ex.global_axioms.append(z3.ForAll([x], z3.And(Sc.is_i(EU(x)), z3.Or(Sc.iv(EU(x)) == 3600, Sc.iv(EU(x)) == 7200))))
    return Sc.iv(EU(mk_i(u_int)))


def new_dt(ex, st, u, o, naive):
    return ex.alloc(st, Obj("datetime", {"_u": SV(mk_i(u), "int"), "_o": SV(mk_i(o), "int"),
                                         "_naive": SV(mk_b(naive), "bool")}))


def aware_datetime():
    def mk(ex, st, name):
        u = ex.fresh(name + ".instant", z3.IntSort())
        o = ex.fresh(name + ".offset", z3.IntSort())
        st.assume(z3.And(o > -DAY, o < DAY), axiom=True)
        return new_dt(ex, st, u, o, z3.BoolVal(False))
    return Raw(mk)


# ---- library models -----------------------------------------------------------------------------------------------------
def _fromisoformat(ex, st, args, kwargs, fn):
    assumed.used(ex, "A-DATETIME")
    outs = [ex.raise_(st.fork(), "ValueError", SV(mk_s(ex.fresh("msg", z3.StringSort())), "str"))]
    u = ex.fresh("parsed.instant", z3.IntSort())
    o = ex.fresh("parsed.offset", z3.IntSort())
    naive = ex.fresh("parsed.naive", z3.BoolSort())
    st.assume(z3.And(o > -DAY, o < DAY), axiom=True)
    d = new_dt(ex, st, u, o, naive)
    st.ghost["iso_ok"] = sv_bool(True)
    st.ghost["iso_naive"] = SV(mk_b(naive), "bool")
    st.ghost["iso_offset"] = SV(mk_i(o), "int")
    st.ghost["iso_instant"] = SV(mk_i(u), "int")
    outs.append((st, d))
    return outs


def _dt_attr(ex, st, ref, attr):
    o = st.heap[ref.oid]
    if attr in ("hour", "minute", "second"):
        ls = (Sc.iv(o.fields["_u"].t) + Sc.iv(o.fields["_o"].t)) % DAY
        return [(st, SV(mk_i({"hour": ls / 3600, "minute": (ls % 3600) / 60, "second": ls % 60}[attr]), "int"))]
    if attr == "tzinfo":
        out = []
        for s, nv in ex.branch(st, Sc.bv(o.fields["_naive"].t)):
            out.append((s, sv_none() if nv else Opaque("tzinfo", {"not_none": True})))
        return out
    return [(st, BuiltinV("datetime." + attr, ref))]


def _astimezone(ex, st, args, kwargs, fn):
    assumed.used(ex, "A-DATETIME")
    o = st.heap[fn.bound.oid]
    tz = args[0] if args else kwargs.get("tz")
    u = Sc.iv(o.fields["_u"].t)
    if isinstance(tz, Opaque) and "utc" in tz.tag:
        off = z3.IntVal(0)
    elif isinstance(tz, Opaque) and ("timezone" in tz.tag or "berlin" in tz.tag):
        assumed.used(ex, "A-PYTZ")
        off = _eu(ex, u)
    else:
        raise Exception(f"astimezone to an unknown zone {tz!r}")
    s_r = st.fork()
    s_r.ghost["raised_OverflowError"] = sv_bool(True)
    outs = [ex.raise_(s_r, "OverflowError", SV(mk_s("date value out of range"), "str"))]
    outs.append((st, new_dt(ex, st, u, off, z3.BoolVal(False))))
    return outs


def _time(ex, st, args, kwargs, fn):
    o = st.heap[fn.bound.oid]
    ls = (Sc.iv(o.fields["_u"].t) + Sc.iv(o.fields["_o"].t)) % DAY
    t = ex.alloc(st, Obj("time", {"hour": SV(mk_i(ls / 3600), "int"), "minute": SV(mk_i((ls % 3600) / 60), "int"),
                                  "second": SV(mk_i(ls % 60), "int")}))
    return [(st, t)]


def _isoformat(ex, st, args, kwargs, fn):
    return [(st, SV(mk_s(ex.fresh("iso", z3.StringSort())), "str"))]


def _utcoffset(ex, st, args, kwargs, fn):
    o = st.heap[fn.bound.oid]
    return [(st, ex.alloc(st, Obj("timedelta", {"_s": o.fields["_o"]})))]


assumed.LIBRARY["ext:datetime.datetime.fromisoformat()"] = _fromisoformat
assumed.LIBRARY["datetime.astimezone"] = _astimezone
assumed.LIBRARY["datetime.time"] = _time
assumed.LIBRARY["datetime.isoformat"] = _isoformat
assumed.LIBRARY["datetime.utcoffset"] = _utcoffset
for _a in ("tzinfo", "astimezone", "time", "isoformat", "utcoffset", "hour", "minute", "second"):
    assumed.ATTR_LIBRARY["datetime." + _a] = _dt_attr
assumed.LIBRARY["ext:pytz.timezone()"] = lambda ex, st, args, kwargs, fn: [(st, Opaque("tz:timezone"))]


def _g_dt_instant(ex, st, args, kwargs, fn):
    return [(st, st.heap[args[0].oid].fields["_u"])]


def _g_dt_offset(ex, st, args, kwargs, fn):
    return [(st, st.heap[args[0].oid].fields["_o"])]


def _g_eu_offset(ex, st, args, kwargs, fn):
    return [(st, SV(mk_i(_eu(ex, Sc.iv(args[0].t))), "int"))]


assumed.LIBRARY["ghost.dt_instant"] = _g_dt_instant
assumed.LIBRARY["ghost.dt_offset"] = _g_dt_offset
assumed.LIBRARY["ghost.eu_offset"] = _g_eu_offset


# ---- native reading of the ghost state (replay) ---------------------------------------------------------------------------
def _native_parse(args):
    from datetime import datetime
    s = args.get("entered_input")
    if not s:
        return None
    try:
        return datetime.fromisoformat(s.replace("Z", "+00:00") if s.endswith("Z") else s)
    except ValueError:
        return None


def _native_overflow(args):
    import pytz
    d = _native_parse(args)
    if d is None or d.tzinfo is None:
        return False
    try:
        d.astimezone(pytz.timezone("Europe/Berlin"))
        d.astimezone(pytz.utc)
        return False
    except OverflowError:
        return True


GHOST_NATIVE = {
    "iso_ok": lambda a: _native_parse(a) is not None,
    "iso_naive": lambda a: _native_parse(a) is not None and _native_parse(a).tzinfo is None,
    "iso_offset": lambda a: int(_native_parse(a).utcoffset().total_seconds()) if _native_parse(a) is not None
    and _native_parse(a).tzinfo is not None else 0,
    "iso_instant": lambda a: int(_native_parse(a).timestamp()) if _native_parse(a) is not None
    and _native_parse(a).tzinfo is not None else 0,
    "raised_OverflowError": _native_overflow,
}


def _concretize_string(ex, s, m, values):
    """an ISO-8601 string for the (instant, offset) the counter-model chose"""
    from datetime import datetime, timedelta, timezone
    out = {}
    for k, v in values.items():
        out[k] = None
    u = m.eval(Sc.iv(s.ghost["iso_instant"].t), model_completion=True).as_long()
    o = m.eval(Sc.iv(s.ghost["iso_offset"].t), model_completion=True).as_long() if "iso_offset" in s.ghost else 0
    ok = z3.is_true(m.eval(Sc.bv(s.ghost["iso_ok"].t), model_completion=True))
    naive = z3.is_true(m.eval(Sc.bv(s.ghost["iso_naive"].t), model_completion=True))
    if not ok:
        text = "not a datetime"
    else:
        try:
            d = datetime.fromtimestamp(u, tz=timezone(timedelta(seconds=o)))
            text = d.replace(tzinfo=None).isoformat() if naive else d.isoformat()
        except (OverflowError, ValueError, OSError):
            return None
    from pyvc.contracts import to_native
    for k, v in values.items():
        out[k] = text if k == "entered_input" else to_native(ex, s, m, v)
    return out


# ---- contracts ------------------------------------------------------------------------------------------------------------
def strom(u):
    """00:00:00 German local time"""
    return (u + eu_offset(u)) % 86400 == 0


def gas(u):
    """06:00:00 German local time"""
    return (u + eu_offset(u)) % 86400 == 21600


@contract(G + "is_stromtag_limit", prop=["C20"])
class IsStromtagLimit:
    """judges the instant only: the written offset does not occur in the result"""
    params = dict(date_time=aware_datetime())
    raises = {"OverflowError": None}

    def post_midnight_german_local_time(date_time, result):
        return result == strom(dt_instant(date_time))

    def model(date_time):
        return strom(dt_instant(date_time))


@contract(G + "is_gastag_limit", prop=["C20"])
class IsGastagLimit:
    params = dict(date_time=aware_datetime())
    raises = {"OverflowError": None}

    def post_six_german_local_time(date_time, result):
        return result == gas(dt_instant(date_time))

    def model(date_time):
        return gas(dt_instant(date_time))


def _defaults(ex, st, values):
    st.ghost["iso_ok"] = sv_bool(False)
    st.ghost["iso_naive"] = sv_bool(False)
    st.ghost["iso_offset"] = SV(mk_i(0), "int")
    st.ghost["iso_instant"] = SV(mk_i(0), "int")
    st.ghost["raised_OverflowError"] = sv_bool(False)


def _parse_hook(ex, st, bound):
    """modular view of parse_as_datetime: (None, unfulfilled result with message) or (aware datetime, None)"""
    s_err = st.fork()
    msg = SV(mk_s(ex.fresh("msg", z3.StringSort())), "str")
    err = ex.alloc(s_err, Obj("EvaluatedFormatConstraint", {"format_constraint_fulfilled": sv_bool(False),
                                                            "error_message": msg}))
    u = ex.fresh("parsed.instant", z3.IntSort())
    o = ex.fresh("parsed.offset", z3.IntSort())
    st.assume(z3.And(o > -DAY, o < DAY), axiom=True)
    d = new_dt(ex, st, u, o, z3.BoolVal(False))
    st.ghost["iso_ok"] = sv_bool(True)
    st.ghost["iso_naive"] = sv_bool(False)
    st.ghost["iso_offset"] = SV(mk_i(o), "int")
    st.ghost["iso_instant"] = SV(mk_i(u), "int")
    return [(s_err, Tup([sv_none(), err])), (st, Tup([d, sv_none()]))]


@contract(G + "parse_as_datetime", prop=["C20"])
class ParseAsDatetime:
    """(aware datetime, None) or (None, unfulfilled result with a message); never raises"""
    params = dict(entered_input=Opt(Str()))
    raises = {}
    setup = _defaults
    hook = _parse_hook

    def post_either_datetime_or_error(entered_input, result, ghost_iso_ok, ghost_iso_naive):
        dt, err = result
        if dt is None:
            return err.format_constraint_fulfilled is False and err.error_message is not None
        return err is None and ghost_iso_ok and not ghost_iso_naive


@contract(G + "is_xtag_limit", prop=["C20"])
class IsXtagLimit:
    """fulfilled iff the string parses to an aware datetime whose instant is the limit of the division's day (and the
    conversion does not leave the representable range); message iff unfulfilled; never raises"""
    runtime_checkable = True
    ghost_native = GHOST_NATIVE
    concretize = _concretize_string
    params = dict(entered_input=Opt(Str()), division=AnyOf(Const("Strom"), Const("Gas")))
    raises = {}
    setup = _defaults
    returns = Inst("EvaluatedFormatConstraint", format_constraint_fulfilled=AnyOf(Const(True), Const(False)),
                   error_message=Opt(Str()))
    ghost_specs = {"iso_ok": lambda: AnyOf(Const(True), Const(False)), "iso_naive": lambda: AnyOf(Const(True), Const(False)),
                   "iso_instant": lambda: Raw(lambda ex, st, n: SV(mk_i(ex.fresh(n, z3.IntSort())), "int")),
                   "raised_OverflowError": lambda: AnyOf(Const(True), Const(False))}

    def post_fulfilled_iff_limit(entered_input, division, result, ghost_iso_ok, ghost_iso_naive, ghost_iso_instant):
        if not result.format_constraint_fulfilled:
            return True
        if division == "Strom":
            return ghost_iso_ok and not ghost_iso_naive and strom(ghost_iso_instant)
        return ghost_iso_ok and not ghost_iso_naive and gas(ghost_iso_instant)

    def post_limit_is_fulfilled_or_out_of_range(entered_input, division, result, ghost_iso_ok, ghost_iso_naive,
                                                ghost_iso_instant, ghost_raised_OverflowError):
        """a parsable aware limit instant is reported fulfilled unless the conversion overflowed"""
        if not (ghost_iso_ok and not ghost_iso_naive) or ghost_raised_OverflowError:
            return True
        if division == "Strom":
            return result.format_constraint_fulfilled == strom(ghost_iso_instant)
        return result.format_constraint_fulfilled == gas(ghost_iso_instant)

    def post_message_iff_unfulfilled(entered_input, division, result):
        return (result.error_message is None) == (result.format_constraint_fulfilled is True)


@contract(G + "has_no_utc_offset", prop=["C20"])
class HasNoUtcOffset:
    """931: fulfilled iff the datetime is written with a zero UTC offset (whatever the time of day)"""
    runtime_checkable = True
    ghost_native = GHOST_NATIVE
    concretize = _concretize_string
    params = dict(entered_input=Opt(Str()))
    raises = {}
    setup = _defaults
    returns = Inst("EvaluatedFormatConstraint", format_constraint_fulfilled=AnyOf(Const(True), Const(False)),
                   error_message=Opt(Str()))
    ghost_specs = {"iso_ok": lambda: AnyOf(Const(True), Const(False)), "iso_naive": lambda: AnyOf(Const(True), Const(False)),
                   "iso_offset": lambda: Raw(lambda ex, st, n: SV(mk_i(ex.fresh(n, z3.IntSort())), "int")),
                   "raised_OverflowError": lambda: AnyOf(Const(True), Const(False))}

    def post_fulfilled_iff_zero_offset(entered_input, result, ghost_iso_ok, ghost_iso_naive, ghost_iso_offset,
                                       ghost_raised_OverflowError):
        if ghost_raised_OverflowError:
            return result.format_constraint_fulfilled is False
        return result.format_constraint_fulfilled == (ghost_iso_ok and not ghost_iso_naive and ghost_iso_offset == 0)

    def post_message_iff_unfulfilled(entered_input, result):
        return (result.error_message is None) == (result.format_constraint_fulfilled is True)


@lemma(dict(d1=aware_datetime(), d2=aware_datetime()), prop=["C20"])
def verdict_depends_on_the_instant_only(d1, d2):
    """offset invariance as a relational obligation over the contracts of is_stromtag_limit / is_gastag_limit"""
    from ahbicht.content_evaluation.german_strom_and_gas_tag import is_gastag_limit, is_stromtag_limit
    if dt_instant(d1) != dt_instant(d2):
        return True
    try:
        return is_stromtag_limit(d1) == is_stromtag_limit(d2) and is_gastag_limit(d1) == is_gastag_limit(d2)
    except OverflowError:
        return True  # edge of the representable range: handled (reported unfulfilled) by is_xtag_limit


# ---- the predefined evaluate_931..935 ---------------------------------------------------------------------------------------
FE = "ahbicht.content_evaluation.fc_evaluators:FcEvaluator."
EFC = Inst("EvaluatedFormatConstraint", format_constraint_fulfilled=AnyOf(Const(True), Const(False)),
           error_message=Opt(Str()))


@contract(FE + "evaluate_932", prop=["C20"])
class Evaluate932:
    """932 judges the Stromtag limit of the entered input"""
    params = dict(self=Inst("FcEvaluator"), entered_input=Opt(Str()))
    raises = {}

    def post_delegates(self, entered_input, result, ghost_IsXtagLimit_entered_input, ghost_IsXtagLimit_division,
                       ghost_IsXtagLimit_result):
        return ghost_IsXtagLimit_entered_input == entered_input and ghost_IsXtagLimit_division == "Strom" \
            and result is ghost_IsXtagLimit_result


@contract(FE + "evaluate_933", prop=["C20"])
class Evaluate933:
    params = dict(self=Inst("FcEvaluator"), entered_input=Opt(Str()))
    raises = {}

    def post_delegates(self, entered_input, result, ghost_IsXtagLimit_entered_input, ghost_IsXtagLimit_division,
                       ghost_IsXtagLimit_result):
        return ghost_IsXtagLimit_entered_input == entered_input and ghost_IsXtagLimit_division == "Strom" \
            and result is ghost_IsXtagLimit_result


@contract(FE + "evaluate_934", prop=["C20"])
class Evaluate934:
    """934 judges the Gastag limit of the entered input"""
    params = dict(self=Inst("FcEvaluator"), entered_input=Opt(Str()))
    raises = {}

    def post_delegates(self, entered_input, result, ghost_IsXtagLimit_entered_input, ghost_IsXtagLimit_division,
                       ghost_IsXtagLimit_result):
        return ghost_IsXtagLimit_entered_input == entered_input and ghost_IsXtagLimit_division == "Gas" \
            and result is ghost_IsXtagLimit_result


@contract(FE + "evaluate_935", prop=["C20"])
class Evaluate935:
    params = dict(self=Inst("FcEvaluator"), entered_input=Opt(Str()))
    raises = {}

    def post_delegates(self, entered_input, result, ghost_IsXtagLimit_entered_input, ghost_IsXtagLimit_division,
                       ghost_IsXtagLimit_result):
        return ghost_IsXtagLimit_entered_input == entered_input and ghost_IsXtagLimit_division == "Gas" \
            and result is ghost_IsXtagLimit_result


@contract(FE + "evaluate_931", prop=["C20"])
class Evaluate931:
    params = dict(self=Inst("FcEvaluator"), entered_input=Opt(Str()))
    raises = {}

    def post_delegates(self, entered_input, result, ghost_HasNoUtcOffset_entered_input, ghost_HasNoUtcOffset_result):
        return ghost_HasNoUtcOffset_entered_input == entered_input and result is ghost_HasNoUtcOffset_result
