"""C14 - soll_is_required == rewriting SOLL at every level: proof (flag forwarded at every call site: the spec of every
level mentions the caller's flag, so a dropped or hard-coded flag falsifies the level's contract) + lemma + bounded."""
from checks.c13 import FUNCS
from checks.common import prove, prove_lemmas, run_bounded
from vlib.report import Ctx

LEVEL = "proof"


def run(ctx: Ctx) -> None:
    ctx.explanation = (
        "each validate_* function is proved equal to a spec that threads the caller's soll_is_required into every "
        "sub-call (actual arguments are taken after default-filling from the real signatures, so an omitted argument "
        "shows up as the default True); map_requirement_validation_values is proved to treat SOLL under flag b exactly "
        "as MUSS (b) / KANN (not b) and to ignore the flag for every other indicator (lemmas). Together: "
        "deep(ahb, b) = deep(rewrite_b(ahb), .) by induction over the tree (modular recursion).")
    ctx.trust("A-ASYNCIO", "A-MAUS")
    prove(ctx, FUNCS[:1] + FUNCS[2:9])
    prove_lemmas(ctx, "contracts.validation_lemmas", ["soll_is_muss_or_kann", "flag_matters_only_for_soll",
                                                     "canary_soll_is_always_muss"])
    run_bounded(ctx, "C14")
