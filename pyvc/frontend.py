"""Front end of pyvc: reads the *current* source of ahbicht (and selected third-party files) with `ast`, never by
importing it, and extracts the model the executor needs: modules, functions (by qualified name), classes with their
bases, enums (members in definition order with their values), attrs classes (fields, defaults, kw_only, validators).
"""
from __future__ import annotations

import ast
import os
from dataclasses import dataclass, field
from pathlib import Path
from typing import Dict, List, Optional, Tuple

REPO = Path(os.environ.get("AHBICHT_REPO", "/repo"))
SRC = REPO / "src"


class FrontendError(Exception):
    pass


@dataclass
class FieldInfo:
    name: str
    annotation: Optional[ast.expr]
    default: Optional[ast.expr]  # None = required
    has_default: bool
    validator: Optional[ast.expr]
    owner: str


@dataclass
class ClassInfo:
    name: str
    module: "ModInfo"
    node: ast.ClassDef
    bases: List[str]
    is_enum: bool = False
    members: List[Tuple[str, object]] = field(default_factory=list)  # enums: (name, value)
    is_attrs: bool = False
    kw_only: bool = False
    own_fields: List[FieldInfo] = field(default_factory=list)
    methods: Dict[str, ast.AST] = field(default_factory=dict)
    class_attrs: Dict[str, ast.expr] = field(default_factory=dict)


@dataclass
class ModInfo:
    name: str
    path: Path
    tree: ast.Module
    source: str
    functions: Dict[str, ast.AST] = field(default_factory=dict)  # top-level functions
    classes: Dict[str, ClassInfo] = field(default_factory=dict)
    globals_: Dict[str, ast.expr] = field(default_factory=dict)  # simple top-level assignments
    imports: Dict[str, Tuple[str, Optional[str]]] = field(default_factory=dict)  # local name -> (module, attr|None)


BUILTIN_EXC_BASES = {
    "BaseException": [], "Exception": ["BaseException"], "ValueError": ["Exception"], "LookupError": ["Exception"],
    "KeyError": ["LookupError"], "IndexError": ["LookupError"], "AttributeError": ["Exception"],
    "RuntimeError": ["Exception"], "NotImplementedError": ["RuntimeError"], "TypeError": ["Exception"],
    "SyntaxError": ["Exception"], "ArithmeticError": ["Exception"], "OverflowError": ["ArithmeticError"],
    "NameError": ["Exception"], "UnboundLocalError": ["NameError"], "AssertionError": ["Exception"],
    "StopIteration": ["Exception"], "KeyboardInterrupt": ["BaseException"], "SystemExit": ["BaseException"],
    # lark (read from lark/exceptions.py at load time and compared; see Repo._check_lark_exceptions)
    "LarkError": ["Exception"], "VisitError": ["LarkError"], "UnexpectedInput": ["LarkError"],
    "UnexpectedEOF": ["ParseError", "UnexpectedInput"], "UnexpectedCharacters": ["LexError", "UnexpectedInput"],
    "UnexpectedToken": ["ParseError", "UnexpectedInput"], "ParseError": ["LarkError"], "LexError": ["LarkError"],
    "ValidationError": ["MarshmallowError"], "MarshmallowError": ["Exception"],
    "InjectorException": ["Exception"],
}


def _dotted(e: ast.expr) -> Optional[str]:
    if isinstance(e, ast.Name):
        return e.id
    if isinstance(e, ast.Attribute):
        b = _dotted(e.value)
        return f"{b}.{e.attr}" if b else None
    if isinstance(e, ast.Subscript):  # Generic[...] / BaseTransformer[...]
        return _dotted(e.value)
    return None


class Repo:
    """Lazily loaded view of the source tree."""

    def __init__(self, src: Path = SRC, package: str = "ahbicht") -> None:
        self.src = Path(src)
        self.package = package
        self.modules: Dict[str, ModInfo] = {}
        self.classes: Dict[str, ClassInfo] = {}  # by simple name (checked unique)
        self._load_all()

    # ------------------------------------------------------------------ loading
    def _load_all(self) -> None:
        root = self.src / self.package
        if not root.is_dir():
            raise FrontendError(f"source tree {root} not found")
        for path in sorted(root.rglob("*.py")):
            rel = path.relative_to(self.src).with_suffix("")
            parts = list(rel.parts)
            if parts[-1] == "__init__":
                parts = parts[:-1]
            self._load_module(".".join(parts), path)

    def _load_module(self, name: str, path: Path) -> ModInfo:
        source = path.read_text(encoding="utf-8")
        tree = ast.parse(source, filename=str(path))
        mod = ModInfo(name=name, path=path, tree=tree, source=source)
        for node in tree.body:
            self._scan_toplevel(mod, node)
        self.modules[name] = mod
        return mod

    def load_external(self, name: str, path: Path) -> ModInfo:
        """Load a third-party source file (e.g. lark/tree.py) so that functions in it can be executed symbolically."""
        if name in self.modules:
            return self.modules[name]
        return self._load_module(name, path)

    def _scan_toplevel(self, mod: ModInfo, node: ast.stmt) -> None:
        if isinstance(node, (ast.FunctionDef, ast.AsyncFunctionDef)):
            mod.functions[node.name] = node
        elif isinstance(node, ast.ClassDef):
            ci = self._scan_class(mod, node)
            mod.classes[node.name] = ci
            if node.name in self.classes and self.classes[node.name].module.name.startswith(self.package) \
                    and mod.name.startswith(self.package):
                raise FrontendError(f"class name {node.name} is defined twice; the simple-name registry is ambiguous")
            self.classes.setdefault(node.name, ci)
        elif isinstance(node, ast.Assign) and len(node.targets) == 1 and isinstance(node.targets[0], ast.Name):
            mod.globals_[node.targets[0].id] = node.value
        elif isinstance(node, ast.AnnAssign) and isinstance(node.target, ast.Name) and node.value is not None:
            mod.globals_[node.target.id] = node.value
        elif isinstance(node, ast.ImportFrom):
            for a in node.names:
                mod.imports[a.asname or a.name] = (node.module or "", a.name)
        elif isinstance(node, ast.Import):
            for a in node.names:
                mod.imports[a.asname or a.name.split(".")[0]] = (a.name, None)
        elif isinstance(node, ast.If):  # e.g. the StrEnum shim in ahbicht/__init__.py
            for sub in node.body + node.orelse:
                self._scan_toplevel(mod, sub)

    def _scan_class(self, mod: ModInfo, node: ast.ClassDef) -> ClassInfo:
        bases = [b for b in (_dotted(x) for x in node.bases) if b]
        bases = [b.split(".")[-1] for b in bases]
        ci = ClassInfo(name=node.name, module=mod, node=node, bases=bases)
        for dec in node.decorator_list:
            d = _dotted(dec.func) if isinstance(dec, ast.Call) else _dotted(dec)
            if d in ("attrs.define", "attr.s", "attrs.frozen", "define"):
                ci.is_attrs = True
                if isinstance(dec, ast.Call):
                    for kw in dec.keywords:
                        if kw.arg == "kw_only" and isinstance(kw.value, ast.Constant):
                            ci.kw_only = bool(kw.value.value)
        if any(b in ("Enum", "StrEnum", "IntEnum") for b in bases):
            ci.is_enum = True
        for st in node.body:
            if isinstance(st, (ast.FunctionDef, ast.AsyncFunctionDef)):
                ci.methods[st.name] = st
            elif isinstance(st, ast.Assign) and len(st.targets) == 1 and isinstance(st.targets[0], ast.Name):
                nm = st.targets[0].id
                if ci.is_enum and isinstance(st.value, ast.Constant):
                    ci.members.append((nm, st.value.value))
                else:
                    ci.class_attrs[nm] = st.value
            elif isinstance(st, ast.AnnAssign) and isinstance(st.target, ast.Name):
                nm = st.target.id
                default, has_default, validator = None, False, None
                if st.value is not None:
                    v = st.value
                    if isinstance(v, ast.Call) and _dotted(v.func) in ("attrs.field", "attr.ib", "field"):
                        for kw in v.keywords:
                            if kw.arg == "default":
                                default, has_default = kw.value, True
                            elif kw.arg == "validator":
                                validator = kw.value
                    else:
                        default, has_default = v, True
                ci.own_fields.append(FieldInfo(nm, st.annotation, default, has_default, validator, node.name))
                if st.value is not None and not ci.is_attrs:
                    ci.class_attrs[nm] = st.value
        return ci

    # ------------------------------------------------------------------ queries
    def module(self, name: str) -> ModInfo:
        if name not in self.modules:
            raise FrontendError(f"module {name} not found under {self.src}")
        return self.modules[name]

    def function(self, target: str) -> Tuple[ModInfo, ast.AST, Optional[ClassInfo]]:
        """target = 'pkg.mod:func' | 'pkg.mod:Class.method' | 'pkg.mod:func.inner'"""
        modname, qual = target.split(":")
        mod = self.module(modname)
        parts = qual.split(".")
        if parts[0] in mod.classes:
            ci = mod.classes[parts[0]]
            if len(parts) != 2 or parts[1] not in ci.methods:
                raise FrontendError(f"contract target not found: {target}")
            return mod, ci.methods[parts[1]], ci
        if parts[0] not in mod.functions:
            raise FrontendError(f"contract target not found: {target}")
        node = mod.functions[parts[0]]
        for p in parts[1:]:
            inner = [s for s in ast.walk(node) if isinstance(s, (ast.FunctionDef, ast.AsyncFunctionDef)) and s.name == p
                     and s is not node]
            if not inner:
                raise FrontendError(f"contract target not found: {target}")
            node = inner[0]
        return mod, node, None

    def source_of(self, mod: ModInfo, node: ast.AST) -> str:
        return ast.get_source_segment(mod.source, node) or ""

    def cls(self, name: str) -> Optional[ClassInfo]:
        return self.classes.get(name)

    def mro(self, name: str) -> List[str]:
        """Linearised ancestors (depth-first, left-to-right, de-duplicated: enough for the single/mixin inheritance
        used in ahbicht)."""
        out: List[str] = []

        def walk(n: str) -> None:
            if n in out:
                return
            out.append(n)
            ci = self.classes.get(n)
            bases = ci.bases if ci else BUILTIN_EXC_BASES.get(n, [])
            for b in bases:
                walk(b)

        walk(name)
        return out

    def issubclass(self, name: str, base: str) -> bool:
        return base in self.mro(name) or base == "object"

    def find_method(self, cls: str, meth: str) -> Optional[Tuple[ClassInfo, ast.AST]]:
        for c in self.mro(cls):
            ci = self.classes.get(c)
            if ci and meth in ci.methods:
                return ci, ci.methods[meth]
        return None

    def find_class_attr(self, cls: str, attr: str) -> Optional[Tuple[ClassInfo, ast.expr]]:
        for c in self.mro(cls):
            ci = self.classes.get(c)
            if ci and attr in ci.class_attrs:
                return ci, ci.class_attrs[attr]
        return None

    def attrs_fields(self, cls: str) -> List[FieldInfo]:
        """attrs field collection: base classes first (reverse MRO), own fields last; a redefinition in a subclass
        replaces the inherited field *and moves it to the end* (attrs semantics)."""
        fields: List[FieldInfo] = []
        for c in reversed(self.mro(cls)):
            ci = self.classes.get(c)
            if not ci or not ci.is_attrs:
                continue
            for f in ci.own_fields:
                fields = [x for x in fields if x.name != f.name]
                fields.append(f)
        return fields

    def has_field(self, cls: str, attr: str) -> bool:
        return any(f.name == attr for f in self.attrs_fields(cls))

    def enum_members(self, cls: str) -> List[Tuple[str, object]]:
        ci = self.classes.get(cls)
        if not ci or not ci.is_enum:
            raise FrontendError(f"{cls} is not an enum in the source tree")
        return ci.members
