"""Spec functions for the four-valued condition logic (property C03), written from the property statement:
Kleene logic on FULFILLED / UNFULFILLED / UNKNOWN with NEUTRAL as identity element.  Python subset of pyvc."""
from ahbicht.models.condition_nodes import ConditionFulfilledValue

F = ConditionFulfilledValue.FULFILLED
U = ConditionFulfilledValue.UNFULFILLED
K = ConditionFulfilledValue.UNKNOWN
N = ConditionFulfilledValue.NEUTRAL


def and4(a, b):
    if b == N:
        return a
    if a == N:
        return b
    if a == U or b == U:
        return U
    if a == K or b == K:
        return K
    return F


def or4(a, b):
    if b == N:
        return a
    if a == N:
        return b
    if a == F or b == F:
        return F
    if a == K or b == K:
        return K
    return U


def xor4(a, b):
    if b == N:
        return a
    if a == N:
        return b
    if a == K or b == K:
        return K
    if a != b:
        return F
    return U


def refines(a, a2):
    """information order: a2 is a (possibly trivial) resolution of a"""
    return a == a2 or (a == K and (a2 == F or a2 == U))


def definite(a):
    return a == F or a == U
