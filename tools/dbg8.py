"""dump the unknown / slow queries of one lemma or target as SMT-LIB2 and retry them with other settings"""
import sys, time, z3
from checks.common import load_sidecars, verifier
load_sidecars()
v=verifier()
import pyvc.vc as VC
orig=VC.Verifier.prove
n=[0]
def prove(self, pc, goal):
    t=time.time(); r=orig(self, pc, goal); dt=time.time()-t
    if r[0]=="unknown" or dt>2:
        s=z3.Solver()
        for a in self.ex.all_axioms(): s.add(a)
        s.add(*pc); s.add(z3.Not(goal))
        n[0]+=1
        open(f"/tmp/q{n[0]}.smt2","w").write(s.sexpr()+"\n(check-sat)\n")
        print("dumped", f"/tmp/q{n[0]}.smt2", r[0], round(dt,1))
    return r
VC.Verifier.prove=prove
k=sys.argv[1]
from pyvc.contracts import LEMMAS
if k in LEMMAS:
    LEMMAS[k].expect_sat=False
    o=v.verify_lemma(k); print(o.status, o.detail)
else:
    for o in v.verify(k): print(o.name,o.status,o.detail[:100])
