"""Validation histories (bounded stand-in shared by C13, C14, C16, C17): the statements about validation hold for
every call, whatever was validated before.  The case-by-case harnesses run every case in its own asyncio task (a new
context each), so state that survives a call - a memo in a ContextVar that is never reset, a module-level table, a
cached result object that is handed out again - never meets a second call there.  Here ONE task performs a sequence
of validations of the same AHB under CHANGING circumstances (content evaluation result, soll_is_required, entry
point: whole AHB / first group / first segment), edits the result objects it was handed in place between the steps (as
a caller may), and compares every step with the oracle specs.validation_spec for THAT step's circumstances.

The oracle's expression callback is the real expression evaluation (A-EVAL, as in bounded/c13.py).
"""
from __future__ import annotations

import asyncio
import copy
import itertools
import random
import time
from typing import Any, Dict, List, Optional, Tuple

from bounded import ahbgen as G
from bounded import common
from bounded.c13 import _first_segment, compare
from specs import validation_spec as S

MODULE = "bounded.valhist"
ENTRIES = ("deep", "level_group", "level_segment")


def _subject(ahb, entry: str):
    if entry == "deep":
        return ahb
    if entry == "level_group":
        return ahb.lines[0]
    return _first_segment(ahb.lines[0]) or ahb.lines[0]


def _expected(ahb, entry: str, cer: int, soll: bool):
    ev = G.evaluator(cer)
    subject = _subject(ahb, entry)
    try:
        return S.deep(subject, ev, soll) if entry == "deep" else S.segment_level(subject, ev, soll)
    except S.Undetermined:
        return None


def _vandalise(results: Any) -> None:
    """what a caller may do with the result objects it was handed"""
    from ahbicht.models.validation_values import RequirementValidationValue as V
    for r in results if isinstance(results, list) else [results]:
        vr = r.validation_result
        vr.requirement_validation = V.IS_REQUIRED if "OPTIONAL" in str(vr.requirement_validation) or \
            "FORBIDDEN" in str(vr.requirement_validation) else V.IS_FORBIDDEN
        vr.hints = None if vr.hints else "edited by the caller"
        if getattr(vr, "possible_values", None):
            vr.possible_values.clear()


def history_case(case: dict) -> dict:
    """case: {"lines": plan, "steps": [[entry, cer index, soll], ...]} -> verdict of the FIRST step that disagrees"""
    import ahbicht.validation.validation as v
    lines, steps = case["lines"], [tuple(s) for s in case["steps"]]
    ahb = G.build_ahb(lines)
    expected = [_expected(ahb, e, c, s) for e, c, s in steps]  # oracle first: it evaluates in tasks of its own

    async def go():
        observed = []
        for entry, cer, soll in steps:
            common.set_cer(G.CERS[cer])
            subject = copy.deepcopy(_subject(ahb, entry))
            fn = v.validate_deep_anwendungshandbuch if entry == "deep" else v.validate_segment_level
            try:
                res = await fn(subject, soll)
            except (KeyboardInterrupt, SystemExit, MemoryError):
                raise
            except BaseException as err:  # noqa
                observed.append(("raised", f"{type(err).__name__}: {str(err)[:160]}"))
                continue
            observed.append(("ok", G.plain(res)))
            _vandalise(res)
        return observed

    observed = asyncio.run(go())
    out = {"verdict": "ok", "message": "", "runs": len(steps), "nontrivial": len({(c, s) for _e, c, s in steps}) > 1}
    for i, ((entry, cer, soll), exp, (how, obs)) in enumerate(zip(steps, expected, observed)):
        if exp is None:
            if not (how == "raised" and obs.startswith("NotImplementedError")):
                msg = "NotImplementedError expected (undetermined outcome of a visited MUSS/X/O/U node)"
            else:
                continue
        elif how == "raised":
            msg = f"validation raised {obs}"
        else:
            msg = compare(exp, obs)
        if msg:
            out.update(verdict="mismatch", kind=f"step {i}: " + msg.split(":")[0][:60], step=i,
                       expected=None if exp is None else [[e.discriminator, e.status] for e in exp],
                       observed=obs if how == "raised" else [[o["discriminator"], o["status"]] for o in obs],
                       message=f"step {i} of {len(steps)} in ONE task ({entry}, content evaluation result #{cer}, "
                               f"soll_is_required={soll}; earlier steps: {steps[:i]}): {msg}")
            return out
    return out


def single_steps_agree(case: dict) -> bool:
    """does every step of the case, run on its own, agree with the oracle? (then a disagreement is history-dependent)"""
    return all(history_case({"lines": case["lines"], "steps": [s]})["verdict"] == "ok" for s in case["steps"])


def cases(tier: str, seed: int, expr_pool: List[str], entry_pool: List[str], cers: List[int]) -> List[dict]:
    rng = random.Random(seed + 1313)
    out = []
    n = 240 if tier == "thorough" else 60
    for _ in range(n):
        lines = G.random_lines(rng, depth=rng.choice((1, 2, 2, 3)), branching=2, expr_pool=expr_pool, entry_pool=entry_pool,
                               max_pool=2)
        k = rng.choice((2, 3, 3, 4))
        steps = [["deep", rng.choice(cers), rng.random() < 0.5]]
        for _j in range(k - 1):
            steps.append([rng.choice(ENTRIES), rng.choice(cers), rng.random() < 0.5])
        out.append({"lines": lines, "steps": steps})
    return out


def run_histories(ctx, tier: str, seed: int, expr_pool: List[str], entry_pool: List[str], cers: List[int],
                  clause: str = "histories-in-one-task") -> None:
    t0 = time.time()
    cs = cases(tier, seed, expr_pool, entry_pool, cers)
    results = common.pmap(history_case, cs)
    bad = [(c, r) for c, r in zip(cs, results) if r["verdict"] != "ok"]
    bad.sort(key=lambda cr: (len(G.canon(cr[0])), G.canon(cr[0])))
    reported = 0
    if bad:
        common.configure_inject()
    for c, _r in bad:
        if reported >= 3:
            break
        again = common.in_fresh_child(lambda c=c: history_case(c))
        if not again or again["verdict"] == "ok":
            ctx.note(f"{clause}: a disagreement did not reproduce on replay (not reported): {G.canon(c)[:200]}")
            continue
        alone = common.in_fresh_child(lambda c=c: single_steps_agree(c))
        reported += 1
        ctx.violation(obligation=f"bounded/{clause}-w{reported}",
                      message=again["message"] + ("; every step on its own agrees with the oracle (history-dependent)"
                                                  if alone else ""),
                      witness={"case": c, "observed": again.get("observed"), "expected": again.get("expected"),
                               "each_step_alone_ok": bool(alone)},
                      replayed=True, signature=f"{clause}:{G.canon(c)[:80]}",
                      replay_code=("import logging; logging.disable(logging.CRITICAL)\n"
                                   "from bounded.common import configure_inject; configure_inject()\n"
                                   f"from bounded.valhist import history_case\nprint(history_case({c!r}))"))
    ctx.bounded(clause, sum(r["runs"] for r in results), len({G.canon(c) for c, r in zip(cs, results) if r["nontrivial"]}),
                "distinct (AHB, sequence of 2-4 validations in ONE task with changing content evaluation result / "
                "soll_is_required / entry point, result objects edited in place between the steps); every step compared "
                "with the oracle for its own circumstances; non-trivial iff the circumstances change within the sequence",
                [c for c in cs[:2]], exhaustive=False, bound=f"{len(cs)} seeded sequences over random AHBs of depth <= 3",
                seconds=time.time() - t0)
