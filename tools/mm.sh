#!/bin/bash
cd /verif
run() { d=$(mktemp -d /tmp/ahbm_XXXX); cp -r /repo/src $d/; python3 - "$d" "$2" "$3" "$4" <<'PY'
import sys
d,f,old,new=sys.argv[1:5]
p=f"{d}/src/ahbicht/{f}"; s=open(p).read(); assert old in s, "old not found"; open(p,"w").write(s.replace(old,new,1))
PY
AHBICHT_REPO=$d PYTHONPATH=$d/src:/verif .venv/bin/python -W ignore tools/target1.py "$1" 2>&1 | grep -v discharged | cut -c1-300; rm -rf $d; }
run "$@"
