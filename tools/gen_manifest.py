"""(re)generates /verif/MANIFEST.json from the table below; a property whose check module does not exist yet stays
under not_applicable with that reason."""
import json, os
V = "/verif"
ASSUME_PY = ("own AST->z3 VC generator (pyvc) over the real source: Python semantics assumed as S1-S7 (mathematical ints, "
             "no side effects in attribute reads, enum identity, only modelled exceptions, logging inert, no aliasing of "
             "distinct parameters, partial correctness); dependencies through the named assumed contracts A-* of DESIGN §2.5")
T = {
 "C01": ("exploration", "bounded check of the parser contract against an independent precedence-climbing reference parser "
         "(all expression trees up to a leaf bound, several renderings) + ground structural obligations on the live Lark rule table + token languages of all terminals decided over all of Unicode (regular-language equivalence, character sets from the re engine)",
         "bounded enumeration vs reference parser; ground obligations on Lark rule table; automaton equivalence of the terminals",
         "Lark's Earley parser with ambiguity='resolve' is outside any verifier here (A-LARK-RESOLVE assumed for the structural argument); bounded, never counted as proved", "4 C01"),
 "C02": ("other", "exception-flow VCs ('only SyntaxError escapes', given A-LARK-PARSE/A-LARK-FOLD) on the three parsing entry points proved by z3; "
         "token languages of all terminals of both grammars decided for all strings (regular-language equivalence over the full Unicode alphabet); accepted language as a whole decided by a bounded check against a reference recogniser",
         "exception-flow VCs (z3) + automaton equivalence of the terminals (all of Unicode) + bounded language check vs reference recogniser",
         "A-LARK-PARSE (raise set of Lark.parse), A-LARK-FOLD (VisitError wrapping); language exactness is bounded only", "4 C02"),
 "C03": ("proof", "every path of __and__/__or__/__xor__ proved equal to the spec functions; algebraic laws, README rows, UNKNOWN soundness/tightness as lemmas; finite domain also enumerated on the real operators",
         "contract VCs from the AST discharged by z3 (finite sorts) + complete enumeration", ASSUME_PY, "4 C03"),
 "C04": ("proof", "per-callback contracts proved from the AST for all operand nodes; induction steps as lemmas over the contracts; final mapping proved; induction principle A-LARK-FOLD assumed; bounded API backstop separate",
         "contract VCs (z3) on transformer callbacks + induction-step lemmas; bounded backstop (sequences replayed in a forked child, same tree evaluated twice)", ASSUME_PY + "; A-LARK-FOLD is the induction principle", "4 C04"),
 "C05": ("proof", "lemmas over the contracts of C03/C04 (hint insertion, format-constraint attachment, operand swap, UNKNOWN monotonicity) proved by z3; metamorphic bounded backstop separate",
         "lemmas over contracts (z3) + metamorphic bounded backstop", ASSUME_PY + "; A-LARK-FOLD", "4 C05"),
 "C06": ("proof", "raise conditions of the callbacks proved equal to the structural criterion; ghost invariant carried by the induction steps; is_valid_expression clause relative to a bounded-validated callee (C18)",
         "exceptional-path VCs (z3) + ghost invariant lemmas + loop-invariant VCs of gather_if_necessary; bounded backstop", ASSUME_PY + "; generate_possible_content_evaluation_results bounded-validated only", "4 C06"),
 "C07": ("other", "abstract-view VCs (which constraint takes part, operator, None-ness) proved by z3 given six parser axioms; axioms and end-to-end meaning decided by a bounded check",
         "contract VCs over a string view (z3) + bounded validation of the view axioms and of the end-to-end statement", ASSUME_PY + "; parser axioms X1-X6 (pyvc/fxview.py)", "4 C07"),
 "C08": ("proof", "Boolean value and 'message iff unfulfilled' invariant proved per callback and builder method; precedence inherited from C01 (bounded)",
         "contract VCs (z3) on FC transformer callbacks and message builder; bounded backstop", ASSUME_PY + "; A-LARK-FOLD; precedence = C01", "4 C08"),
 "C09": ("other", "selection loop / result plumbing proved by z3; indicator token callbacks decided by complete enumeration; AHB splitting by a bounded check against a reference splitter",
         "loop-invariant VC (z3) + exhaustive token enumeration + automaton equivalence of the AHB terminals (all of Unicode) + bounded splitter check", ASSUME_PY + "; splitting is Lark (bounded only)", "4 C09"),
 "C10": ("other", "time-condition mapping, package lookup and order of expansion proved by z3; substitution identity decided by a bounded check against a textual oracle",
         "contract VCs (z3) + bounded check vs textual substitution oracle", ASSUME_PY + "; placeholder replacement pass is bounded only", "4 C10"),
 "C11": ("other", "ownership obligation on tree_copy.decorated (nothing reachable from the result is reachable from the cache) using Lark's own Tree.copy/__deepcopy__ source; bounded history replay",
         "object-graph ownership analysis of the real AST + ground encapsulation obligations (state/*) + bounded history replay (parsers, resolver, expansions)", "A-STDLIB (lru_cache, deepcopy); bounded histories", "4 C11"),
 "C12": ("other", "order/association obligations at the gather sites proved by z3 relative to the asyncio model; frame obligations from the AST; adversarial schedules bounded",
         "association VCs (z3) given A-ASYNCIO + syntactic frame obligations + bounded adversarial schedules + concurrent evaluations on the shipped singleton evaluators", "A-ASYNCIO (gather order, context copy), A-INJECT; the event loop itself is exercised only by the bounded schedules", "4 C12"),
 "C13": ("proof", "all ten functions of validation.py proved against the recursive spec flat/deep (list algebra + z3); bounded API backstop separate",
         "contract VCs (z3 + list-term algebra) on validation.py; bounded backstop incl. validation histories in one task", ASSUME_PY + "; A-ASYNCIO (gather keeps argument order), A-MAUS", "4 C13"),
 "C14": ("proof", "call-site obligations: every internal call forwards soll_is_required; lemma map(.,SOLL,b)=map(.,b?MUSS:KANN,.)",
         "call-site obligations + lemma (z3); bounded backstop", ASSUME_PY, "4 C14"),
 "C15": ("other", "ContextVar as context-local ghost state: value seen by the evaluation = own input, proved relative to the asyncio model; adversarial schedules bounded",
         "ghost-state VC (z3) given A-ASYNCIO + bounded adversarial schedules", "A-ASYNCIO (M1-M4)", "4 C15"),
 "C16": ("proof", "exceptional-path obligations at the three except sites + lemma vs 'Kann'",
         "exceptional-path VCs + lemma (z3); bounded backstop", ASSUME_PY, "4 C16"),
 "C17": ("proof", "value-pool contract with accumulating-loop rule proved by z3 (offered = filter in pool order, status, flag, reset)",
         "loop VC (z3, list-term algebra) on validate_data_element_valuepool; bounded backstop", ASSUME_PY + "; qualifiers of a pool are distinct", "4 C17"),
 "C18": ("other", "number ranges proved for all integers (linear arithmetic); partition / sanitize / union obligations; Cartesian-product identity bounded",
         "contract VCs (z3, LIA) + bounded enumeration identity incl. generate/edit/generate histories", ASSUME_PY + "; itertools (bounded only)", "4 C18"),
 "C19": ("exploration", "bounded round-trip check of every schema over small field domains and produced objects; the post_load / pre_dump / post_dump hook bodies proved from their AST (field-wise construction, wrapper hooks inverse, indicator values); ground schema/class conformance obligations",
         "contract VCs (z3) on the schema hook bodies + bounded round trips (incl. one-schema-instance histories) + ground conformance obligations from both ASTs", "A-MARSHMALLOW (field (de)serialisation and hook dispatch assumed); the round trip through marshmallow is bounded only; ContentEvaluationResultSchema.deserialize bounded only", "4 C19"),
 "C20": ("other", "date/time predicates proved over (instant, offset) pairs given stdlib/pytz contracts; pytz table checked completely; ISO notation sweep bounded",
         "contract VCs over integer instants (z3) + complete tz-table check + bounded notation sweep + random-order histories around every DST switch", "A-DATETIME, A-PYTZ (table checked completely each run)", "4 C20"),
}
props = [json.loads(l)["id"] for l in open(f"{V}/properties.jsonl")]
checks, na = [], []
for p in props:
    lvl, text, tech, note, ref = T[p]
    if os.path.exists(f"{V}/checks/{p.lower()}.py"):
        checks.append({"property_id": p, "quick_cmd": f"./vcheck {p} --tier quick", "thorough_cmd": f"./vcheck {p} --tier thorough",
                       "evidence_file": f"evidence/{p}.json", "replay_cmd_template": "./vcheck replay {path}", "engine": "pyvc",
                       "level_claimed": {"category": lvl, "text": text, "design_ref": f"DESIGN.md §{ref}"},
                       "level_note": note, "technique": tech})
    else:
        na.append({"property_id": p, "reason": "check not built yet (construction in progress; DESIGN.md §4 gives the plan for this property)"})
m = {"version": 1, "setup_cmd": "./setup.sh",
     "hooks": {"guard": "AHBICHT_VERIF", "enable": "no hook is needed: contracts live in side-car files under /verif and the checks read /repo/src as it is",
               "baseline_off_cmd": "cd /repo && /venv/bin/python -m pytest -ra -q -p no:cacheprovider --timeout=900 --continue-on-collection-errors",
               "source_commits": [], "add_only": True},
     "engines": [{"name": "pyvc", "path": "pyvc/", "serves_properties": [c["property_id"] for c in checks],
                  "kind_free_text": "own AST->z3 verification-condition generator over the real source + side-car contracts (contracts/, specs/); bounded stand-ins (bounded/) labelled bounded"}],
     "checks": checks,
     "notes": "exit 0 held / 1 violation / 2 nothing explorable / 3 checker crash; undecided obligations are never violations (DESIGN §2.10)",
     "not_applicable": na}
json.dump(m, open(f"{V}/MANIFEST.json", "w"), indent=1)
print(len(checks), "checks;", len(na), "not built")
