"""Path-splitting forward symbolic execution of the real Python AST (DESIGN §2.2 - §2.9).

eval(expr, st)      -> [(st', value | Exc)]
exec_block(stmts, st) -> [(st', ctl)]   ctl = None | ('return', v) | ('raise', Exc) | ('break',) | ('continue',)

A state is consumed by the call that receives it (it may be mutated or forked).  Anything outside the supported subset
raises `Unsupported`, which makes every obligation of the function under analysis *undecided*.
"""
from __future__ import annotations

import ast
import itertools
from typing import Any, Callable, Dict, List, Optional, Sequence, Tuple

import z3

from pyvc import lists as L
from pyvc.frontend import ClassInfo, ModInfo, Repo
from pyvc.state import Frame, State
from pyvc.values import (FALSE, NONE, TRUE, BuiltinV, ClassV, CoroV, DictObj, Exc, FuncV, ListObj, ModV, Obj, Opaque,
                         Ref, Sc, SV, Tup, Unsupported, mk_b, mk_e, mk_i, mk_s, sv_bool, sv_int, sv_none, sv_str,
                         truthy)

Res = Tuple[State, Any]

BUILTIN_NAMES = {"isinstance", "getattr", "hasattr", "len", "str", "int", "bool", "all", "any", "range", "enumerate",
                 "zip", "dict", "list", "tuple", "set", "print", "repr", "sorted", "min", "max", "super", "type",
                 "callable", "abs", "frozenset", "iter", "next", "id"}
EXC_BUILTINS = {"BaseException", "Exception", "ValueError", "KeyError", "AttributeError", "NotImplementedError",
                "TypeError", "SyntaxError", "OverflowError", "UnboundLocalError", "AssertionError", "LookupError",
                "RuntimeError", "IndexError", "NameError", "ArithmeticError", "StopIteration"}


class Executor:
    def __init__(self, repo: Repo, contracts: Optional[dict] = None, library: Optional[dict] = None,
                 timeout_ms: int = 10000) -> None:
        self.repo = repo
        self.contracts = contracts or {}   # qualname -> Contract (modular calls)
        self.library = library or {}       # dotted name -> handler(ex, st, args, kwargs) -> [Res]
        self.attr_library: Dict[str, Callable] = {}  # 'tag.attr' handlers for Opaque objects
        self.timeout_ms = timeout_ms
        self._n = itertools.count(1)
        self._enum_ids: Dict[str, int] = {}
        self._enum_by_id: Dict[int, str] = {}
        self._ufs: Dict[str, z3.FuncDeclRef] = {}
        self.module_cache: Dict[Tuple[str, str], Any] = {}
        self.inline_only: set = set()      # qualnames that must be inlined even if a contract exists
        self.no_contract_for: Optional[str] = None  # function currently being verified (its body is executed)
        self.side_obligations: List[Tuple[str, List[z3.BoolRef], z3.BoolRef, str]] = []
        from pyvc.listtheory import FilterFunctions
        self.filters = FilterFunctions(self)
        self.inlined_seen: set = set()
        self.solver_time = 0.0
        self.max_depth = 40
        self.extra_modules: Dict[str, ModInfo] = {}
        self.class_fields_hook: Dict[str, Callable] = {}  # external classes: name -> constructor handler
        self.global_axioms: List[z3.BoolRef] = []   # about symbols that live as long as the executor (ghost functions)
        self.local_axioms: List[z3.BoolRef] = []    # about symbols of the current target (filter / dict-index functions)
        self._feas_cache: Dict[Any, bool] = {}
        self.index_ctx: List[Any] = []
        self.skolems: List[Any] = []
        self.len_symbols: List[Any] = []
        self._keep: List[Any] = []

    # ------------------------------------------------------------------------------------------------ utilities
    def all_axioms(self) -> List[z3.BoolRef]:
        return self.global_axioms + self.local_axioms

    def new_target(self) -> None:
        """forget the definitional symbols (and their axioms) of the previous target"""
        from pyvc.listtheory import FilterFunctions
        self.local_axioms = []
        self.filters = FilterFunctions(self)
        self._dict_last = {}

    def fresh(self, name: str, sort=None):
        srt = sort if sort is not None else Sc
        if self.index_ctx:
            # inside the generic element of (nested) symbolic sequences: a function of the enclosing indices
            return z3.Function(f"{name}!{next(self._n)}", *([z3.IntSort()] * len(self.index_ctx)), srt)(*self.index_ctx)
        return z3.Const(f"{name}!{next(self._n)}", srt)

    def fresh_const(self, name: str, sort=None):
        return z3.Const(f"{name}!{next(self._n)}", sort if sort is not None else Sc)

    def fresh_sv(self, name: str, ty: Optional[str] = None) -> SV:
        return SV(self.fresh(name), ty)

    def new_oid(self) -> int:
        return next(self._n)

    def alloc(self, st: State, obj) -> Ref:
        oid = self.new_oid()
        st.heap[oid] = obj
        return Ref(oid)

    def uf(self, name: str, arity: int, ret=None) -> z3.FuncDeclRef:
        key = f"{name}/{arity}"
        if key not in self._ufs:
            self._ufs[key] = z3.Function(name, *([Sc] * arity), ret if ret is not None else Sc)
        return self._ufs[key]

    def enum_id(self, cls: str) -> int:
        if cls not in self._enum_ids:
            self.repo.enum_members(cls)  # raises if not an enum
            i = len(self._enum_ids) + 1
            self._enum_ids[cls] = i
            self._enum_by_id[i] = cls
        return self._enum_ids[cls]

    def enum_member(self, cls: str, member: str) -> SV:
        names = [n for n, _ in self.repo.enum_members(cls)]
        if member not in names:
            raise Unsupported(f"enum {cls} has no member {member}")
        return SV(mk_e(self.enum_id(cls), names.index(member)), f"enum:{cls}")

    def sym_enum(self, cls: str, name: str) -> Tuple[SV, z3.BoolRef]:
        """fresh symbolic member of enum `cls` and its range constraint"""
        idx = self.fresh(name + "_idx", z3.IntSort())
        n = len(self.repo.enum_members(cls))
        return SV(mk_e(self.enum_id(cls), idx), f"enum:{cls}"), z3.And(idx >= 0, idx < n)

    def is_enum_of(self, t, cls: str) -> z3.BoolRef:
        return z3.And(Sc.is_e(t), Sc.ecls(t) == self.enum_id(cls))

    def feasible(self, conds: Sequence[z3.BoolRef], want_model: bool = False):
        key = tuple(sorted(c.get_id() for c in conds))
        hit = self._feas_cache.get(key)
        if hit is not None and not want_model:
            return hit
        s = z3.Solver()
        s.set("timeout", 2000)
        for a in self.all_axioms():
            s.add(a)
        s.add(*conds)
        r = s.check()
        self._feas_cache[key] = r != z3.unsat
        self._keep.extend(conds)  # keep the ASTs alive so that their ids stay unique
        if want_model:
            return (r != z3.unsat), (s.model() if r == z3.sat else None)
        return r != z3.unsat

    def _model_ok(self, st: State) -> bool:
        m = st.model
        if m is None:
            return False
        for p in st.pc[st.model_len:]:
            try:
                if not z3.is_true(m.eval(p, model_completion=True)):
                    return False
            except z3.Z3Exception:
                return False
        st.model_len = len(st.pc)
        return True

    def branch(self, st: State, cond: z3.BoolRef) -> List[Tuple[State, bool]]:
        c = z3.simplify(cond)
        if z3.is_true(c):
            return [(st, True)]
        if z3.is_false(c):
            return [(st, False)]
        known = None
        if self._model_ok(st):
            try:
                v = st.model.eval(c, model_completion=True)
                if z3.is_true(v):
                    known = True
                elif z3.is_false(v):
                    known = False
            except z3.Z3Exception:
                known = None
        mt = mf = None
        if known is True:
            ft, mt = True, st.model
            ff, mf = self.feasible(st.pc + [z3.Not(c)], want_model=True)
        elif known is False:
            ff, mf = True, st.model
            ft, mt = self.feasible(st.pc + [c], want_model=True)
        else:
            ft, mt = self.feasible(st.pc + [c], want_model=True)
            ff, mf = self.feasible(st.pc + [z3.Not(c)], want_model=True)
        if ft and ff:
            st2 = st.fork()
            st.assume(c)
            st2.assume(z3.Not(c))
            st.model, st.model_len = mt, (len(st.pc) if mt is not None else 0)
            st2.model, st2.model_len = mf, (len(st2.pc) if mf is not None else 0)
            return [(st, True), (st2, False)]
        if ft:
            st.assume(c)
            st.model, st.model_len = mt, (len(st.pc) if mt is not None else 0)
            return [(st, True)]
        if ff:
            st.assume(z3.Not(c))
            st.model, st.model_len = mf, (len(st.pc) if mf is not None else 0)
            return [(st, False)]
        return []  # state itself infeasible

    def truth(self, st: State, v) -> z3.BoolRef:
        """z3 Bool for Python truthiness of any value"""
        if isinstance(v, SV):
            return truthy(v.t)
        if isinstance(v, Tup):
            return z3.BoolVal(len(v.items) > 0)
        if isinstance(v, Ref):
            o = st.heap[v.oid]
            if isinstance(o, ListObj):
                return z3.Not(self.lt_empty(st, o.lt))
            if isinstance(o, DictObj):
                if o.tail is not None:
                    return z3.Not(z3.And(z3.BoolVal(len(o.entries) == 0), self.lt_empty(st, o.tail)))
                return z3.BoolVal(len(o.entries) > 0)
            return z3.BoolVal(True)
        if isinstance(v, (FuncV, ClassV, ModV, BuiltinV, CoroV)):
            return z3.BoolVal(True)
        if isinstance(v, Opaque):
            if isinstance(v.data, dict) and v.data.get("not_none") or v.tag.startswith("inst:"):
                return z3.BoolVal(True)  # an object (instances of the modelled library classes define no __bool__/__len__)
            raise Unsupported(f"truthiness of the unknown value {v!r}")
        if isinstance(v, L.LT):
            return z3.Not(self.lt_empty(st, v))
        raise Unsupported(f"truthiness of {v!r}")

    # list-term helpers ---------------------------------------------------------------------------------------
    def lt_empty(self, st: State, lt: L.LT) -> z3.BoolRef:
        return L.lt_empty(lt, lambda a: self._abs_pred(st, "empty", a))

    def _abs_pred(self, st: State, what: str, a: L.Abs, extra: Sequence[Any] = ()) -> z3.BoolRef:
        args = [self._as_sc(st, x) for x in list(a.args) + list(extra)]
        return self.uf(f"{what}_{a.sym}", len(args), z3.BoolSort())(*args)

    def _as_sc(self, st: State, v) -> z3.ExprRef:
        if isinstance(v, SV):
            return v.t
        if isinstance(v, Ref):
            o = st.heap.get(v.oid)
            if isinstance(o, Obj) and o.ident is not None:
                return o.ident
            return mk_i(-v.oid)  # identity of a heap object as an opaque scalar
        raise Unsupported(f"cannot pass {v!r} to an uninterpreted function")

    def raise_(self, st: State, cls: str, msg=None, **fields) -> Res:
        f = {"args": Tup([msg if msg is not None else sv_str("")])}
        if cls == "SyntaxError":
            f["msg"] = msg if msg is not None else sv_str("")
        f.update(fields)
        ref = self.alloc(st, Obj(cls, f))
        return (st, Exc(cls, ref))

    # ------------------------------------------------------------------------------------------------ names
    def lookup(self, st: State, name: str):
        fr: Optional[Frame] = st.frame
        while fr is not None:
            if name in fr.locals:
                return fr.locals[name]
            fr = st.frames.get(fr.closure_fid) if fr.closure_fid is not None else None
        return self.lookup_global(st.frame.mod, name)

    def lookup_global(self, mod: ModInfo, name: str):
        key = (mod.name, name)
        if key in self.module_cache:
            return self.module_cache[key]
        v = self._lookup_global(mod, name)
        self.module_cache[key] = v
        return v

    def _lookup_global(self, mod: ModInfo, name: str):
        if name in mod.functions:
            return FuncV(mod.functions[name], mod, f"{mod.name}:{name}")
        if name in mod.classes:
            return ClassV(name)
        if name in mod.globals_:
            return self.eval_module_global(mod, name)
        if name in mod.imports:
            m, attr = mod.imports[name]
            if attr is None:
                if m in self.repo.modules:
                    return ModV(m)
                return ModV(m)
            full = f"{m}.{attr}" if m else attr
            if m == "specs.ghost":
                return BuiltinV(f"ghost.{attr}")
            if m in self.repo.modules:
                target = self.repo.modules[m]
                if attr in target.functions or attr in target.classes or attr in target.globals_ \
                        or attr in target.imports:
                    return self.lookup_global(target, attr)
            if full in self.repo.modules:
                return ModV(full)
            if attr in self.repo.classes and self.repo.classes[attr].module.name == m:
                return ClassV(attr)
            return self.external_name(full, attr)
        if name in EXC_BUILTINS:
            return ClassV(name)
        if name in BUILTIN_NAMES:
            return BuiltinV(name)
        if name in ("True", "False", "None"):
            return {"True": sv_bool(True), "False": sv_bool(False), "None": sv_none()}[name]
        raise Unsupported(f"unknown name {name} in module {mod.name}")

    def external_name(self, full: str, attr: str):
        if full in self.library:
            return BuiltinV(full)
        if attr in self.repo.classes:  # e.g. maus / lark classes declared through load_external
            return ClassV(attr)
        if attr in EXC_BUILTINS or attr in ("VisitError", "UnexpectedEOF", "UnexpectedCharacters", "UnexpectedToken",
                                            "ValidationError"):
            return ClassV(attr)
        if full in self.class_fields_hook or attr in self.class_fields_hook:
            return ClassV(attr)
        return Opaque(f"ext:{full}")

    def eval_module_global(self, mod: ModInfo, name: str):
        expr = mod.globals_[name]
        st = State()
        fid = self.new_oid()
        st.frames[fid] = Frame(fid, mod, None, f"{mod.name}:<module>")
        st.stack.append(fid)
        try:
            rs = self.eval(expr, st)
        except Unsupported:
            return Opaque(f"global:{mod.name}.{name}")
        if len(rs) != 1 or isinstance(rs[0][1], Exc):
            return Opaque(f"global:{mod.name}.{name}")
        st2, v = rs[0]
        if isinstance(v, Ref):
            o = st2.heap[v.oid]
            if isinstance(o, Obj):
                # an INSTANCE created at import time is shared by every call and may have been changed by an earlier
                # one (its fields are ordinary mutable attributes): its state is unknown here
                return Opaque(f"shared-module-object:{mod.name}.{name}")
            if self._global_is_written(mod, name):
                return Opaque(f"shared-module-container:{mod.name}.{name}")
            # module-level containers that no function of the module writes to (e.g. the modal mark mapping) are
            # constants
            return ("const", st2.heap, v)
        return v

    def _global_is_written(self, mod: ModInfo, name: str) -> bool:
        """does any function of the module store into / call a mutator on the module-level name (syntactic)?"""
        from pyvc.frames import MUTATORS, _root_name
        for n in ast.walk(mod.tree):
            targets: List[ast.expr] = []
            if isinstance(n, ast.Assign):
                targets = list(n.targets)
            elif isinstance(n, (ast.AugAssign, ast.AnnAssign)):
                targets = [n.target]
            elif isinstance(n, ast.Delete):
                targets = list(n.targets)
            for t in targets:
                if isinstance(t, (ast.Attribute, ast.Subscript)) and _root_name(t) == name:
                    return True
            if isinstance(n, ast.Call) and isinstance(n.func, ast.Attribute) and n.func.attr in MUTATORS \
                    and _root_name(n.func.value) == name:
                return True
            if isinstance(n, ast.Global) and name in n.names:
                return True
        return False

    def import_const(self, st: State, c):
        """bring a module-level constant container into the current heap"""
        _, heap, ref = c
        if ref.oid not in st.heap:
            for k, o in heap.items():
                st.heap.setdefault(k, o.copy())
        return ref

    # ------------------------------------------------------------------------------------------------ expressions
    def eval(self, e: ast.expr, st: State) -> List[Res]:
        m = getattr(self, "e_" + type(e).__name__, None)
        if m is None:
            raise Unsupported(f"expression {type(e).__name__} at line {getattr(e, 'lineno', '?')}")
        return m(e, st)

    def eval_list(self, es: Sequence[ast.expr], st: State) -> List[Tuple[State, Any]]:
        """evaluates expressions left to right; result value is a Python list of values or an Exc"""
        results: List[Tuple[State, Any]] = [(st, [])]
        for e in es:
            nxt: List[Tuple[State, Any]] = []
            for s, acc in results:
                if isinstance(acc, Exc):
                    nxt.append((s, acc))
                    continue
                if isinstance(e, ast.Starred):
                    for s2, v in self.eval(e.value, s):
                        if isinstance(v, Exc):
                            nxt.append((s2, v))
                        else:
                            nxt.append((s2, acc + [("*", v)]))
                    continue
                for s2, v in self.eval(e, s):
                    nxt.append((s2, v if isinstance(v, Exc) else acc + [v]))
            results = nxt
        return results

    def bind(self, rs: List[Res], f: Callable[[State, Any], List[Res]]) -> List[Res]:
        out: List[Res] = []
        for s, v in rs:
            if isinstance(v, Exc):
                out.append((s, v))
            else:
                out.extend(f(s, v))
        return out

    def e_Constant(self, e: ast.Constant, st: State) -> List[Res]:
        v = e.value
        if v is None:
            return [(st, sv_none())]
        if isinstance(v, bool):
            return [(st, sv_bool(v))]
        if isinstance(v, int):
            return [(st, sv_int(v))]
        if isinstance(v, str):
            return [(st, sv_str(v))]
        if v is Ellipsis:
            return [(st, Opaque("ellipsis"))]
        raise Unsupported(f"constant {v!r}")

    def e_Name(self, e: ast.Name, st: State) -> List[Res]:
        v = self.lookup(st, e.id)
        if v is _UNBOUND:
            return [self.raise_(st, "UnboundLocalError",
                                sv_str(f"cannot access local variable '{e.id}' where it is not associated with a value"))]
        if isinstance(v, tuple) and v and v[0] == "const":
            v = self.import_const(st, v)
        if type(v).__name__ in ("_LV", "_H"):
            # the target of a loop over a symbolic sequence read after (or, through a closure, independently of) the
            # iteration that bound it / a loop-carried local without invariant: its value is not modelled
            raise Unsupported(f"read of {e.id}, whose value ({v!r}) is not modelled here")
        return [(st, v)]

    def e_Tuple(self, e: ast.Tuple, st: State) -> List[Res]:
        return self.bind(self.eval_list(e.elts, st), lambda s, vs: [(s, Tup(self._splice(s, vs)))])

    def e_List(self, e: ast.List, st: State) -> List[Res]:
        def mk(s, vs):
            lt = L.LT([])
            for v in vs:
                if isinstance(v, tuple) and v and v[0] == "*":
                    lt = lt.cat(self.as_lt(s, v[1]))
                else:
                    lt = lt.cat(L.LT([L.Unit(v)]))
            return [(s, self.alloc(s, ListObj(lt)))]
        return self.bind(self.eval_list(e.elts, st), mk)

    def _splice(self, st: State, vs: List[Any]) -> List[Any]:
        out = []
        for v in vs:
            if isinstance(v, tuple) and v and v[0] == "*":
                out.extend(self.as_lt(st, v[1]).concrete_items())
            else:
                out.append(v)
        return out

    def as_lt(self, st: State, v) -> L.LT:
        if isinstance(v, L.LT):
            return v
        if isinstance(v, Tup):
            return L.LT.of(v.items)
        if isinstance(v, Ref):
            o = st.heap[v.oid]
            if isinstance(o, ListObj):
                return o.lt
            if isinstance(o, DictObj):
                if o.tail is not None:
                    raise Unsupported("iteration over an accumulated dict")
                return L.LT.of([k for k, _ in o.entries])
        raise Unsupported(f"{v!r} is not a sequence")

    def e_Dict(self, e: ast.Dict, st: State) -> List[Res]:
        keys = list(e.keys)
        results: List[Res] = [(st, [])]
        for k, vexpr in zip(keys, e.values):
            nxt: List[Res] = []
            for s, acc in results:
                if isinstance(acc, Exc):
                    nxt.append((s, acc))
                    continue
                if k is None:  # **mapping
                    for s2, mv in self.eval(vexpr, s):
                        if isinstance(mv, Exc):
                            nxt.append((s2, mv))
                            continue
                        d = s2.heap[mv.oid] if isinstance(mv, Ref) else None
                        if not isinstance(d, DictObj):
                            raise Unsupported("** of a non-dict")
                        if d.tail is not None:
                            # symbolic mapping: spliced as a whole; sound only if the merged mappings have disjoint
                            # keys (recorded as an assumption of the function under analysis)
                            s2.log.append(("assume-disjoint-keys-in-dict-merge",))
                            nxt.append((s2, acc + list(d.entries) + [("**tail", d.tail)]))
                        else:
                            nxt.append((s2, acc + list(d.entries)))
                    continue
                for s2, kv in self.eval(k, s):
                    if isinstance(kv, Exc):
                        nxt.append((s2, kv))
                        continue
                    for s3, vv in self.eval(vexpr, s2):
                        nxt.append((s3, vv if isinstance(vv, Exc) else acc + [(kv, vv)]))
            results = nxt
        def mk(s, ents):
            if not any(isinstance(k, str) and k == "**tail" for k, _ in ents):
                return [(s, self.alloc(s, DictObj(self._dedup(s, ents))))]
            tail = L.LT([])
            for k, v in ents:
                tail = tail.cat(v if isinstance(k, str) and k == "**tail" else L.LT([L.Unit(Tup([k, v]))]))
            return [(s, self.alloc(s, DictObj([], tail)))]
        return self.bind(results, mk)

    def _dedup(self, st: State, ents: List[Tuple[Any, Any]]) -> List[Tuple[Any, Any]]:
        out: List[Tuple[Any, Any]] = []
        for k, v in ents:
            for i, (k2, _) in enumerate(out):
                c = z3.simplify(self.eq(st, k, k2))
                if z3.is_true(c):
                    out[i] = (k2, v)
                    break
                if not z3.is_false(c):
                    raise Unsupported("dict display with possibly equal symbolic keys")
            else:
                out.append((k, v))
        return out

    def e_JoinedStr(self, e: ast.JoinedStr, st: State) -> List[Res]:
        parts: List[ast.expr] = []
        for v in e.values:
            parts.append(v.value if isinstance(v, ast.FormattedValue) else v)

        skeleton: List[str] = [""]
        for v in e.values:
            if isinstance(v, ast.FormattedValue):
                skeleton.append("")
            else:
                skeleton[-1] += str(v.value)
        holes_idx = [i for i, v in enumerate(e.values) if isinstance(v, ast.FormattedValue)]

        def mk(s, vs):
            hook = getattr(self, "fstring_hook", None)
            if hook is not None and holes_idx:
                r = hook(self, s, tuple(skeleton), [vs[i] for i in holes_idx])
                if r is not None:
                    return [(s, r)]
            terms = [self.to_str(s, v) for v in vs]
            if not terms:
                return [(s, sv_str(""))]
            t = terms[0] if len(terms) == 1 else z3.Concat(*terms)
            return [(s, SV(mk_s(t), "str"))]
        return self.bind(self.eval_list(parts, st), mk)

    def to_str(self, st: State, v) -> z3.SeqRef:
        """str(v) as a z3 string term (opaque fresh string where the text does not matter)"""
        if isinstance(v, SV):
            t = z3.simplify(v.t)
            if v.ty == "str":
                return Sc.sv(v.t)
            if v.ty and v.ty.startswith("enum:"):
                cls = v.ty[5:]
                return self.enum_value_str(cls, v.t)
            if v.ty == "none":
                return z3.StringVal("None")
            if z3.is_app(t) and t.decl().name() == "s":
                return Sc.sv(t)
            if z3.is_app(t) and t.decl().name() == "none":
                return z3.StringVal("None")
            # unknown scalar: str() of it as an uninterpreted function (deterministic)
            f = z3.Function("py_str", Sc, z3.StringSort())
            return z3.If(Sc.is_s(v.t), Sc.sv(v.t), f(v.t))
        return self.fresh("str_of_obj", z3.StringSort())

    def enum_value_str(self, cls: str, t) -> z3.SeqRef:
        members = self.repo.enum_members(cls)
        ci = self.repo.cls(cls)
        # str(member): StrEnum / classes defining __str__ returning self.value -> the value
        out = z3.StringVal(str(members[-1][1]))
        for i in range(len(members) - 2, -1, -1):
            out = z3.If(Sc.eidx(t) == i, z3.StringVal(str(members[i][1])), out)
        return out

    def e_Attribute(self, e: ast.Attribute, st: State) -> List[Res]:
        return self.bind(self.eval(e.value, st), lambda s, v: self.getattr(s, v, e.attr))

    def getattr(self, st: State, v, attr: str, default=None) -> List[Res]:
        """attribute read; `default` (a value) makes it getattr(v, attr, default)"""
        if isinstance(v, Ref):
            o = st.heap[v.oid]
            if isinstance(o, Obj):
                return self.obj_getattr(st, v, o, attr, default)
            if isinstance(o, ListObj):
                if attr in ("append", "sort", "extend", "copy", "index", "pop", "insert"):
                    return [(st, BuiltinV("list." + attr, v))]
            if isinstance(o, DictObj):
                if attr in ("keys", "values", "items", "get", "update", "pop"):
                    return [(st, BuiltinV("dict." + attr, v))]
            raise Unsupported(f"attribute {attr} of {type(o).__name__}")
        if isinstance(v, SV):
            if v.ty and v.ty.startswith("enum:") and attr in ("value", "name"):
                cls = v.ty[5:]
                if attr == "value":
                    return [(st, SV(mk_s(self.enum_value_str(cls, v.t)), "str"))]
                raise Unsupported("enum .name")
            if attr in ("upper", "lower", "endswith", "startswith", "strip", "replace", "join", "format", "split",
                        "isdigit", "value"):
                if attr == "value":
                    raise Unsupported(".value of a non-enum scalar")
                return [(st, BuiltinV("str." + attr, v))]
            if attr == "__class__":
                return [(st, Opaque("class-of-scalar"))]
            if default is not None:
                return [(st, default)]
            return [self.raise_(st, "AttributeError", sv_str(f"scalar has no attribute {attr}"))]
        if isinstance(v, ClassV):
            return self.class_getattr(st, v, attr)
        if isinstance(v, ModV):
            return [(st, self.module_attr(v, attr))]
        if isinstance(v, Opaque):
            key = f"{v.tag}.{attr}"
            for pat, h in self.attr_library.items():
                if key == pat or (pat.endswith("*") and key.startswith(pat[:-1])) or \
                        (pat.startswith("*.") and attr == pat[2:]):
                    return h(self, st, v, attr)
            return [(st, Opaque(f"{v.tag}.{attr}", v.data))]
        if isinstance(v, Tup):
            raise Unsupported(f"attribute {attr} of a tuple")
        if isinstance(v, FuncV):
            if attr == "__name__":
                return [(st, sv_str(v.qualname.split(":")[-1]))]
            return [(st, Opaque(f"func.{attr}"))]
        if isinstance(v, BuiltinV):
            return [(st, BuiltinV(v.name + "." + attr, v.bound))]
        if isinstance(v, CoroV):
            raise Unsupported("attribute of an un-awaited coroutine")
        raise Unsupported(f"attribute {attr} of {v!r}")

    def module_attr(self, v: ModV, attr: str):
        if v.name in self.repo.modules:
            return self.lookup_global(self.repo.modules[v.name], attr)
        full = f"{v.name}.{attr}"
        if full in self.library:
            return BuiltinV(full)
        if f"{v.name}.{attr}" in self.repo.modules:
            return ModV(full)
        if attr in EXC_BUILTINS:
            return ClassV(attr)
        return Opaque(f"ext:{full}")

    def class_getattr(self, st: State, c: ClassV, attr: str) -> List[Res]:
        ci = self.repo.cls(c.name)
        if ci and ci.is_enum and any(n == attr for n, _ in ci.members):
            return [(st, self.enum_member(c.name, attr))]
        if attr == "__name__":
            return [(st, sv_str(c.name))]
        fm = self.repo.find_method(c.name, attr)
        if fm:
            ci2, node = fm
            return [(st, FuncV(node, ci2.module, f"{ci2.module.name}:{ci2.name}.{attr}", cls=ci2.name))]
        fa = self.repo.find_class_attr(c.name, attr)
        if fa:
            ci2, expr = fa
            return [(st, self.lookup_class_attr(ci2, attr, expr))]
        raise Unsupported(f"class attribute {c.name}.{attr}")

    def lookup_class_attr(self, ci: ClassInfo, attr: str, expr: ast.expr):
        key = (ci.module.name, f"{ci.name}.{attr}")
        if key not in self.module_cache:
            st = State()
            fid = self.new_oid()
            st.frames[fid] = Frame(fid, ci.module, None, f"{ci.module.name}:<class {ci.name}>")
            st.stack.append(fid)
            try:
                rs = self.eval(expr, st)
                v = rs[0][1] if len(rs) == 1 and not isinstance(rs[0][1], (Exc, Ref)) else Opaque(f"classattr:{ci.name}.{attr}")
            except Unsupported:
                v = Opaque(f"classattr:{ci.name}.{attr}")
            self.module_cache[key] = v
        return self.module_cache[key]

    def classes_with_field(self, cands: List[str], attr: str) -> List[str]:
        return [c for c in cands if self.repo.has_field(c, attr) or self._extern_has_field(c, attr)]

    def _extern_has_field(self, cls: str, attr: str) -> bool:
        h = self.class_fields_hook.get(cls)
        return bool(h and attr in getattr(h, "fields", ()))

    def obj_getattr(self, st: State, ref: Ref, o: Obj, attr: str, default=None) -> List[Res]:
        if attr == "__class__":
            return [(st, ClassV(o.cls) if o.cls else Opaque("symbolic-class"))]
        if o.kind is not None:
            # symbolic class: the attribute exists iff the class is one that declares it
            having = self.classes_with_field(o.cands, attr)
            has = z3.Or(*[o.kind == o.cands.index(c) for c in having]) if having else z3.BoolVal(False)
            out: List[Res] = []
            for s, yes in self.branch(st, has):
                if yes:
                    if attr not in s.heap[ref.oid].fields:
                        raise Unsupported(f"symbolic object lacks a value for field {attr}")
                    out.append((s, s.heap[ref.oid].fields[attr]))
                elif default is not None:
                    out.append((s, default))
                else:
                    out.append(self.raise_(s, "AttributeError", sv_str(f"no attribute {attr}")))
            return out
        if attr in o.fields:
            val = o.fields[attr]
            if val is _UNBOUND:
                if default is not None:
                    return [(st, default)]
                return [self.raise_(st, "AttributeError", sv_str(f"no attribute {attr}"))]
            return [(st, val)]
        if o.cls:
            fm = self.repo.find_method(o.cls, attr)
            if fm:
                ci2, node = fm
                fv = FuncV(node, ci2.module, f"{ci2.module.name}:{ci2.name}.{attr}", cls=ci2.name)
                if any(isinstance(d, ast.Name) and d.id == "staticmethod" for d in node.decorator_list):
                    return [(st, fv)]
                if any(isinstance(d, ast.Name) and d.id == "property" for d in node.decorator_list):
                    return self.call(fv.bind(ref), [], {}, st)
                return [(st, fv.bind(ref))]
            fa = self.repo.find_class_attr(o.cls, attr)
            if fa:
                return [(st, self.lookup_class_attr(fa[0], attr, fa[1]))]
            key = f"{o.cls}.{attr}"
            if key in self.attr_library:
                return self.attr_library[key](self, st, ref, attr)
            if attr == "transform" and "Transformer" in self.repo.mro(o.cls):
                return [(st, BuiltinV("lark.Transformer.transform", ref))]
        ci0 = self.repo.cls(o.cls) if o.cls else None
        if o.tag is not None and ci0 is not None and not ci0.is_attrs and not attr.startswith("__"):
            # an object handed in from outside (built by a parameter specification) of a plain class is in an ARBITRARY
            # state: an attribute the class does not declare may be absent - or present with any value (e.g. a cache a
            # previous call left behind).  Both outcomes; what is done with the unknown value is usually unsupported.
            absent = (st.fork(), default) if default is not None else \
                self.raise_(st.fork(), "AttributeError", sv_str(f"'{o.cls}' object has no attribute '{attr}'"))
            return [absent, (st, Opaque(f"unknown-state:{o.cls}.{attr}"))]
        if default is not None:
            return [(st, default)]
        return [self.raise_(st, "AttributeError", sv_str(f"'{o.cls}' object has no attribute '{attr}'"))]

    # comparisons / boolean ---------------------------------------------------------------------------------
    def eq(self, st: State, a, b) -> z3.BoolRef:
        if isinstance(a, SV) and isinstance(b, SV):
            return a.t == b.t
        if isinstance(a, Tup) and isinstance(b, Tup):
            if len(a.items) != len(b.items):
                return z3.BoolVal(False)
            return z3.And(*[self.eq(st, x, y) for x, y in zip(a.items, b.items)]) if a.items else z3.BoolVal(True)
        if isinstance(a, Ref) and isinstance(b, Ref):
            if a.oid == b.oid:
                return z3.BoolVal(True)
            oa, ob = st.heap[a.oid], st.heap[b.oid]
            if isinstance(oa, ListObj) and isinstance(ob, ListObj):
                return self.lt_eq(st, oa.lt, ob.lt)
            if isinstance(oa, Obj) and isinstance(ob, Obj):
                if oa.ident is not None and ob.ident is not None and z3.eq(oa.ident, ob.ident):
                    return z3.BoolVal(True)
                return self.obj_eq(st, oa, ob)
            if isinstance(oa, DictObj) and isinstance(ob, DictObj):
                return self.dict_eq(st, oa, ob)
            return z3.BoolVal(False)
        if isinstance(a, L.LT) or isinstance(b, L.LT):
            return self.lt_eq(st, self.as_lt(st, a), self.as_lt(st, b))
        if isinstance(a, Ref) and isinstance(b, Tup) or isinstance(a, Tup) and isinstance(b, Ref):
            return z3.BoolVal(False)  # list == tuple is False in Python
        if isinstance(a, (SV, Tup, Ref)) and isinstance(b, (SV, Tup, Ref)):
            return z3.BoolVal(False)
        if isinstance(a, ClassV) and isinstance(b, ClassV):
            return z3.BoolVal(a.name == b.name)
        if isinstance(a, CoroV) or isinstance(b, CoroV):
            return z3.BoolVal(a is b)
        raise Unsupported(f"== between {a!r} and {b!r}")

    def obj_eq(self, st: State, oa: Obj, ob: Obj) -> z3.BoolRef:
        if oa.kind is not None or ob.kind is not None:
            raise Unsupported("== on symbolic-class objects")
        if oa.cls != ob.cls:
            return z3.BoolVal(False)
        keys = [k for k in oa.fields if not k.startswith("_ghost")]
        return z3.And(*[self.eq(st, oa.fields[k], ob.fields[k]) for k in keys if k in ob.fields]) if keys \
            else z3.BoolVal(True)

    def dict_eq(self, st: State, a: DictObj, b: DictObj) -> z3.BoolRef:
        if (a.tail is None) != (b.tail is None):
            raise L.ShapeMismatch("dict with / without accumulated tail")
        if len(a.entries) != len(b.entries):
            return z3.BoolVal(False)
        conj = [z3.And(self.eq(st, k1, k2), self.eq(st, v1, v2)) for (k1, v1), (k2, v2) in zip(a.entries, b.entries)]
        if a.tail is not None:
            conj.append(self.lt_eq(st, a.tail, b.tail))
        return z3.And(*conj) if conj else z3.BoolVal(True)

    def lt_eq(self, st: State, a: L.LT, b: L.LT) -> z3.BoolRef:
        def implied(c1, c2) -> bool:
            s = z3.Solver()
            s.set("timeout", 3000)
            for ax in self.all_axioms():
                s.add(ax)
            s.add(*st.pc)
            s.add(c1 != c2)
            return s.check() == z3.unsat
        return L.lt_equal(a, b, lambda x, y: self.eq(st, x, y), lambda v, i, t: self.subst(st, v, i, t), implied,
                          lambda p, q: self.abs_eq(st, p, q))

    def abs_eq(self, st: State, p: L.Abs, q: L.Abs) -> z3.BoolRef:
        if p.sym != q.sym or len(p.args) != len(q.args):
            # different uninterpreted list functions: not equal in general
            return z3.BoolVal(False)
        return z3.And(*[self.eq(st, x, y) for x, y in zip(p.args, q.args)]) if p.args else z3.BoolVal(True)

    def subst(self, st: State, v, ivar, term):
        """substitute the binder `ivar` by `term` in a value (objects are cloned)"""
        if isinstance(v, SV):
            return SV(z3.substitute(v.t, (ivar, term)), v.ty, v.view)
        if isinstance(v, Tup):
            return Tup([self.subst(st, x, ivar, term) for x in v.items])
        if isinstance(v, Ref):
            o = st.heap[v.oid]
            if isinstance(o, Obj):
                n = Obj(o.cls, {k: self.subst(st, x, ivar, term) for k, x in o.fields.items()},
                        z3.substitute(o.kind, (ivar, term)) if o.kind is not None else None, o.cands, o.tag,
                        z3.substitute(o.ident, (ivar, term)) if o.ident is not None else None)
                return self.alloc(st, n)
            if isinstance(o, ListObj):
                return self.alloc(st, ListObj(L.subst_lt(o.lt, ivar, term, lambda x, i, t: self.subst(st, x, i, t))))
            raise Unsupported("substitution in a dict")
        if isinstance(v, CoroV):
            return CoroV(v.fn, [self.subst(st, a, ivar, term) for a in v.args],
                         {k: self.subst(st, a, ivar, term) for k, a in v.kwargs.items()}, v.kind)
        if isinstance(v, L.LT):
            return L.subst_lt(v, ivar, term, lambda x, i, t: self.subst(st, x, i, t))
        return v

    def is_(self, st: State, a, b) -> z3.BoolRef:
        if isinstance(a, SV) and isinstance(b, SV):
            return a.t == b.t
        if isinstance(a, Ref) and isinstance(b, Ref):
            if a.oid == b.oid:
                return z3.BoolVal(True)
            oa, ob = st.heap.get(a.oid), st.heap.get(b.oid)
            if isinstance(oa, Obj) and isinstance(ob, Obj) and oa.ident is not None and ob.ident is not None:
                return oa.ident == ob.ident  # elements of symbolic sequences: identity = symbolic identity
            return z3.BoolVal(False)
        if isinstance(a, ClassV) and isinstance(b, ClassV):
            return z3.BoolVal(a.name == b.name)
        if a is not b and (isinstance(a, Opaque) or isinstance(b, Opaque)):
            # nothing is known about an opaque value: it may well be the other operand
            op, other = (a, b) if isinstance(a, Opaque) else (b, a)
            is_object = (isinstance(op.data, dict) and op.data.get("not_none")) or op.tag.startswith("inst:")
            if is_object and isinstance(other, SV) and z3.is_true(z3.simplify(Sc.is_none(other.t))):
                return z3.BoolVal(False)  # an object (instance created by a modelled constructor / stated by the model)
            if isinstance(a, Opaque) and isinstance(b, Opaque) and a.tag.startswith("inst:") and b.tag.startswith("inst:"):
                return z3.BoolVal(False)  # two instances created at different points of the execution
            raise Unsupported(f"'is' between {a!r} and {b!r}")
        return z3.BoolVal(a is b)

    def note_assumption(self, text: str) -> None:
        if not hasattr(self, "assumed_used"):
            self.assumed_used = set()
        self.assumed_used.add(text)

    def _renamed(self, st: State, lt: L.LT) -> L.LT:
        """the list with fresh bound indices (the item looked for may mention the index of the list it came from)"""
        if lt.is_concrete():
            return lt
        return L.rename_binders(lt, lambda: self.fresh_const("j", z3.IntSort()), lambda x, i, t: self.subst(st, x, i, t))

    def _direct_member(self, st: State, item, lt: L.LT, key_of=lambda x: x):
        """membership in [e(i) for i in range(n) if g(i)] without a quantifier, where that is exact:
        - e(i) is the index i itself:           item in list  <=>  0 <= item < n and g(item)
        - item is literally e(t) for a term t with 0 <= t < n and g(t) known on this path:  True
        returns None when neither applies"""
        if not (len(lt.segs) == 1 and isinstance(lt.segs[0], L.MapSeg)):
            return None
        seg = lt.segs[0]
        one = L.single_element(seg.body)
        if one is None:
            return None
        g, elem = one
        try:
            elem = key_of(elem)
        except Exception:  # noqa
            return None
        if not (isinstance(item, SV) and isinstance(elem, SV)):
            return None
        pat, term = z3.simplify(elem.t), z3.simplify(item.t)
        if pat.eq(z3.simplify(mk_i(seg.ivar))):
            if elem.ty == "int" and item.ty == "int":
                t = Sc.iv(item.t)
                gt = z3.substitute(g, (seg.ivar, t)) if g is not None else z3.BoolVal(True)
                return z3.And(t >= 0, t < seg.n, gt)
            return None
        t = _match(pat, term, seg.ivar)
        if t is None:
            return None
        cond = z3.And(t >= 0, t < seg.n, z3.substitute(g, (seg.ivar, t)) if g is not None else z3.BoolVal(True))
        sol = z3.Solver()
        sol.set("timeout", 2000)
        for ax in self.all_axioms():
            sol.add(ax)
        sol.add(*st.pc)
        sol.add(z3.Not(cond))
        if sol.check() == z3.unsat:
            return z3.BoolVal(True)
        return None

    def contains(self, st: State, item, container) -> z3.BoolRef:
        if isinstance(container, Tup):
            return z3.Or(*[self.eq(st, item, x) for x in container.items]) if container.items else z3.BoolVal(False)
        if isinstance(container, Ref):
            o = st.heap[container.oid]
            if isinstance(o, ListObj):
                direct = self._direct_member(st, item, o.lt)
                if direct is not None:
                    return direct
                return L.lt_contains(self._renamed(st, o.lt), lambda x: self.eq(st, item, x),
                                     lambda a: self._abs_pred(st, "contains", a, [item]))
            if isinstance(o, DictObj):
                d = [self.eq(st, item, k) for k, _ in o.entries]
                if o.tail is not None:
                    direct = self._direct_member(st, item, o.tail, lambda x: x.items[0])
                    if direct is not None:
                        d.append(direct)
                        return z3.Or(*d) if len(d) > 1 else d[0]
                    d.append(L.lt_contains(self._renamed(st, o.tail), lambda x: self.eq(st, item, x.items[0]),
                                           lambda a: self._abs_pred(st, "haskey", a, [item])))
                return z3.Or(*d) if d else z3.BoolVal(False)
        if isinstance(container, L.LT):
            return L.lt_contains(self._renamed(st, container), lambda x: self.eq(st, item, x),
                                 lambda a: self._abs_pred(st, "contains", a, [item]))
        if isinstance(container, SV) and isinstance(item, SV):
            return z3.Contains(Sc.sv(container.t), Sc.sv(item.t))
        raise Unsupported(f"'in' on {container!r}")

    def e_Compare(self, e: ast.Compare, st: State) -> List[Res]:
        def go(s, vs):
            conj = []
            for op, a, b in zip(e.ops, vs[:-1], vs[1:]):
                if isinstance(op, ast.Eq):
                    c = self.eq(s, a, b)
                elif isinstance(op, ast.NotEq):
                    c = z3.Not(self.eq(s, a, b))
                elif isinstance(op, ast.Is):
                    c = self.is_(s, a, b)
                elif isinstance(op, ast.IsNot):
                    c = z3.Not(self.is_(s, a, b))
                elif isinstance(op, ast.In):
                    c = self.contains(s, a, b)
                elif isinstance(op, ast.NotIn):
                    c = z3.Not(self.contains(s, a, b))
                elif isinstance(op, (ast.Lt, ast.LtE, ast.Gt, ast.GtE)):
                    if not (isinstance(a, SV) and isinstance(b, SV)):
                        raise Unsupported("ordering of non-scalars")
                    x, y = Sc.iv(a.t), Sc.iv(b.t)
                    s.log.append(("typeassume", z3.And(Sc.is_i(a.t), Sc.is_i(b.t))))
                    c = {ast.Lt: x < y, ast.LtE: x <= y, ast.Gt: x > y, ast.GtE: x >= y}[type(op)]
                else:
                    raise Unsupported(f"comparison {type(op).__name__}")
                conj.append(c)
            return [(s, sv_bool(z3.And(*conj) if len(conj) > 1 else conj[0]))]
        return self.bind(self.eval_list([e.left] + list(e.comparators), st), go)

    def e_BoolOp(self, e: ast.BoolOp, st: State) -> List[Res]:
        is_and = isinstance(e.op, ast.And)

        def step(idx: int, s: State) -> List[Res]:
            out: List[Res] = []
            for s1, v in self.eval(e.values[idx], s):
                if isinstance(v, Exc) or idx == len(e.values) - 1:
                    out.append((s1, v))
                    continue
                for s2, t in self.branch(s1, self.truth(s1, v)):
                    if t == is_and:
                        out.extend(step(idx + 1, s2))
                    else:
                        out.append((s2, v))
            return out
        return step(0, st)

    def e_UnaryOp(self, e: ast.UnaryOp, st: State) -> List[Res]:
        if isinstance(e.op, ast.Not):
            return self.bind(self.eval(e.operand, st), lambda s, v: [(s, sv_bool(z3.Not(self.truth(s, v))))])
        if isinstance(e.op, ast.USub):
            return self.bind(self.eval(e.operand, st), lambda s, v: [(s, SV(mk_i(-Sc.iv(v.t)), "int"))])
        raise Unsupported("unary operator")

    def e_IfExp(self, e: ast.IfExp, st: State) -> List[Res]:
        out: List[Res] = []
        for s, c in self.eval(e.test, st):
            if isinstance(c, Exc):
                out.append((s, c))
                continue
            for s2, t in self.branch(s, self.truth(s, c)):
                out.extend(self.eval(e.body if t else e.orelse, s2))
        return out

    def e_BinOp(self, e: ast.BinOp, st: State) -> List[Res]:
        return self.bind(self.eval_list([e.left, e.right], st), lambda s, vs: self.binop(s, e.op, vs[0], vs[1]))

    def binop(self, st: State, op: ast.operator, a, b) -> List[Res]:
        if isinstance(op, (ast.BitAnd, ast.BitOr, ast.BitXor)):
            if isinstance(a, SV) and a.ty and a.ty.startswith("enum:"):
                cls = a.ty[5:]
                dunder = {ast.BitAnd: "__and__", ast.BitOr: "__or__", ast.BitXor: "__xor__"}[type(op)]
                fm = self.repo.find_method(cls, dunder)
                if not fm:
                    raise Unsupported(f"{cls} has no {dunder}")
                ci, node = fm
                fv = FuncV(node, ci.module, f"{ci.module.name}:{ci.name}.{dunder}", bound_self=a, cls=ci.name)
                return self.call(fv, [b], {}, st)
            if isinstance(a, SV) and isinstance(b, SV) and (a.ty == "bool" or b.ty == "bool"):
                st.log.append(("typeassume", z3.And(Sc.is_b(a.t), Sc.is_b(b.t))))
                x, y = Sc.bv(a.t), Sc.bv(b.t)
                r = {ast.BitAnd: z3.And(x, y), ast.BitOr: z3.Or(x, y), ast.BitXor: z3.Xor(x, y)}[type(op)]
                return [(st, sv_bool(r))]
            raise Unsupported("bit operator on unknown operand types")
        if isinstance(op, ast.Add):
            if isinstance(a, SV) and isinstance(b, SV):
                if a.ty == "str" and b.ty == "str":
                    return [(st, SV(mk_s(z3.Concat(Sc.sv(a.t), Sc.sv(b.t))), "str"))]
                if a.ty == "str" or b.ty == "str":
                    other = b if a.ty == "str" else a
                    if other.ty is None:
                        # the other operand's type is not known statically: it is a string or the addition raises
                        out_add: List[Res] = []
                        for s_, is_str in self.branch(st, Sc.is_s(other.t)):
                            out_add.append((s_, SV(mk_s(z3.Concat(Sc.sv(a.t), Sc.sv(b.t))), "str")) if is_str
                                           else self.raise_(s_, "TypeError", sv_str("can only concatenate str")))
                        return out_add
                    return [self.raise_(st, "TypeError", sv_str("can only concatenate str"))]
                if a.ty == "str" and b.ty == "str":
                    pass
                xi, yi = self._as_int(a), self._as_int(b)
                if xi is not None and yi is not None:
                    return [(st, SV(mk_i(xi + yi), "int"))]
                raise Unsupported("+ on scalars that are not known to be two strings or two integers")
            if isinstance(a, Tup) and isinstance(b, Tup):
                return [(st, Tup(a.items + b.items))]
            if isinstance(a, Ref) and isinstance(b, Ref) and isinstance(st.heap[a.oid], ListObj) \
                    and isinstance(st.heap[b.oid], ListObj):
                return [(st, self.alloc(st, ListObj(st.heap[a.oid].lt.cat(st.heap[b.oid].lt))))]
            if isinstance(a, Ref) and isinstance(st.heap[a.oid], Obj):
                fm = self.repo.find_method(st.heap[a.oid].cls or "", "__add__")
                if fm:
                    ci, node = fm
                    fv = FuncV(node, ci.module, f"{ci.module.name}:{ci.name}.__add__", bound_self=a, cls=ci.name)
                    return self.call(fv, [b], {}, st)
            raise Unsupported("+ on these operands")
        if isinstance(op, (ast.Sub, ast.Mult, ast.Mod, ast.FloorDiv)):
            x, y = self._as_int(a), self._as_int(b)
            if x is None or y is None:
                raise Unsupported(f"{type(op).__name__} on operands that are not known to be integers")
            if isinstance(op, ast.Sub):
                return [(st, SV(mk_i(x - y), "int"))]
            if isinstance(op, ast.Mult):
                return [(st, SV(mk_i(x * y), "int"))]
            # Python floors (the remainder has the sign of the divisor) and raises for a zero divisor; SMT-LIB's div / mod
            # are Euclidean, which is the same thing for a positive divisor only
            out: List[Res] = []
            for s, zero in self.branch(st, y == 0):
                if zero:
                    out.append(self.raise_(s, "ZeroDivisionError", sv_str("integer division or modulo by zero")))
                    continue
                q = z3.If(y > 0, x / y, (-x) / (-y))
                out.append((s, SV(mk_i(q if isinstance(op, ast.FloorDiv) else x - q * y), "int")))
            return out
        raise Unsupported(f"binary operator {type(op).__name__}")

    @staticmethod
    def _as_int(v):
        """the integer a value stands for in arithmetic (bool counts as 0 / 1), or None"""
        if isinstance(v, SV) and v.ty == "int":
            return Sc.iv(v.t)
        if isinstance(v, SV) and v.ty == "bool":
            return z3.If(Sc.bv(v.t), z3.IntVal(1), z3.IntVal(0))
        return None

    def e_Subscript(self, e: ast.Subscript, st: State) -> List[Res]:
        if isinstance(e.slice, ast.Slice):
            raise Unsupported("slices")
        return self.bind(self.eval_list([e.value, e.slice], st), lambda s, vs: self.subscript(s, vs[0], vs[1]))

    def subscript(self, st: State, c, k) -> List[Res]:
        if isinstance(c, Tup):
            i = self.concrete_int(k)
            return [(st, c.items[i])]
        if isinstance(c, Ref):
            o = st.heap[c.oid]
            if isinstance(o, DictObj):
                if o.tail is not None:
                    return self.dict_tail_lookup(st, c, o, k)
                return self.dict_lookup(st, o, k)
            if isinstance(o, ListObj):
                return self.list_index(st, o.lt, k)
        if isinstance(c, L.LT):
            return self.list_index(st, c, k)
        if isinstance(c, Opaque):
            return [(st, Opaque(c.tag + "[]"))]
        raise Unsupported(f"subscript of {c!r}")

    def dict_lookup(self, st: State, o: DictObj, k) -> List[Res]:
        out: List[Res] = []
        cur = st
        entries = list(o.entries)
        for (k2, v2) in entries:
            rs = self.branch(cur, self.eq(cur, k, k2))
            nxt = None
            for s, hit in rs:
                if hit:
                    out.append((s, v2))
                else:
                    nxt = s
            if nxt is None:
                return out
            cur = nxt
        out.append(self.raise_(cur, "KeyError", k if isinstance(k, SV) else sv_str("key")))
        return out

    def _tail_alternatives(self, tail: L.LT):
        """(segment, [(condition, (key, value) pair)]) of a dict tail: at index i the entry `pair` exists under
        `condition`; the conditions are pairwise exclusive (at most one insertion per generic iteration)"""
        if len(tail.segs) != 1 or not isinstance(tail.segs[0], L.MapSeg):
            raise Unsupported("lookup in a dict of this shape")
        seg = tail.segs[0]
        alts: List[Tuple[Any, Any]] = []

        def collect(lt: L.LT, cond) -> None:
            for x in lt.segs:
                if isinstance(x, L.Unit):
                    alts.append((cond, x.v))
                elif isinstance(x, L.Guard):
                    collect(x.lt, z3.And(cond, x.cond))
                else:
                    raise Unsupported("lookup in a dict of this shape")
        collect(seg.body, z3.BoolVal(True))
        for a in range(len(alts)):
            for b in range(a + 1, len(alts)):
                chk = z3.Solver()
                chk.set("timeout", 2000)
                chk.add(alts[a][0], alts[b][0])
                if chk.check() != z3.unsat:
                    raise Unsupported("a dict that receives several insertions in one generic iteration")
        for _, pair in alts:
            if not (isinstance(pair, Tup) and isinstance(pair.items[0], SV)):
                raise Unsupported("lookup in a dict whose keys are not scalars")
        return seg, alts

    def dict_last_index(self, st: State, tail: L.LT):
        """The function last: index -> index of the LAST entry of the tail whose key equals the key of entry j (Python:
        a later insertion with an equal key replaces the value).  It is introduced by its defining axioms - a
        conservative extension, such a function exists for every finite sequence of entries - so a lookup does not
        need the assumption that the inserted keys are distinct:
            entry at j                                  ->  entry at last(j), j <= last(j) < n, key(last(j)) = key(j)
            entries at j and m with equal keys          ->  last(j) >= m"""
        cache = self.__dict__.setdefault("_dict_last", {})
        hit = cache.get(id(tail))
        if hit is not None:
            return hit
        seg, alts = self._tail_alternatives(tail)
        from pyvc.listtheory import _mentions
        terms = [seg.n] + [c for c, _ in alts] + [p.items[0].t for _, p in alts]
        # enclosing generic indices the dict depends on (the tail's own bound index is not one of them, even when an
        # enclosing iteration runs over the same list and therefore uses the same name)
        ctx = [v for v in self.index_ctx if not v.eq(seg.ivar) and any(_mentions(t, v) for t in terms)]
        f = z3.Function(f"last!{next(self._n)}", *([z3.IntSort()] * len(ctx)), z3.IntSort(), z3.IntSort())

        def last(t):
            return f(*ctx, t)
        j = z3.Const(f"j!{next(self._n)}", z3.IntSort())
        m = z3.Const(f"m!{next(self._n)}", z3.IntSort())
        at = lambda term, t: z3.substitute(term, (seg.ivar, t))  # noqa: E731

        def entry(t):   # some alternative holds at index t
            return z3.Or(*[at(c, t) for c, _ in alts])

        def key(t):     # the key of the entry at t (alternatives are exclusive)
            k = at(alts[-1][1].items[0].t, t)
            for c, p in reversed(alts[:-1]):
                k = z3.If(at(c, t), at(p.items[0].t, t), k)
            return k
        inr = lambda t: z3.And(t >= 0, t < seg.n)  # noqa: E731
        ax = [z3.ForAll([j], z3.Implies(z3.And(inr(j), entry(j)),
                                        z3.And(last(j) >= j, last(j) < seg.n, entry(last(j)), key(last(j)) == key(j))),
                        patterns=[last(j)]),
              z3.ForAll([j, m], z3.Implies(z3.And(inr(j), inr(m), entry(j), entry(m), key(j) == key(m)), last(j) >= m),
                        patterns=[z3.MultiPattern(last(j), key(m))] if not z3.is_quantifier(key(m)) else [])]
        for a_ in ax:
            self.local_axioms.append(z3.ForAll(ctx, a_) if ctx else a_)
        cache[id(tail)] = (tail, last, seg, alts, entry, key)
        return cache[id(tail)]

    def dict_tail_lookup(self, st: State, c: Ref, o: DictObj, k) -> List[Res]:
        """lookup in a dict whose entries are a symbolic sequence of (possibly guarded) (key, value) pairs: the entry
        found is the LAST one with that key"""
        if o.entries:
            raise Unsupported("lookup in a dict of this shape")
        if not isinstance(k, SV):
            raise Unsupported("lookup with a key that is not a scalar")
        _, last, seg, alts, entry, key = self.dict_last_index(st, o.tail)
        out: List[Res] = []

        def found(s: State, some_index) -> None:
            # a dict parameter has pairwise distinct keys: the entry with this key is the only, hence the last one
            idx = some_index if o.distinct_keys else last(some_index)
            cur = s
            for n_alt, (cond, pair) in enumerate(alts):
                here = z3.substitute(cond, (seg.ivar, idx))
                if n_alt == len(alts) - 1:
                    cur.assume(here)  # an entry exists at last(..): the alternative that is left
                    out.append((cur, self.subst(cur, pair, seg.ivar, idx).items[1]))
                    return
                nxt = None
                for s2, t in self.branch(cur, here):
                    if t:
                        out.append((s2, self.subst(s2, pair, seg.ivar, idx).items[1]))
                    else:
                        nxt = s2
                if nxt is None:
                    return
                cur = nxt
        # (a) the key looked up is literally the key of the entry at index t
        ts = [_match(z3.simplify(pair.items[0].t), z3.simplify(k.t), seg.ivar) for _, pair in alts]
        rest = st
        if all(t is not None and t.eq(ts[0]) for t in ts):
            t = ts[0]
            rest = None
            for s, there in self.branch(st, z3.And(t >= 0, t < seg.n, entry(t))):
                if there:
                    found(s, t)
                else:
                    rest = s
            if rest is None:
                return out
        # (b) any key: some entry has it (witness index)
        for s, hit in self.branch(rest, self.contains(rest, k, c)):
            if not hit:
                out.append(self.raise_(s, "KeyError", k))
                continue
            if getattr(self, "in_clause", 0) > 0:
                w = self.fresh_const("hit", z3.IntSort())   # inside a contract clause: bound by clause_formula
                self.skolems.append(w)
            else:
                w = self.fresh("hit", z3.IntSort())         # executing code: depends on the enclosing generic indices
            s.assume(z3.And(w >= 0, w < seg.n, entry(w), key(w) == k.t))
            found(s, w)
        return out

    def concrete_int(self, k) -> int:
        if isinstance(k, SV):
            t = z3.simplify(Sc.iv(k.t))
            if z3.is_int_value(t):
                return t.as_long()
        raise Unsupported("index is not a concrete integer")

    def list_index(self, st: State, lt: L.LT, k) -> List[Res]:
        if lt.is_concrete():
            items = lt.concrete_items()
            i = self.concrete_int(k)
            if -len(items) <= i < len(items):
                return [(st, items[i])]
            return [self.raise_(st, "IndexError", sv_str("list index out of range"))]
        i = self.concrete_int(k) if isinstance(k, SV) and z3.is_int_value(z3.simplify(Sc.iv(k.t))) else None
        segs = lt.segs
        if len(segs) == 1 and isinstance(segs[0], L.MapSeg) and L.single_element(segs[0].body) is not None:
            seg = segs[0]
            guard, elem = L.single_element(seg.body)
            if guard is None:
                length, pick = seg.n, (lambda t: t)
            else:
                # filtered sequence: length cnt(n), the m-th element sits at source index sel(m) (pyvc/listtheory.py)
                cnt, sel = self.filters.get(st, seg.ivar, seg.n, guard)
                length, pick = cnt(seg.n), (lambda t: sel(t))
            if i is not None:
                idx = length + i if i < 0 else z3.IntVal(i)
                cases = [(z3.And(idx >= 0, idx < length), idx)]
            else:
                if not isinstance(k, SV):
                    raise Unsupported("list index that is not a scalar")
                raw = Sc.iv(k.t)
                # Python: a negative index counts from the end
                cases = [(z3.And(raw >= 0, raw < length), raw), (z3.And(raw < 0, raw >= -length), length + raw)]
            out: List[Res] = []
            cur = st
            for cond, idx in cases:
                nxt = None
                for s, ok in self.branch(cur, cond):
                    if ok:
                        out.append((s, self.subst(s, elem, seg.ivar, pick(idx))))
                    else:
                        nxt = s
                if nxt is None:
                    return out
                cur = nxt
            out.append(self.raise_(cur, "IndexError", sv_str("list index out of range")))
            return out
        if i == 0 and segs and isinstance(segs[0], L.Unit):
            return [(st, segs[0].v)]
        if len(segs) == 1 and isinstance(segs[0], L.MapSeg) and isinstance(k, SV):
            # one element per index, chosen among alternatives with pairwise exclusive guards that cover every case
            # (e.g. the result of a loop that appends in both branches of an if)
            seg = segs[0]
            alts = self.total_alternatives(st, seg)
            if alts:
                if True:
                    raw = Sc.iv(k.t)
                    out2: List[Res] = []
                    cur = st
                    for cond, idx in [(z3.And(raw >= 0, raw < seg.n), raw), (z3.And(raw < 0, raw >= -seg.n), seg.n + raw)]:
                        nxt = None
                        for s, ok in self.branch(cur, cond):
                            if not ok:
                                nxt = s
                                continue
                            rest = s
                            for n_alt, (g, v) in enumerate(alts):
                                gi = z3.substitute(g, (seg.ivar, idx))
                                if n_alt == len(alts) - 1:
                                    rest.assume(gi)
                                    out2.append((rest, self.subst(rest, v, seg.ivar, idx)))
                                    break
                                keep = None
                                for s2, t in self.branch(rest, gi):
                                    if t:
                                        out2.append((s2, self.subst(s2, v, seg.ivar, idx)))
                                    else:
                                        keep = s2
                                if keep is None:
                                    break
                                rest = keep
                        if nxt is None:
                            return out2
                        cur = nxt
                    out2.append(self.raise_(cur, "IndexError", sv_str("list index out of range")))
                    return out2
        raise Unsupported("indexing into a list term of this shape")

    def total_alternatives(self, st: State, seg: L.MapSeg):
        """[(guard, element)] if the body of the segment holds EXACTLY one element per index: alternatives whose guards
        are pairwise exclusive and together cover every case on this path; else None"""
        alts = L.alternatives(seg.body)
        if not alts or len(alts) < 2 or any(g is None for g, _ in alts):
            return None

        def unsat(*cs) -> bool:
            sol = z3.Solver()
            sol.set("timeout", 2000)
            for ax in self.all_axioms():
                sol.add(ax)
            sol.add(*st.pc)
            sol.add(seg.ivar >= 0, seg.ivar < seg.n, *cs)
            return sol.check() == z3.unsat
        if not all(unsat(alts[a][0], alts[b][0]) for a in range(len(alts)) for b in range(a + 1, len(alts))):
            return None
        if not unsat(z3.Not(z3.Or(*[g for g, _ in alts]))):
            return None
        return alts

    def e_Await(self, e: ast.Await, st: State) -> List[Res]:
        return self.bind(self.eval(e.value, st), lambda s, v: self.await_(s, v))

    def await_(self, st: State, v) -> List[Res]:
        if isinstance(v, CoroV):
            if v.kind == "gather":
                return self.force_gather(st, v)
            return self.call(v.fn, v.args, v.kwargs, st, awaited=True)
        if isinstance(v, Ref) and isinstance(st.heap.get(v.oid), Obj):
            from pyvc import assumed
            hook = assumed.AWAIT_HOOKS.get(st.heap[v.oid].cls)
            if hook is not None:
                return hook(self, st, v)
        raise Unsupported(f"await of a non-coroutine {v!r}")

    def e_Lambda(self, e: ast.Lambda, st: State) -> List[Res]:
        return [(st, FuncV(e, st.frame.mod, f"{st.frame.qualname}.<lambda>", closure_fid=st.frame.fid))]

    def e_Starred(self, e, st):
        raise Unsupported("starred expression outside a call / display")

    def e_Set(self, e: ast.Set, st: State) -> List[Res]:
        return self.bind(self.eval_list(e.elts, st), lambda s, vs: [(s, Tup(vs))])

    # comprehensions -------------------------------------------------------------------------------------------
    def e_ListComp(self, e: ast.ListComp, st: State) -> List[Res]:
        return self.bind(self.comprehension(e.elt, e.generators, st),
                         lambda s, lt: [(s, self.alloc(s, ListObj(lt)))])

    def e_GeneratorExp(self, e: ast.GeneratorExp, st: State) -> List[Res]:
        return self.comprehension(e.elt, e.generators, st)

    def e_SetComp(self, e: ast.SetComp, st: State) -> List[Res]:
        return self.comprehension(e.elt, e.generators, st)

    def e_DictComp(self, e: ast.DictComp, st: State) -> List[Res]:
        pair = ast.Tuple(elts=[e.key, e.value], ctx=ast.Load())
        ast.copy_location(pair, e)

        def mk(s, lt):
            if lt.is_concrete():
                return [(s, self.alloc(s, DictObj(self._dedup(s, [(p.items[0], p.items[1]) for p in lt.concrete_items()]))))]
            return [(s, self.alloc(s, DictObj([], lt)))]
        return self.bind(self.comprehension(pair, e.generators, st), mk)

    def comprehension(self, elt: ast.expr, gens: List[ast.comprehension], st: State) -> List[Res]:
        """[elt for x in xs if c ...] -> LT (single generator; concrete lists are unrolled, list terms mapped)"""
        if any(g.is_async for g in gens):
            raise Unsupported("async comprehension")
        if len(gens) > 1:
            # [e for x in xs for y in f(x) ...]  ==  concatenation of [[e for y in f(x) ...] for x in xs]
            inner = ast.ListComp(elt=elt, generators=list(gens[1:]))
            ast.copy_location(inner, elt)
            ast.fix_missing_locations(inner)
            out: List[Res] = []
            for s, lt in self.comprehension(inner, [gens[0]], st):
                out.append((s, lt) if isinstance(lt, Exc) else (s, self.flatten(s, lt)))
            return out
        g = gens[0]

        def go(s: State, src) -> List[Res]:
            src_lt = self.iter_lt(s, src)
            if not g.ifs and isinstance(elt, ast.Name) and isinstance(g.target, ast.Name) and elt.id == g.target.id:
                return [(s, src_lt)]  # [x for x in xs]: a copy of the list (also of an opaque one)
            if src_lt.is_concrete():
                results: List[Res] = [(s, L.LT([]))]
                for item in src_lt.concrete_items():
                    nxt: List[Res] = []
                    for s1, acc in results:
                        if isinstance(acc, Exc):
                            nxt.append((s1, acc))
                            continue
                        for s2, r in self.comp_item(s1, g, elt, item):
                            nxt.append((s2, r if isinstance(r, Exc) else acc.cat(r)))
                    results = nxt
                return results
            return self.comp_symbolic(s, g, elt, src_lt)
        return self.bind(self.eval(g.iter, st), go)

    def iter_lt(self, st: State, src) -> L.LT:
        if isinstance(src, Opaque) and src.tag == "range":
            lo, hi = src.data
            if z3.is_int_value(z3.simplify(lo)) and z3.is_int_value(z3.simplify(hi)):
                return L.LT.of([sv_int(i) for i in range(z3.simplify(lo).as_long(), z3.simplify(hi).as_long())])
            iv = self.fresh_const("r", z3.IntSort())
            if not z3.is_int_value(z3.simplify(lo)) or z3.simplify(lo).as_long() != 0:
                raise Unsupported("symbolic range not starting at 0")
            return L.LT([L.MapSeg(iv, hi, L.LT([L.Unit(SV(mk_i(iv), "int"))]), "range")])
        if isinstance(src, Opaque) and src.tag in ("enumerate", "zip"):
            return src.data
        if isinstance(src, ClassV):  # iterating an enum class
            ci = self.repo.cls(src.name)
            if ci and ci.is_enum:
                return L.LT.of([self.enum_member(src.name, n) for n, _ in ci.members])
        return self.as_lt(st, src)

    def comp_item(self, st: State, g: ast.comprehension, elt: ast.expr, item) -> List[Res]:
        """one iteration: returns LT([Unit(v)]) or LT([]) per path"""
        saved = self.save_targets(st, g.target)
        out: List[Res] = []
        for s0 in self.assign_target(st, g.target, item):
            if isinstance(s0, tuple):
                out.append(s0)
                continue
            states: List[Tuple[State, bool]] = [(s0, True)]
            for cond in g.ifs:
                nxt = []
                for s1, keep in states:
                    if not keep:
                        nxt.append((s1, False))
                        continue
                    for s2, c in self.eval(cond, s1):
                        if isinstance(c, Exc):
                            out.append((s2, c))
                            continue
                        for s3, t in self.branch(s2, self.truth(s2, c)):
                            nxt.append((s3, t))
                states = nxt
            for s1, keep in states:
                if not keep:
                    self.restore_targets(s1, saved)
                    out.append((s1, L.LT([])))
                    continue
                for s2, v in self.eval(elt, s1):
                    self.restore_targets(s2, saved)
                    out.append((s2, v if isinstance(v, Exc) else L.LT([L.Unit(v)])))
        return out

    def save_targets(self, st: State, target: ast.expr) -> Dict[str, Any]:
        names = [n.id for n in ast.walk(target) if isinstance(n, ast.Name)]
        return {n: st.frame.locals.get(n, _MISSING) for n in names}

    def restore_targets(self, st: State, saved: Dict[str, Any]) -> None:
        for n, v in saved.items():
            if v is _MISSING:
                st.frame.locals.pop(n, None)
            else:
                st.frame.locals[n] = v

    def comp_symbolic(self, st: State, g: ast.comprehension, elt: ast.expr, src: L.LT) -> List[Res]:
        """maps a comprehension body over a list term; the body must not fork the heap in a way that escapes"""
        pc_len = len(st.pc)

        def f(item, binders) -> L.LT:
            s = st.fork()
            for b in binders:
                if b[0] == "bind":
                    s.assume(z3.And(b[1] >= 0, b[1] < b[2]))
                else:
                    s.assume(b[1])
            saved_ctx = self.index_ctx
            self.index_ctx = list(saved_ctx) + [b[1] for b in binders if b[0] == "bind"]
            try:
                rs = self.comp_item(s, g, elt, item)
            finally:
                self.index_ctx = saved_ctx
            segs = []
            for s2, r in rs:
                if isinstance(r, Exc):
                    raise Unsupported("comprehension body may raise for a symbolic element")
                dec, ax = s2.split(s2.pc[pc_len + len(binders):])
                guard = z3.And(*dec) if dec else z3.BoolVal(True)
                hoisted.extend((ax_, [b for b in binders if b[0] == "bind"]) for ax_ in ax)
                # objects allocated in the body must be visible in the continuing state
                for k, o in s2.heap.items():
                    st.heap.setdefault(k, o)
                if z3.is_true(z3.simplify(guard)):
                    segs.append(r)
                else:
                    segs.append(L.Guard(guard, r))
            return L.LT(segs)
        hoisted: List[Any] = []
        try:
            res = L.lt_map(src, f)
        except L.ShapeMismatch as sm:
            raise Unsupported(str(sm))
        for ax_, binds in hoisted:
            vs = [b[1] for b in binds]
            st.assume(z3.ForAll(vs, ax_) if vs else ax_, axiom=True)
        return [(st, res)]


class _Sentinel:
    def __init__(self, n): self.n = n
    def __repr__(self): return self.n


_UNBOUND = _Sentinel("<unbound>")
_MISSING = _Sentinel("<missing>")


def _match(pattern, term, var):
    """the term t with pattern[var := t] == term syntactically, or None"""
    found = []

    def go(p, x) -> bool:
        if p.eq(var):
            if found and not found[0].eq(x):
                return False
            if not found:
                found.append(x)
            return True
        if not z3.is_app(p) or not z3.is_app(x):
            return p.eq(x)
        if p.num_args() == 0:
            return p.eq(x)
        if not p.decl().eq(x.decl()) or p.num_args() != x.num_args():
            return False
        return all(go(a, b) for a, b in zip(p.children(), x.children()))
    if go(pattern, term) and found and found[0].sort() == z3.IntSort():
        return found[0]
    return None
