"""A small free algebra of list values ("list terms", LT) so that order / exactly-once obligations stay syntactic:

    LT   ::= [Seg, ...]
    Seg  ::= Unit(value) | Guard(cond, LT) | MapSeg(ivar, n, body: LT) | Abs(symbol, args)

`MapSeg(i, n, body)` is the concatenation of body(0), ..., body(n-1); a symbolic input list is
`MapSeg(i, n, [Unit(generic element at index i)])`; `Abs` is an opaque list (the result of a modular call, identified
with the value of a spec function at the same arguments).  z3 only decides guards and element equalities.
"""
from __future__ import annotations

from typing import Any, Callable, List, Optional, Sequence, Tuple

import z3


class ShapeMismatch(Exception):
    """two list terms could not be aligned segment by segment: the comparison is *undecided* (not false)"""


class Unit:
    __slots__ = ("v",)

    def __init__(self, v) -> None:
        self.v = v

    def __repr__(self) -> str:
        return f"Unit({self.v})"


class Guard:
    __slots__ = ("cond", "lt")

    def __init__(self, cond, lt: "LT") -> None:
        self.cond, self.lt = cond, lt

    def __repr__(self) -> str:
        return f"Guard({z3.simplify(self.cond)}, {self.lt})"


class MapSeg:
    __slots__ = ("ivar", "n", "body", "src")

    def __init__(self, ivar, n, body: "LT", src: Optional[str] = None) -> None:
        self.ivar, self.n, self.body, self.src = ivar, n, body, src

    def __repr__(self) -> str:
        return f"MapSeg({self.ivar}<{self.n}: {self.body})"


class Abs:
    __slots__ = ("sym", "args")

    def __init__(self, sym: str, args: Sequence[Any]) -> None:
        self.sym, self.args = sym, tuple(args)

    def __repr__(self) -> str:
        return f"Abs({self.sym}{self.args})"


class LT:
    __slots__ = ("segs",)

    def __init__(self, segs: Sequence[Any] = ()) -> None:
        flat: List[Any] = []
        for s in segs:
            if isinstance(s, LT):
                flat.extend(s.segs)
            else:
                flat.append(s)
        self.segs = tuple(flat)

    def __repr__(self) -> str:
        return "LT[" + ", ".join(map(repr, self.segs)) + "]"

    @staticmethod
    def of(values: Sequence[Any]) -> "LT":
        return LT([Unit(v) for v in values])

    def cat(self, other: "LT") -> "LT":
        return LT(self.segs + other.segs)

    def is_concrete(self) -> bool:
        return all(isinstance(s, Unit) for s in self.segs)

    def concrete_items(self) -> List[Any]:
        if not self.is_concrete():
            raise ShapeMismatch("list is not of concrete length")
        return [s.v for s in self.segs]


def strip_empty(lt: LT) -> LT:
    """drops guarded parts that hold nothing (a comprehension with a filter leaves `Guard(not c, [])` behind)"""
    out: List[Any] = []
    for s in lt.segs:
        if isinstance(s, Guard):
            inner = strip_empty(s.lt)
            if inner.segs:
                out.append(Guard(s.cond, inner))
        else:
            out.append(s)
    return LT(out)


def single_element(body: LT):
    """(guard or None, element) when the body of a MapSeg holds at most one element per index, else None"""
    b = strip_empty(body)
    if len(b.segs) != 1:
        return None
    b0 = b.segs[0]
    if isinstance(b0, Unit):
        return None, b0.v
    if isinstance(b0, Guard):
        inner = single_element(b0.lt)
        if inner is None:
            return None
        g, v = inner
        return (b0.cond if g is None else z3.And(b0.cond, g)), v
    return None


def alternatives(body: LT):
    """[(guard, element)] when the body of a MapSeg is a run of guarded single elements (nested guards conjoined),
    else None"""
    out = []

    def walk(lt: LT, cond) -> bool:
        for x in strip_empty(lt).segs:
            if isinstance(x, Unit):
                out.append((cond, x.v))
            elif isinstance(x, Guard):
                if not walk(x.lt, x.cond if cond is None else z3.And(cond, x.cond)):
                    return False
            else:
                return False
        return True
    if not walk(body, None) or any(g is None for g, _ in out) and len(out) > 1:
        return None
    return out


def lt_length(lt: LT, abs_len: Callable[[Abs], z3.ArithRef]) -> z3.ArithRef:
    total: Any = z3.IntVal(0)
    for s in lt.segs:
        if isinstance(s, Unit):
            total = total + 1
        elif isinstance(s, Guard):
            total = total + z3.If(s.cond, lt_length(s.lt, abs_len), 0)
        elif isinstance(s, MapSeg):
            if s.body.is_concrete():
                total = total + z3.If(s.n > 0, s.n, 0) * len(s.body.segs)
            else:
                # sum of symbolic lengths: an uninterpreted non-negative integer (only ever used for logging)
                total = total + abs_len(s)
        elif isinstance(s, Abs):
            total = total + abs_len(s)
    return total


def lt_empty(lt: LT, abs_empty: Callable[[Abs], z3.BoolRef]) -> z3.BoolRef:
    conj = []
    for s in lt.segs:
        if isinstance(s, Unit):
            return z3.BoolVal(False)
        if isinstance(s, Guard):
            conj.append(z3.Or(z3.Not(s.cond), lt_empty(s.lt, abs_empty)))
        elif isinstance(s, MapSeg):
            inner = lt_empty(s.body, abs_empty)
            conj.append(z3.ForAll([s.ivar], z3.Implies(z3.And(s.ivar >= 0, s.ivar < s.n), inner)))
        elif isinstance(s, Abs):
            conj.append(abs_empty(s))
    return z3.And(*conj) if conj else z3.BoolVal(True)


def lt_contains(lt: LT, pred: Callable[[Any], z3.BoolRef], abs_contains: Callable[[Abs], z3.BoolRef]) -> z3.BoolRef:
    """exists an element e of lt with pred(e)"""
    disj = []
    for s in lt.segs:
        if isinstance(s, Unit):
            disj.append(pred(s.v))
        elif isinstance(s, Guard):
            disj.append(z3.And(s.cond, lt_contains(s.lt, pred, abs_contains)))
        elif isinstance(s, MapSeg):
            inner = lt_contains(s.body, pred, abs_contains)
            disj.append(z3.Exists([s.ivar], z3.And(s.ivar >= 0, s.ivar < s.n, inner)))
        elif isinstance(s, Abs):
            disj.append(abs_contains(s))
    return z3.Or(*disj) if disj else z3.BoolVal(False)


def lt_map(lt: LT, f: Callable[[Any, List[Any]], LT], ctx: Optional[List[Any]] = None) -> LT:
    """structure-preserving map: f(element value, enclosing binders) -> LT of results (allows filter / flat map)"""
    ctx = ctx or []
    out: List[Any] = []
    for s in lt.segs:
        if isinstance(s, Unit):
            out.append(f(s.v, ctx))
        elif isinstance(s, Guard):
            out.append(Guard(s.cond, lt_map(s.lt, f, ctx + [("guard", s.cond)])))
        elif isinstance(s, MapSeg):
            out.append(MapSeg(s.ivar, s.n, lt_map(s.body, f, ctx + [("bind", s.ivar, s.n)]), s.src))
        elif isinstance(s, Abs):
            raise ShapeMismatch(f"cannot map over the opaque list {s.sym}")
    return LT(out)


def lt_equal(a: LT, b: LT, eq: Callable[[Any, Any], z3.BoolRef], subst: Callable[[Any, Any, Any], Any],
             implied: Callable[[z3.BoolRef, z3.BoolRef], bool],
             abs_eq: Callable[[Abs, Abs], z3.BoolRef]) -> z3.BoolRef:
    """Segment-wise equality of two list terms as a z3 formula; raises ShapeMismatch when they cannot be aligned.
    `subst(value, ivar, term)` substitutes a binder; `implied(c1, c2)` asks whether two guards are equivalent."""
    sa, sb = _normalize(a, eq, implied), _normalize(b, eq, implied)
    if not sa or not sb:
        # one side is the empty list: equal iff the other one is empty too (decided by the solver)
        return lt_empty(LT(sa or sb), lambda ab: z3.BoolVal(False))
    def singletons(segs):
        """[(guard, value)] if the list is a run of guarded single elements with pairwise exclusive guards (so that it
        holds at most one element), else None"""
        out = []
        for x in segs:
            if isinstance(x, Guard) and len(x.lt.segs) == 1 and isinstance(x.lt.segs[0], Unit):
                out.append((x.cond, x.lt.segs[0].v))
            else:
                return None
        for i in range(len(out)):
            for k in range(i + 1, len(out)):
                if not implied(z3.And(out[i][0], out[k][0]), z3.BoolVal(False)):
                    return None
        return out
    if len(sa) > 1 or len(sb) > 1:
        pa, pb = singletons(sa), singletons(sb)
        if pa is not None and pb is not None:
            # each side holds at most one element: equal iff one is present on both sides or on neither, and where
            # both are present they are the same - whatever the order in which the alternatives are written
            conj = [z3.Or(*[g for g, _ in pa]) == z3.Or(*[g for g, _ in pb])]
            for ga, xa in pa:
                for gb, xb in pb:
                    if not implied(z3.And(ga, gb), z3.BoolVal(False)):
                        conj.append(z3.Implies(z3.And(ga, gb), eq(xa, xb)))
            return z3.And(*conj)
    if len(sa) != len(sb):
        raise ShapeMismatch(f"different number of segments: {len(sa)} vs {len(sb)}:\n  {sa}\n  {sb}")
    conj = []
    for x, y in zip(sa, sb):
        if isinstance(x, Unit) and isinstance(y, Unit):
            conj.append(eq(x.v, y.v))
        elif isinstance(x, Guard) and isinstance(y, Guard):
            if not implied(x.cond, y.cond):
                # equal lists need equal guards only if the guarded parts are non-empty; be conservative:
                conj.append(x.cond == y.cond)
            inner = lt_equal(x.lt, y.lt, eq, subst, implied, abs_eq)
            conj.append(z3.Implies(x.cond, inner))
        elif isinstance(x, MapSeg) and isinstance(y, MapSeg):
            conj.append(x.n == y.n) if not z3.eq(x.n, y.n) else None
            yb = y.body if z3.eq(x.ivar, y.ivar) else _subst_lt(y.body, y.ivar, x.ivar, subst)
            inner = lt_equal(x.body, yb, eq, subst, implied, abs_eq)
            conj.append(z3.ForAll([x.ivar], z3.Implies(z3.And(x.ivar >= 0, x.ivar < x.n), inner)))
        elif isinstance(x, Abs) and isinstance(y, Abs):
            conj.append(abs_eq(x, y))
        else:
            raise ShapeMismatch(f"segment kinds differ: {x} vs {y}")
    conj = [c for c in conj if c is not None]
    return z3.And(*conj) if conj else z3.BoolVal(True)


def _subst_lt(lt: LT, ivar, term, subst) -> LT:
    out: List[Any] = []
    for s in lt.segs:
        if isinstance(s, Unit):
            out.append(Unit(subst(s.v, ivar, term)))
        elif isinstance(s, Guard):
            out.append(Guard(z3.substitute(s.cond, (ivar, term)), _subst_lt(s.lt, ivar, term, subst)))
        elif isinstance(s, MapSeg):
            out.append(MapSeg(s.ivar, z3.substitute(s.n, (ivar, term)), _subst_lt(s.body, ivar, term, subst), s.src))
        elif isinstance(s, Abs):
            out.append(Abs(s.sym, [subst(x, ivar, term) for x in s.args]))
    return LT(out)


def rename_binders(lt: LT, fresh: Callable[[], Any], subst) -> LT:
    """alpha-renaming: every MapSeg gets a new bound index, so that a formula built from the list under a quantifier
    over that index cannot capture an index that is free in the values it is compared with"""
    out: List[Any] = []
    for s in lt.segs:
        if isinstance(s, Guard):
            out.append(Guard(s.cond, rename_binders(s.lt, fresh, subst)))
        elif isinstance(s, MapSeg):
            nv = fresh()
            out.append(MapSeg(nv, s.n, _subst_lt(rename_binders(s.body, fresh, subst), s.ivar, nv, subst), s.src))
        else:
            out.append(s)
    return LT(out)


def subst_lt(lt: LT, ivar, term, subst) -> LT:
    return _subst_lt(lt, ivar, term, subst)


def _normalize(lt: LT, eq, implied) -> List[Any]:
    """drops guards that are literally true/false, merges adjacent guarded singletons with the same content whose
    guards are mutually exclusive (the two paths of one loop body that append the same item)"""
    out: List[Any] = []
    for s in lt.segs:
        if isinstance(s, Guard):
            c = z3.simplify(s.cond)
            if z3.is_true(c):
                out.extend(_normalize(s.lt, eq, implied))
                continue
            if z3.is_false(c) or not s.lt.segs or implied(c, z3.BoolVal(False)):
                continue  # literally false, nothing guarded, or impossible on this path
            inner = LT(_normalize(s.lt, eq, implied))
            if not inner.segs:
                continue
            if all(isinstance(x, Guard) for x in inner.segs):
                # Guard(a, [Guard(b, X), Guard(c, Y)]) == [Guard(a and b, X), Guard(a and c, Y)]
                for x in inner.segs:
                    cc = z3.simplify(z3.And(c, x.cond))
                    if z3.is_false(cc):
                        continue
                    if out and isinstance(out[-1], Guard) and _same_shape(out[-1].lt, x.lt):
                        try:
                            same = lt_equal(out[-1].lt, x.lt, eq, lambda v, i, t: v, implied, lambda p, q: z3.BoolVal(False))
                        except ShapeMismatch:
                            same = None
                        if same is not None and implied(same, z3.BoolVal(True)) and \
                                implied(z3.And(out[-1].cond, cc), z3.BoolVal(False)):
                            out[-1] = Guard(z3.Or(out[-1].cond, cc), x.lt)
                            continue
                    out.append(Guard(cc, x.lt))
                continue
            if out and isinstance(out[-1], Guard) and _same_shape(out[-1].lt, inner):
                try:
                    same = lt_equal(out[-1].lt, inner, eq, lambda v, i, t: v, implied, lambda p, q: z3.BoolVal(False))
                except ShapeMismatch:
                    same = None
                if same is not None and implied(same, z3.BoolVal(True)) and \
                        implied(z3.And(out[-1].cond, c), z3.BoolVal(False)):
                    out[-1] = Guard(z3.Or(out[-1].cond, c), inner)
                    continue
            out.append(Guard(c, inner))
        elif isinstance(s, MapSeg):
            body = LT(_normalize(s.body, eq, implied))
            if not body.segs or implied(s.n > 0, z3.BoolVal(False)):
                continue  # nothing is produced per element, or there is provably no element
            out.append(MapSeg(s.ivar, s.n, body, s.src))
        else:
            out.append(s)
    return out


def _same_shape(a: LT, b: LT) -> bool:
    return len(a.segs) == len(b.segs) and all(type(x) is type(y) for x, y in zip(a.segs, b.segs))
