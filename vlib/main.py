"""CLI of /verif:  vcheck <Cxx> [--tier quick|thorough] | vcheck replay <file> | vcheck selftest | vcheck all"""
from __future__ import annotations

import argparse
import importlib
import json
import logging
import os
import sys

from vlib.report import VERIF, run_check

LEVELS = {
    "C01": "exploration", "C02": "other", "C03": "proof", "C04": "proof", "C05": "proof", "C06": "proof",
    "C07": "other", "C08": "proof", "C09": "other", "C10": "other", "C11": "other", "C12": "other",
    "C13": "proof", "C14": "proof", "C15": "other", "C16": "proof", "C17": "proof", "C18": "other",
    "C19": "exploration", "C20": "other",
}


def main(argv=None) -> int:
    logging.disable(logging.CRITICAL)  # the repository logs every rejected expression with a traceback
    ap = argparse.ArgumentParser()
    ap.add_argument("what")
    ap.add_argument("arg", nargs="?")
    ap.add_argument("--tier", default=os.environ.get("VERIF_TIER", "quick"), choices=["quick", "thorough"])
    ap.add_argument("--seed", type=int, default=int(os.environ.get("VERIF_SEED", "0") or 0))
    a = ap.parse_args(argv)
    if a.what == "replay":
        from vlib.replay import replay_file
        return replay_file(a.arg)
    if a.what == "selftest":
        from vlib.selftest import selftest
        return selftest(a.arg)
    prop = a.what.upper()
    if prop not in LEVELS:
        print(f"unknown property {prop}")
        return 3
    try:
        mod = importlib.import_module(f"checks.{prop.lower()}")
    except ModuleNotFoundError as e:
        print(f"no check module for {prop}: {e}")
        return 3
    level = getattr(mod, "LEVEL", LEVELS[prop])
    return run_check(prop, a.tier, a.seed, mod.run, level)


if __name__ == "__main__":
    sys.exit(main())
