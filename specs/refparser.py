"""Reference (specification) parser for the documented ahbicht expression language.

Pure Python; imports neither lark nor ahbicht; uses no regular expressions.  Written from the property statements
C01/C02/C09/C10 and the grammar *comments* (README_conditions): it is the oracle of the bounded stand-ins.

Documented language of CONDITION EXPRESSIONS
    atom        :=  "[" key "]"                         condition key, key = one or more ASCII digits (INT: "[0]", "[01]" are keys)
                 |  "[" key "P" "]"                     package (upper-case P, directly after the digits)
                 |  "[" key "P" a ".." b "]"            package with repeatability; a = ASCII digits, b = ASCII digits not
                                                        starting with 0 (a > b is *not* excluded by the language; see C10 note)
                 |  "[UB1]" | "[UB2]" | "[UB3]"         time condition (upper case)
    expression  :=  atom | "(" expression ")" | expression op expression | expression expression
    op          :=  U u ∧ (AND)  |  X x ⊻ (XOR)  |  O o ∨ (OR)
    precedence  :   brackets  >  juxtaposition ("then also")  >  AND  >  XOR  >  OR
    whitespace  :   space, \\t, \\f, \\r, \\n (exactly what lark's common.WS is) may stand between any two tokens, where the
                    tokens are  [  ]  (  )  op  key  keyP  a..b  UBn ; also leading and trailing.  It may NOT stand inside a
                    token ("[1 P]", "[1P1 ..2]", "[U B1]" are malformed).

Canonical tree form (JSON-able, hashable after `freeze`):
    ("c", "12")                     condition
    ("p", "12P", None | "0..1")     package
    ("t", "UB1")                    time condition
    (op, [child, child, ...])       op in {"or", "xor", "and", "then"}, n-ary

`ref_parse(s)` returns the FLATTENED canonical tree: every maximal run of one operator is one n-ary node, no matter how
brackets group inside it (the property leaves the grouping inside a run of one operator unspecified, and associativity
makes brackets around a same-operator operand indistinguishable after flattening).
`ref_parse(s, keep_brackets=True)` returns the tree in which a bracketed operand stays a node of its own, i.e. only
the *written* runs are flattened; the real (binary) tree must be a binarisation of it (see `refines`).

Documented language of AHB EXPRESSIONS (C09)
    ahb := (modal_mark condition_expression)+ [modal_mark]  |  prefix_operator condition_expression  |  indicator
    modal_mark := M | Muss | S | Soll | K | Kann  (any letter case, ASCII)    prefix_operator := X | O | U (any case)
`ref_split_ahb(s)` is the splitter.  It works on the indicator level only: the condition-expression text of a part is
whatever stands between two indicators and is returned verbatim (with its whitespace); whether it is a well-formed
condition expression is decided separately by `ref_accepts_condition` (see `ref_accepts_ahb`).
"""
from __future__ import annotations

from typing import Dict, List, Optional, Tuple

WS_CHARS = " \t\f\r\n"  # lark common.WS = /[ \t\f\r\n]/+
DIGITS = "0123456789"
AND_SPELLINGS = ("U", "u", "∧")
XOR_SPELLINGS = ("X", "x", "⊻")
OR_SPELLINGS = ("O", "o", "∨")
OP_OF = {**{c: "and" for c in AND_SPELLINGS}, **{c: "xor" for c in XOR_SPELLINGS}, **{c: "or" for c in OR_SPELLINGS}}
#: binding strength, larger binds tighter
PRECEDENCE = {"or": 1, "xor": 2, "and": 3, "then": 4}
TIME_CONDITION_EXPANSION = {"UB1": "[932]", "UB2": "[934]", "UB3": "([932][492]X[934][493])"}


class RefSyntaxError(Exception):
    """the string is not in the documented language"""


class MissingPackage(LookupError):
    """`subst`: the package table has no expression for a package key"""


# ------------------------------------------------------------------------------------------------------- tokenizer
def _skip_ws(s: str, i: int) -> int:
    while i < len(s) and s[i] in WS_CHARS:
        i += 1
    return i


def _digits(s: str, i: int) -> int:
    while i < len(s) and s[i] in DIGITS:
        i += 1
    return i


def _atom(s: str, i: int) -> Tuple[tuple, int]:
    """s[i] == '['; returns (atom, index after the closing ']')"""
    assert s[i] == "["
    j = _skip_ws(s, i + 1)
    if s.startswith("UB", j):
        if j + 2 < len(s) and s[j + 2] in "123":
            atom = ("t", s[j:j + 3])
            j += 3
        else:
            raise RefSyntaxError(f"bad time condition at {j}")
    else:
        k = _digits(s, j)
        if k == j:
            raise RefSyntaxError(f"key expected at {j}")
        key = s[j:k]
        j = k
        if j < len(s) and s[j] == "P":
            j += 1
            key += "P"
            rep = None
            k = _skip_ws(s, j)
            if k < len(s) and s[k] in DIGITS:
                a_end = _digits(s, k)
                if not s.startswith("..", a_end):
                    raise RefSyntaxError(f"'..' expected at {a_end}")
                b_start = a_end + 2
                b_end = _digits(s, b_start)
                if b_end == b_start or s[b_start] == "0":
                    raise RefSyntaxError(f"upper repeatability bound expected at {b_start}")
                rep = s[k:b_end]
                j = b_end
            atom = ("p", key, rep)
        else:
            atom = ("c", key)
    j = _skip_ws(s, j)
    if j >= len(s) or s[j] != "]":
        raise RefSyntaxError(f"']' expected at {j}")
    return atom, j + 1


def tokenize(s: str) -> List[tuple]:
    """tokens: ("(",), (")",), ("op", "and"|"xor"|"or"), atoms; raises RefSyntaxError"""
    if not isinstance(s, str):
        raise RefSyntaxError("not a string")
    toks: List[tuple] = []
    i = 0
    while True:
        i = _skip_ws(s, i)
        if i >= len(s):
            return toks
        ch = s[i]
        if ch == "(" or ch == ")":
            toks.append((ch,))
            i += 1
        elif ch in OP_OF:
            toks.append(("op", OP_OF[ch]))
            i += 1
        elif ch == "[":
            atom, i = _atom(s, i)
            toks.append(atom)
        else:
            raise RefSyntaxError(f"unexpected character {ch!r} at {i}")


# ------------------------------------------------------------------------------------------- precedence climbing
def _is_atom_tok(t: tuple) -> bool:
    return t[0] in ("c", "p", "t")


def _starts_operand(t: tuple) -> bool:
    return _is_atom_tok(t) or t[0] == "("


class _P:
    def __init__(self, toks: List[tuple], keep_brackets: bool):
        self.toks, self.i, self.keep = toks, 0, keep_brackets

    def peek(self) -> Optional[tuple]:
        return self.toks[self.i] if self.i < len(self.toks) else None

    def primary(self):
        """returns (tree, bracketed)"""
        t = self.peek()
        if t is None:
            raise RefSyntaxError("operand expected at end")
        if _is_atom_tok(t):
            self.i += 1
            return t, False
        if t[0] == "(":
            self.i += 1
            inner, _ = self.level(1)
            if self.peek() != (")",):
                raise RefSyntaxError("')' expected")
            self.i += 1
            return inner, True
        raise RefSyntaxError(f"operand expected, got {t}")

    def level(self, prec: int):
        """parses a run of the operator with binding strength `prec` (1=or … 4=then); returns (tree, bracketed)"""
        if prec > 4:
            return self.primary()
        opname = {1: "or", 2: "xor", 3: "and", 4: "then"}[prec]
        first = self.level(prec + 1)
        operands = [first]
        while True:
            t = self.peek()
            if prec == 4:
                if t is not None and _starts_operand(t):
                    operands.append(self.level(5))
                    continue
            elif t == ("op", opname):
                self.i += 1
                operands.append(self.level(prec + 1))
                continue
            break
        if len(operands) == 1:
            return first
        children: List = []
        for tree, bracketed in operands:
            # a same-operator operand can only arise from brackets; flatten it unless brackets are to be kept
            if not _is_atom_tok(tree) and tree[0] == opname and not (self.keep and bracketed):
                children.extend(tree[1])
            else:
                children.append(tree)
        return (opname, children), False


def ref_parse(s: str, keep_brackets: bool = False):
    """canonical tree of the condition expression `s`; raises RefSyntaxError if `s` is not well-formed"""
    p = _P(tokenize(s), keep_brackets)
    if not p.toks:
        raise RefSyntaxError("empty")
    tree, _ = p.level(1)
    if p.peek() is not None:
        raise RefSyntaxError(f"trailing token {p.peek()}")
    return tree


def ref_accepts_condition(s: str) -> bool:
    try:
        ref_parse(s)
        return True
    except RefSyntaxError:
        return False


# -------------------------------------------------------------------------------------------- canonical-tree tools
def is_leaf(t) -> bool:
    """atoms; ("?", text) is the leaf that `bounded.exprgen.lark_to_binary` uses for anything it does not recognise"""
    return t[0] in ("c", "p", "t", "?")


def flatten(t):
    """merges nested nodes of one operator (any canonical or binary tree -> fully flattened canonical tree)"""
    if is_leaf(t):
        return tuple(t)
    op, children = t[0], []
    for c in t[1]:
        fc = flatten(c)
        if not is_leaf(fc) and fc[0] == op:
            children.extend(fc[1])
        else:
            children.append(fc)
    return (op, children)


def freeze(t):
    """hashable version"""
    if is_leaf(t):
        return tuple(t)
    return (t[0], tuple(freeze(c) for c in t[1]))


def refines(binary, expected) -> bool:
    """True iff the binary tree `binary` (every inner node has exactly 2 children) is a binarisation of the n-ary tree
    `expected`: the operands of an n-ary node may be grouped in any way that keeps their order, nothing else may
    differ.  A child of `expected` that has the operator of its parent (a bracketed operand, `keep_brackets=True`)
    must be a subtree of its own in `binary`."""
    if is_leaf(expected):
        return is_leaf(binary) and tuple(binary) == tuple(expected)
    if is_leaf(binary):
        return False
    return binary[0] == expected[0] and len(expected[1]) >= 2 and _covers(binary, expected[0], list(expected[1]))


def _covers(b, op, run) -> bool:
    """`b` is a binarisation of the contiguous operands `run` of an n-ary `op` node"""
    if len(run) == 1:
        return refines(b, run[0])
    if is_leaf(b) or b[0] != op or len(b[1]) != 2:
        return False
    left, right = b[1]
    return any(_covers(left, op, run[:k]) and _covers(right, op, run[k:]) for k in range(1, len(run)))


def leaves(t) -> List[tuple]:
    if is_leaf(t):
        return [tuple(t)]
    return [x for c in t[1] for x in leaves(c)]


def operators(t) -> set:
    if is_leaf(t):
        return set()
    r = {t[0]}
    for c in t[1]:
        r |= operators(c)
    return r


# -------------------------------------------------------------------------------------------------- AHB expressions
MODAL_WORDS = (("MUSS", "MUSS"), ("SOLL", "SOLL"), ("KANN", "KANN"), ("M", "MUSS"), ("S", "SOLL"), ("K", "KANN"))
PREFIX_LETTERS = "XOU"
_ASCII_UPPER = {c: c.upper() for c in "abcdefghijklmnopqrstuvwxyz"}


def _up(c: str) -> str:
    """ASCII-only upper-casing (the documented indicators are ASCII letters; 'ſ', 'K' (Kelvin) are not letters of it)"""
    return _ASCII_UPPER.get(c, c)


def _modal_at(s: str, i: int) -> Optional[Tuple[str, int]]:
    """longest modal mark starting at s[i] -> (normalised, end)"""
    for word, norm in MODAL_WORDS:  # long forms first
        if len(s) - i >= len(word) and all(_up(s[i + k]) == word[k] for k in range(len(word))):
            return norm, i + len(word)
    return None


def ref_split_ahb_raw(s: str) -> Optional[List[Tuple[str, str, Optional[str]]]]:
    """[(indicator as written, normalised indicator, condition text or None)] in written order, or None if `s` does not
    have the indicator structure of an AHB expression.  Condition texts are verbatim and not checked here."""
    if not isinstance(s, str) or not s:
        return None
    first = _up(s[0])
    if first in PREFIX_LETTERS:
        if len(s) == 1:
            return [(s[0], first, None)]
        return [(s[0], first, s[1:])]  # exactly one prefix-operator part: everything else is its condition expression
    parts: List[Tuple[str, str, Optional[str]]] = []
    i = 0
    while i < len(s):
        m = _modal_at(s, i)
        if m is None:
            return None  # can only happen at i == 0: the expression does not start with an indicator
        norm, j = m
        k = j
        while k < len(s) and _up(s[k]) not in "MSK":
            k += 1
        text = s[j:k]
        if text == "":
            if k < len(s):
                return None  # a modal mark directly followed by another one: a bare mark is only allowed at the end
            parts.append((s[i:j], norm, None))
        else:
            parts.append((s[i:j], norm, text))
        i = k
    return parts


def ref_split_ahb(s: str) -> Optional[List[Tuple[str, Optional[str]]]]:
    """[(normalised indicator, condition-expression text or None)] or None (C09 splitting oracle)"""
    raw = ref_split_ahb_raw(s)
    if raw is None:
        return None
    return [(norm, text) for _, norm, text in raw]


def ref_accepts_ahb(s: str) -> str:
    """'yes'  : indicator structure fine and every condition text is a well-formed condition expression
       'shape': indicator structure fine but a condition text is malformed (the AHB parser alone may accept or reject
                such input, the resolver must reject it)
       'no'   : no AHB indicator structure"""
    parts = ref_split_ahb(s)
    if parts is None:
        return "no"
    if all(text is None or ref_accepts_condition(text) for _, text in parts):
        return "yes"
    return "shape"


def ref_accepts_expression(s: str) -> bool:
    """the combined resolver: AHB expression or condition expression"""
    return ref_accepts_ahb(s) == "yes" or ref_accepts_condition(s)


# ------------------------------------------------------------------------------------------------------ C10 oracle
def _scan_atoms(s: str):
    """yields (start, end, atom) for every well-formed atom "[...]" of `s`, left to right; text that is no atom is
    skipped (subst is only ever applied to well-formed expressions)"""
    i = 0
    while i < len(s):
        if s[i] == "[":
            try:
                atom, j = _atom(s, i)
            except RefSyntaxError:
                i += 1
                continue
            yield i, j, atom
            i = j
        else:
            i += 1


def _replace_atoms(s: str, fn) -> str:
    out, last = [], 0
    for i, j, atom in _scan_atoms(s):
        r = fn(atom)
        if r is not None:
            out.append(s[last:i])
            out.append(r)
            last = j
    out.append(s[last:])
    return "".join(out)


def subst(expr: str, table: Dict[str, Optional[str]]) -> str:
    """textual oracle of C10: every [nP] / [nPa..b] -> "(" + table[nP] + ")" (exactly one level: package keys inside
    the inserted text stay), then every [UB1] -> [932], [UB2] -> [934], [UB3] -> ([932][492]X[934][493]) — also inside
    the inserted package expressions.  Raises MissingPackage if a package has no expression."""

    def pkg(atom):
        if atom[0] != "p":
            return None
        e = table.get(atom[1])
        if e is None:
            raise MissingPackage(atom[1])
        return "(" + e + ")"

    def tc(atom):
        if atom[0] != "t":
            return None
        return TIME_CONDITION_EXPANSION[atom[1]]

    return _replace_atoms(_replace_atoms(expr, pkg), tc)
