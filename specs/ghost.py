"""Native implementations of the ghost functions that contract clauses may call (symbolically they are interpreted by
pyvc: see pyvc/fxview.py and pyvc/assumed.py).  Used when a counter-model is replayed on the real code."""
from __future__ import annotations

from typing import Optional

_OPS = {"and_composition": "U", "or_composition": "O", "xor_composition": "X"}


def _canon(tree) -> str:
    from lark import Token, Tree
    if isinstance(tree, Tree):
        if tree.data == "condition":
            return f"[{tree.children[0].value}]"
        if tree.data in _OPS:
            return "(" + _canon(tree.children[0]) + _OPS[tree.data] + _canon(tree.children[1]) + ")"
    raise ValueError(f"not a format constraint expression tree: {tree!r}")


def fx_meaning(s: Optional[str]) -> Optional[str]:
    """canonical, fully parenthesised form of a format-constraint expression string; None for None"""
    if s is None:
        return None
    from ahbicht.expressions.condition_expression_parser import parse_condition_expression_to_tree
    return _canon(parse_condition_expression_to_tree(s))


def fx_wellformed(s) -> bool:
    if not isinstance(s, str) or not s:
        return False
    try:
        fx_meaning(s)
        return True
    except (SyntaxError, ValueError):
        return False


def fx_is_key(s) -> bool:
    return isinstance(s, str) and s.isdigit()


# ----------------------------------------------------------------------------------------------- evaluation ghosts
# `ev_*(expr[, text])` stand for "what parse + evaluate_ahb_expression_tree yields for this expression" (contract of
# C04/C09).  Natively they are answered from a table the replay harness fills (EV_TABLE[expr] = dict(...)).
EV_TABLE = {}
NATIVE = {}


def _ev(expr):
    if expr not in EV_TABLE:
        raise NotImplementedError(f"no native evaluation registered for {expr!r}")
    return EV_TABLE[expr]


def ev_invalid(expr):
    return _ev(expr)["invalid"]


def ev_reason(expr):
    return _ev(expr).get("reason")


def ev_indicator(expr):
    return _ev(expr)["indicator"]


def ev_fulfilled(expr):
    return _ev(expr)["fulfilled"]


def ev_hints(expr):
    return _ev(expr).get("hints")


def ev_fc_fulfilled(expr, text):
    return _ev(expr).get("fc_fulfilled", True)


def ev_fc_message(expr, text):
    return _ev(expr).get("fc_message")


def abstract_list(name, *args):
    return NATIVE[name](*args)


def abstract_value(name, *args):
    return NATIVE[name](*args)


def concat(lists):
    return [x for sub in lists for x in sub]


# ----------------------------------------------------------------------------------------------- key views (C18)
def key_is_package(k):
    return isinstance(k, str) and k.endswith("P")


def key_is_numeric(k):
    try:
        int(k)
        return True
    except (ValueError, TypeError):
        return False


def key_number(k):
    return int(k)


# ----------------------------------------------------------------------------------------------- set / sort (C18)
def dedup(xs):
    return sorted(set(xs))


def sort_int(xs):
    return sorted(xs, key=int)


def sort_plain(xs):
    return sorted(xs)


NATIVE.update({"dedup": dedup, "sort_int": sort_int, "sort_plain": sort_plain})


# ----------------------------------------------------------------------------------------------- date-time view (C20)
def dt_instant(d):
    return int(d.timestamp())


def dt_offset(d):
    return int(d.utcoffset().total_seconds())


def eu_offset(u):
    from specs.dt_spec import eu_offset as _eu
    return _eu(u)


def item_values(items):
    """native reading for replayed witnesses: the items are given as {"awaitable": bool, "value": object} (an awaitable
    item is a coroutine that returns `value`, a plain item is `value` itself)"""
    if all(isinstance(d, dict) and "awaitable" in d for d in items):
        return [d["value"] for d in items]
    raise NotImplementedError("ghost item_values has no native reading (awaitables are consumed by the call)")


def count_awaitables_before(items, k):
    """ghost: number of awaitable items among the first k items"""
    import inspect
    return sum(1 for x in list(items)[:k] if inspect.isawaitable(x))
