"""Contracts for key classification and extraction (C18)."""
import z3

from ahbicht.models.condition_node_type import ConditionNodeType
from pyvc.contracts import Bool, Const, Inst, PSpec, Raw, SeqOf, Str, contract, lemma, Int
from pyvc.values import Sc, SV, mk_s
from specs.ghost import key_is_numeric, key_is_package, key_number


class KeyStr(PSpec):
    """a condition-key string seen through the view (is_package, is_numeric, n): `endswith("P")` and `int()` are the
    only operations the code performs on it.  int(k) succeeds iff the key is numeric and not a package key."""

    def make(self, ex, st, name):
        s = ex.fresh(name, z3.StringSort())
        is_p = ex.fresh(name + ".is_package", z3.BoolSort())
        is_num = ex.fresh(name + ".is_numeric", z3.BoolSort())
        n = ex.fresh(name + ".number", z3.IntSort())
        st.assume(n >= 0, axiom=True)
        return SV(mk_s(s), "str", {"endswith:P": is_p, "int": (z3.And(is_num, z3.Not(is_p)), n),
                                   "key": (is_p, is_num, n)})

    def native(self, ex, st, model, v):
        is_p, is_num, n = v.view["key"]
        p = z3.is_true(model.eval(is_p, model_completion=True))
        num = z3.is_true(model.eval(is_num, model_completion=True))
        k = model.eval(n, model_completion=True).as_long()
        if p:
            return f"{k}P"
        return str(k) if num else "x"


def spec_key_type(k):
    """C18: nP packages; 1-499 requirement constraints, 500-900 hints, 901-999 format constraints, 2000-2499
    repeatability constraints; anything else is rejected (None here)"""
    if key_is_package(k):
        return ConditionNodeType.PACKAGE
    if not key_is_numeric(k):
        return None
    n = key_number(k)
    if 1 <= n <= 499:
        return ConditionNodeType.REQUIREMENT_CONSTRAINT
    if 500 <= n <= 900:
        return ConditionNodeType.HINT
    if 901 <= n <= 999:
        return ConditionNodeType.FORMAT_CONSTRAINT
    if 2000 <= n <= 2499:
        return ConditionNodeType.REPEATABILITY_CONSTRAINT
    return None


@contract("ahbicht.condition_node_distinction:derive_condition_node_type", prop=["C18"])
class DeriveType:
    runtime_checkable = True
    params = dict(condition_key=KeyStr())
    raises = {"ValueError": "raises_out_of_range"}

    def raises_out_of_range(condition_key):
        return spec_key_type(condition_key) is None

    def post_by_number_range(condition_key, result):
        return result == spec_key_type(condition_key)

    def model(condition_key):
        if spec_key_type(condition_key) is None:
            raise ValueError("Condition key is not in valid number range.")
        return spec_key_type(condition_key)

    def concretize(ex, s, m, values):
        return {"condition_key": KeyStr().native(ex, s, m, values["condition_key"])}


def _key(ex, st, name, i):
    return KeyStr().make(ex, st, name)


def _tree_with_key_tokens(ex, st):
    """an opaque tree whose leaves are tokens carrying key views"""
    from pyvc.values import Opaque
    ex.token_maker = lambda ex_, s_, name, i: Inst("Token", value=KeyStr(), type=Str()).make(ex_, s_, name)
    return Opaque("inst:Tree")


def is_rc(k):
    t = spec_key_type(k)
    return t == ConditionNodeType.REQUIREMENT_CONSTRAINT or t == ConditionNodeType.REPEATABILITY_CONSTRAINT


def is_hint(k):
    return spec_key_type(k) == ConditionNodeType.HINT


def is_fc(k):
    return spec_key_type(k) == ConditionNodeType.FORMAT_CONSTRAINT


@contract("ahbicht.expressions.condition_expression_parser:extract_categorized_keys_from_tree", prop=["C18", "C04"])
class ExtractFromList:
    """list input (as used by ConditionNodeBuilder): every key lands in exactly the list of its number range, in input
    order; a package key (unresolved) aborts with NotImplementedError, an out-of-range key with ValueError"""
    cases = [dict(tree_or_list=SeqOf(_key), sanitize=Const(False)),
             dict(tree_or_list=Raw(lambda ex, st, n: _tree_with_key_tokens(ex, st)), sanitize=Const(False))]
    raises = {"ValueError": "raises_some_key_out_of_range", "NotImplementedError": "raises_some_package_key"}
    case_posts = {0: ["post_partition_by_range"], 1: ["post_tree_tokens_by_type_and_range"]}
    case_raises = {1: []}

    def post_tree_tokens_by_type_and_range(tree_or_list, sanitize, result, ghost_tree_tokens):
        """tree input: CONDITION_KEY tokens are partitioned by number range, PACKAGE_KEY / TIME_CONDITION_KEY tokens go
        to their own lists, each in document order (A-LARK-TREE: scan_values)"""
        toks = ghost_tree_tokens
        return result.requirement_constraint_keys == [t.value for t in toks if t.type == "CONDITION_KEY" and is_rc(t.value)] \
            and result.hint_keys == [t.value for t in toks if t.type == "CONDITION_KEY" and is_hint(t.value)] \
            and result.format_constraint_keys == [t.value for t in toks if t.type == "CONDITION_KEY" and is_fc(t.value)] \
            and result.package_keys == [t.value for t in toks if t.type == "PACKAGE_KEY"] \
            and result.time_condition_keys == [t.value for t in toks if t.type == "TIME_CONDITION_KEY"]

    def hook(ex, st, bound):
        """modular view (tree or list input): a CategorizedKeyExtract, or ValueError / NotImplementedError"""
        outs = [ex.raise_(st.fork(), "ValueError", None), ex.raise_(st.fork(), "NotImplementedError", None)]
        outs.append((st, cke().make(ex, st, "extract")))
        return outs

    def raises_some_key_out_of_range(tree_or_list, sanitize):
        return any(spec_key_type(k) is None
                   and all(spec_key_type(tree_or_list[j]) != ConditionNodeType.PACKAGE for j in range(i))
                   for i, k in enumerate(tree_or_list))

    def raises_some_package_key(tree_or_list, sanitize):
        return any(spec_key_type(k) == ConditionNodeType.PACKAGE
                   and all(spec_key_type(tree_or_list[j]) is not None for j in range(i))
                   for i, k in enumerate(tree_or_list))

    def post_partition_by_range(tree_or_list, sanitize, result):
        return result.requirement_constraint_keys == [k for k in tree_or_list if is_rc(k)] \
            and result.hint_keys == [k for k in tree_or_list if is_hint(k)] \
            and result.format_constraint_keys == [k for k in tree_or_list if is_fc(k)] \
            and result.package_keys == [] and result.time_condition_keys == []


# ---------------------------------------------------------------------------------------------------- sanitize / __add__
from specs.ghost import abstract_list  # noqa: E402

CKE = "ahbicht.models.categorized_key_extract:CategorizedKeyExtract."


def _strs(ex, st, name, i=None):
    return Str().make(ex, st, name)


def cke():
    return Inst("CategorizedKeyExtract", hint_keys=SeqOf(_strs), format_constraint_keys=SeqOf(_strs),
                requirement_constraint_keys=SeqOf(_strs), package_keys=SeqOf(_strs), time_condition_keys=SeqOf(_strs))


def once_ascending_int(xs):
    """each distinct key once (A-STDLIB set), ascending by int (A-STDLIB sort(key=int))"""
    return abstract_list("sort_int", abstract_list("dedup", xs))


def once_ascending_plain(xs):
    return abstract_list("sort_plain", abstract_list("dedup", xs))


def _remember(ex, st, values):
    o = st.heap[values["self"].oid]
    for f in ("hint_keys", "format_constraint_keys", "requirement_constraint_keys", "package_keys",
              "time_condition_keys"):
        st.ghost["old_" + f] = o.fields[f]


@contract(CKE + "sanitize", prop=["C18"])
class Sanitize:
    """every condition-key list holds each key once in ascending NUMERIC order afterwards"""
    params = dict(self=cke())
    raises = {}
    setup = _remember

    def hook(ex, st, bound):
        """modular effect: every list is replaced by its sanitised version"""
        from pyvc import lists as L
        from pyvc.values import ListObj, sv_none
        o = st.heap[bound["self"].oid]
        for f, sym in (("hint_keys", "sort_int"), ("format_constraint_keys", "sort_int"),
                       ("requirement_constraint_keys", "sort_int"), ("package_keys", "sort_plain"),
                       ("time_condition_keys", "sort_plain")):
            old = o.fields[f]
            d = ex.alloc(st, ListObj(L.LT([L.Abs("dedup", (old,))])))
            o.fields[f] = ex.alloc(st, ListObj(L.LT([L.Abs(sym, (d,))])))
        return [(st, sv_none())]

    def post_each_key_once_ascending(self, result, ghost_old_hint_keys, ghost_old_format_constraint_keys,
                                     ghost_old_requirement_constraint_keys, ghost_old_package_keys,
                                     ghost_old_time_condition_keys):
        return self.hint_keys == once_ascending_int(ghost_old_hint_keys) \
            and self.format_constraint_keys == once_ascending_int(ghost_old_format_constraint_keys) \
            and self.requirement_constraint_keys == once_ascending_int(ghost_old_requirement_constraint_keys) \
            and self.package_keys == once_ascending_plain(ghost_old_package_keys) \
            and self.time_condition_keys == once_ascending_plain(ghost_old_time_condition_keys)


@contract(CKE + "__add__", prop=["C18"])
class AddExtracts:
    """the extract of a composed expression is the sanitised union of the extracts of its parts; the summands stay
    untouched"""
    params = dict(self=cke(), other=cke())
    raises = {}

    def post_sanitised_union(self, other, result):
        return result.hint_keys == once_ascending_int(self.hint_keys + other.hint_keys) \
            and result.format_constraint_keys == once_ascending_int(self.format_constraint_keys
                                                                    + other.format_constraint_keys) \
            and result.requirement_constraint_keys == once_ascending_int(self.requirement_constraint_keys
                                                                         + other.requirement_constraint_keys) \
            and result.package_keys == once_ascending_plain(self.package_keys + other.package_keys) \
            and result.time_condition_keys == once_ascending_plain(self.time_condition_keys + other.time_condition_keys)


@contract(CKE + "generate_possible_content_evaluation_results", prop=["C18", "C06"])
class GeneratePossible:
    """modular view only: some list of content evaluation results (that it is exactly the Cartesian product is decided
    by the bounded part of C18 - itertools and generator expressions are outside the executor)"""
    params = dict(self=cke())
    raises = {}

    def hook(ex, st, bound):
        from pyvc.values import Opaque, SV, mk_i
        seq = SeqOf(lambda ex_, s_, name, i: Opaque("inst:ContentEvaluationResult")).make(ex, st, "generated")
        st.ghost["generated_count"] = SV(mk_i(st.heap[seq.oid].lt.segs[0].n), "int")
        return [(st, seq)]
