"""Lemmas over the validation spec functions / contracts: C14 (soll_is_required is the same as rewriting SOLL) and
C16 (an invalid expression behaves like 'Kann' for every other node)."""
from ahbicht.models.enums import ModalMark
from pyvc.contracts import Bool, Enum, OneOfEnums, Opt, Str, lemma
from specs.ghost import ev_fulfilled, ev_indicator, ev_invalid
from specs.vspec import (FORB, OPTL, REQ, own_raises, own_status, parent_ok, spec_combine, spec_map, spec_map_raises)

RVV = "RequirementValidationValue"
F3 = Opt(Bool())
IND = OneOfEnums("ModalMark", "PrefixOperator")
PARENT = Opt(Enum(RVV, among=["IS_REQUIRED", "IS_OPTIONAL", "IS_FORBIDDEN"]))


@lemma(dict(f=F3, b=Bool(), b2=Bool()), prop=["C14"])
def soll_is_muss_or_kann(f, b, b2):
    """mapping SOLL under flag b == mapping MUSS (b) resp. KANN (not b) under ANY flag"""
    if b:
        other = ModalMark.MUSS
    else:
        other = ModalMark.KANN
    return spec_map_raises(f, ModalMark.SOLL, b) == spec_map_raises(f, other, b2) \
        and (spec_map_raises(f, ModalMark.SOLL, b) or spec_map(f, ModalMark.SOLL, b) == spec_map(f, other, b2))


@lemma(dict(f=F3, ind=IND, b=Bool(), b2=Bool()), prop=["C14"])
def flag_matters_only_for_soll(f, ind, b, b2):
    if ind == ModalMark.SOLL:
        return True
    return spec_map_raises(f, ind, b) == spec_map_raises(f, ind, b2) and spec_map(f, ind, b) == spec_map(f, ind, b2)


@lemma(dict(e1=Str(), e2=Str(), p=PARENT, b=Bool()), prop=["C16"])
def invalid_node_is_like_kann(e1, e2, p, b):
    """own status of a node with an invalid expression == own status of the same node with expression 'Kann' (a bare
    KANN indicator: fulfilled, never raising): children and siblings therefore see the same parent status"""
    if not (ev_invalid(e1) and not ev_invalid(e2) and ev_indicator(e2) == ModalMark.KANN and ev_fulfilled(e2) is True):
        return True
    return own_status(e1, p, b) == own_status(e2, p, b) and not own_raises(e1, p, b) and not own_raises(e2, p, b)


@lemma(dict(p=PARENT, c=Enum(RVV, among=["IS_REQUIRED", "IS_OPTIONAL", "IS_FORBIDDEN"])), prop=["C13"])
def parents_dominate(p, c):
    """below an optional node nothing is required; below a required node (or at the root) the own status is kept"""
    r = spec_combine(p, c)
    if p == OPTL:
        return r != REQ and (c == REQ or r == c)
    if p is None or p == REQ:
        return r == c
    return True


@lemma(dict(f=F3, b=Bool()), prop=["C14"], canary=True)
def canary_soll_is_always_muss(f, b):
    return spec_map_raises(f, ModalMark.SOLL, b) or spec_map(f, ModalMark.SOLL, b) == spec_map(f, ModalMark.MUSS, b) \
        and not spec_map_raises(f, ModalMark.MUSS, b)
