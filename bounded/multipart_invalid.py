"""Bounded stand-in shared by C06 and C16: AHB expressions with SEVERAL modal-mark parts in which a later (or any) part
is well-formed but invalid.  Validity is structural (C06): evaluation must raise the invalid-expression error under
EVERY assignment - also when an earlier part is already fulfilled; and a node carrying such an expression is reported
optional with the reason as hint (C16)."""
from __future__ import annotations

import asyncio
import itertools
import time
from typing import List

from bounded.common import F, K, U, configure_inject, evaluate, hints_for, make_cer, set_cer

VALID_PARTS = ["[1]", "[2] U [3]", "[1] O [2]", "[3][901]", "[1] U [501]"]
INVALID_PARTS = ["[2] O [501]", "[501] X [3]", "[901] O [502]", "[1] U ([2] O [501])", "([3] X [901]) U [1]"]
MARKS = ["Muss", "Soll", "Kann", "m", "K"]


def expressions() -> List[str]:
    out = []
    for a, inv in itertools.product(VALID_PARTS, INVALID_PARTS):
        out.append(f"Muss {a} Kann {inv}")
        out.append(f"Soll {inv} Kann {a}")
        out.append(f"Muss {a} Soll {a} Kann {inv}")
        out.append(f"M {a} S {inv} K")
    return out


def run(ctx, prop: str) -> None:
    from ahbicht.content_evaluation import is_valid_expression
    from ahbicht.expressions import InvalidExpressionError
    t0 = time.time()
    configure_inject()
    exprs = expressions()
    n = 0
    nontrivial = set()
    bad = []
    for e in exprs:
        verdicts = {}
        for vals in itertools.product([F, U, K], repeat=3):
            cer = make_cer(rc={"1": vals[0], "2": vals[1], "3": vals[2]}, fc={"901": True},
                           hints=hints_for(["501", "502"]))
            n += 1
            try:
                evaluate(e, cer)
                verdicts[tuple(map(str, vals))] = "evaluates"
            except InvalidExpressionError:
                verdicts[tuple(map(str, vals))] = "invalid"
            except NotImplementedError:
                verdicts[tuple(map(str, vals))] = "invalid?"  # not expected
            except BaseException as ex:  # noqa: anything else escaping is neither a result nor the documented rejection
                if isinstance(ex, (KeyboardInterrupt, SystemExit)):
                    raise
                verdicts[tuple(map(str, vals))] = f"raises {type(ex).__name__} ({str(ex)[:80]})"
        nontrivial.add(e)
        wrong = {k: v for k, v in verdicts.items() if v != "invalid"}
        if wrong and len(bad) < 5:
            k = sorted(wrong)[0]
            bad.append((e, k, wrong[k]))
        if prop == "C06":
            n += 1
            try:
                ok, msg = asyncio.run(is_valid_expression(e, set_cer))
                if (ok is not False or not isinstance(msg, str)) and len(bad) < 5:
                    bad.append((e, "is_valid_expression", f"returned ({ok!r}, {msg!r})"))
            except BaseException as ex:  # noqa: the validity check must answer (False, reason) for a well-formed expression
                if isinstance(ex, (KeyboardInterrupt, SystemExit)):
                    raise
                if len(bad) < 5:
                    bad.append((e, "is_valid_expression", f"raises {type(ex).__name__} ({str(ex)[:80]})"))
    if prop == "C16":
        from maus.models.edifact_components import DataElementFreeText, Segment
        from ahbicht.validation.validation import validate_segment
        for e in exprs:
            for vals in itertools.product([F, U], repeat=3):
                cer = make_cer(rc={"1": vals[0], "2": vals[1], "3": vals[2]}, fc={"901": True},
                               hints=hints_for(["501", "502"]))
                seg = Segment(discriminator="SEG", ahb_expression=e, section_name="s", data_elements=[
                    DataElementFreeText(discriminator="DE", ahb_expression="Muss", entered_input="x", data_element_id="1234")])

                async def go():
                    set_cer(cer)
                    return await validate_segment(seg, None, True)
                n += 1
                try:
                    res = asyncio.run(go())
                    st = str(res[0].validation_result.requirement_validation)
                    if not (st == "IS_OPTIONAL" and res[0].validation_result.hints) and len(bad) < 5:
                        bad.append((e, tuple(map(str, vals)), f"segment reported {st} hints={res[0].validation_result.hints!r}"))
                except BaseException as ex:  # noqa
                    if isinstance(ex, (KeyboardInterrupt, SystemExit)):
                        raise
                    if len(bad) < 5:
                        bad.append((e, tuple(map(str, vals)), f"validation aborted with {type(ex).__name__}"))
    ctx.bounded(f"{prop}/multi-part-expressions-with-an-invalid-part", n, len(nontrivial),
                "AHB expressions with 2-3 modal-mark parts of which one is well-formed but invalid, in every position, x all "
                "27 assignments of F/U/UNKNOWN to [1],[2],[3]; distinct = distinct expressions (all contain an operator and "
                "an invalid part)", [{"expression": exprs[0]}, {"expression": exprs[-1]}], exhaustive=True,
                bound=f"{len(exprs)} expressions from 5 valid x 5 invalid parts x 4 shapes", seconds=time.time() - t0)
    for i, (e, k, what) in enumerate(bad):
        ctx.violation(f"bounded/multi-part-invalid-{i}",
                      f"{e!r} is invalid (one part is) but under {k} it {what}: validity must not depend on condition states"
                      if prop == "C06" else (f"node with the invalid expression {e!r} under {k}: {what}" if "segment" in what
                                             or "aborted" in what else
                                             f"evaluating the invalid expression {e!r} under {k} {what} instead of raising "
                                             f"the invalid-expression error validation relies on"),
                      witness={"expression": e, "assignment_or_call": k, "observed": what}, replayed=True,
                      signature=f"multipart|{e}|{k}",
                      replay_code=("import asyncio, logging; logging.disable(logging.CRITICAL)\n"
                                   "from bounded.common import *\nconfigure_inject()\n"
                                   f"print(evaluate({e!r}, make_cer(rc={{'1': F, '2': F, '3': F}}, fc={{'901': True}}, "
                                   "hints=hints_for(['501','502']))))"))
