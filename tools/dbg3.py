from checks.common import load_sidecars, verifier
from pyvc.contracts import REGISTRY
from pyvc.state import State, Frame
from pyvc.values import FuncV
import contracts.validation as cv
load_sidecars()
v=verifier(); ex=v.ex
st=State(); mod=ex.repo.modules["specs.vspec"]; fid=ex.new_oid(); st.frames[fid]=Frame(fid,mod,None,"h"); st.stack.append(fid)
d=cv._value_pool().make(ex,st,"d")
from pyvc.contracts import Enum
seg=Enum("RequirementValidationValue", among=["IS_REQUIRED"]).make(ex,st,"seg")
fv=FuncV(mod.functions["offered"],mod,"specs.vspec:offered")
for s,r in ex.inline_call(fv,[d,seg],{},st):
    print(r, s.heap[r.oid].lt if hasattr(r,'oid') else '')
