"""C10 (bounded stand-in) — resolving packages and time conditions is exact bracketed substitution.

Contract on the real `parse_expression_including_unresolved_subexpressions(e, resolve_packages=True,
replace_time_conditions=True)` under a content evaluation result with `packages=table`:
    resolved(e, table) == parse(subst(e, table))          (same real function, nothing to resolve in its input)
where `subst` (specs.refparser) is the textual oracle of the property statement: [nP] / [nPa..b] -> "(" + table[nP] + ")",
[UB1] -> [932], [UB2] -> [934], [UB3] -> ([932][492]X[934][493]); one level of packages; time conditions inside package
expressions are replaced as well.  Trees are compared exactly (rule names, token types, token values, grouping).
For condition expressions the resolved tree is also compared (flattened) with the lark-free reference parse of the
substituted text.  A package without expression must abort with NotImplementedError.
Not generated (domain note of DESIGN C10): repeatabilities a..b with a > b.
"""
from __future__ import annotations

import asyncio
import itertools
import random
import time
from typing import Dict, List, Optional, Tuple

from bounded import exprgen as g
from bounded.common import make_cer, pmap, set_cer
from specs import refparser as ref

TABLES: Tuple[Dict[str, str], ...] = (
    {"1P": "[11]U[12]", "2P": "[21]O[22]"},
    {"1P": "[UB1]", "2P": "([31]O[UB3])[901] X [UB2]"},  # time conditions and brackets inside packages
    {"1P": "[2P]U[41] ∨ [3P7..9]"},  # nested packages stay (one level); 2P has no expression -> NotImplementedError
)
TABLE_NOTES = ("plain packages", "packages containing UBn, brackets, juxtaposition, whitespace",
               "package containing packages (one level only); 2P missing")
ABBREVIATIONS = ("A", "B", "R", "T")
LEAF_KINDS = ("K",) + ABBREVIATIONS


def _label(tree, kinds: Tuple[str, ...], variant: int):
    """K plain key (position + 1) / A [1P] / B [2P] / R package with repeatability / T time condition (rotating)"""
    atoms = []
    for i, kind in enumerate(kinds):
        if kind == "K":
            atoms.append(("c", str(i + 1)))
        elif kind == "A":
            atoms.append(("p", "1P", None))
        elif kind == "B":
            atoms.append(("p", "2P", None))
        elif kind == "R":
            atoms.append((("p", "1P", "0..1"), ("p", "2P", "2..5"), ("p", "1P", "1..1"))[(variant + i) % 3])
        else:
            atoms.append(("t", ("UB1", "UB2", "UB3")[(variant + i) % 3]))
    return g.label(tree, atoms)


def _labelled_trees(n: int):
    """every binary tree with n leaves x every leaf labelling with at least one abbreviation -> (tree, kinds)"""
    for t_idx, tree in enumerate(g.enum_trees(n)):
        for kinds in itertools.product(LEAF_KINDS, repeat=n):
            if any(k != "K" for k in kinds):
                yield _label(tree, kinds, t_idx), kinds


def _render(tree, rng: random.Random) -> str:
    style = rng.choice(("min", "min", "full", "redundant"))
    return g.render(tree, style, rng, "random", rng.choice(("none", "single", "random")))[0]


# ---------------------------------------------------------------------------------------------------------- worker
async def _resolve(expression: str, table: Dict[str, str]):
    from ahbicht.expressions.expression_resolver import parse_expression_including_unresolved_subexpressions
    set_cer(make_cer(packages=table))
    return await parse_expression_including_unresolved_subexpressions(expression, resolve_packages=True,
                                                                      replace_time_conditions=True)


async def _parse_plain(expression: str):
    from ahbicht.expressions.expression_resolver import parse_expression_including_unresolved_subexpressions
    set_cer(make_cer())
    return await parse_expression_including_unresolved_subexpressions(expression, resolve_packages=False,
                                                                      replace_time_conditions=False)


async def _check(expression: str, t_idx: int) -> Tuple[int, List[dict]]:
    table = TABLES[t_idx]
    failures: List[dict] = []

    def fail(clause: str, message: str, expected, observed):
        failures.append({"input": expression, "table": t_idx, "clause": clause, "message": message,
                         "expected": str(expected)[:600], "observed": str(observed)[:600]})

    try:
        substituted: Optional[str] = ref.subst(expression, table)
    except ref.MissingPackage:
        substituted = None
    try:
        resolved = await _resolve(expression, table)
        raised = None
    except Exception as exc:  # noqa
        resolved, raised = None, exc
    if substituted is None:
        if raised is None:
            fail("missing-package-aborts", "a package without expression was dropped or left instead of aborting",
                 "NotImplementedError", g.tree_signature(resolved))
        elif not isinstance(raised, NotImplementedError):
            fail("missing-package-aborts", "a package without expression raised something else than NotImplementedError",
                 "NotImplementedError", f"{type(raised).__name__}: {str(raised)[:100]}")
        return 1, failures
    if raised is not None:
        fail("resolved-equals-substituted", "resolving a well-formed expression with a complete package table raised",
             f"parse({substituted!r})", f"{type(raised).__name__}: {str(raised)[:100]}")
        return 1, failures
    expected_tree = await _parse_plain(substituted)  # must not raise: subst of a well-formed expression is well-formed
    if g.tree_signature(resolved) != g.tree_signature(expected_tree) or not resolved == expected_tree:
        fail("resolved-equals-substituted", "resolved tree differs from the parse of the bracketed substitution",
             f"parse({substituted!r}) = {g.tree_signature(expected_tree)}", g.tree_signature(resolved))
    elif ref.ref_accepts_condition(expression):
        # independent of the real parser: the documented tree of the substituted text
        if g.lark_to_canonical(resolved) != ref.ref_parse(substituted):
            fail("resolved-equals-reference", "resolved tree is not the documented tree of the substituted text",
                 ref.ref_parse(substituted), g.lark_to_canonical(resolved))
    return 2, failures


async def _chunk_async(items):
    evaluations, failures = 0, []
    for expression, t_idx in items:
        e, f = await _check(expression, t_idx)
        evaluations += e
        failures.extend(f)
    return evaluations, failures


def _work(items):
    return asyncio.run(_chunk_async(items))


def _replay(f: dict):
    _, again = _work([(f["input"], f["table"])])
    code = ("import asyncio\nfrom bounded.common import *\nconfigure_inject()\n"
            "from ahbicht.expressions.expression_resolver import parse_expression_including_unresolved_subexpressions as r\n"
            "from specs.refparser import subst\n"
            f"e, table = {f['input']!r}, {TABLES[f['table']]!r}\n"
            "async def main():\n"
            "    set_cer(make_cer(packages=table))\n"
            "    print((await r(e, resolve_packages=True, replace_time_conditions=True)).pretty())\n"
            "    print((await r(subst(e, table), resolve_packages=False, replace_time_conditions=False)).pretty())\n"
            "asyncio.run(main())\n"
            f"# clause {f['clause']}: {f['message']}\n")
    return any(a["clause"] == f["clause"] for a in again), code


# ------------------------------------------------------------------------------------------------------------ spaces
def _ahb_expressions(rng: random.Random, small: List[str], count: int) -> List[str]:
    modal = ("Muss", "M", "muss", "Soll", "s", "SOLL", "Kann", "K", "kann")
    out = []
    for i in range(count):
        kind = i % 5
        e = [rng.choice(small) for _ in range(3)]
        sp = lambda: rng.choice(("", " "))  # noqa: E731
        if kind == 0:
            out.append(rng.choice(modal) + sp() + e[0])
        elif kind == 1:
            out.append(rng.choice(("X", "O", "U", "x", "o", "u")) + sp() + e[0])
        elif kind == 2:
            out.append(rng.choice(modal) + sp() + e[0] + sp() + rng.choice(modal) + sp() + e[1])
        elif kind == 3:
            out.append(rng.choice(modal) + sp() + e[0] + sp() + rng.choice(modal) + sp() + e[1] + sp() + rng.choice(modal))
        else:
            out.append(rng.choice(modal) + sp() + e[0] + sp() + rng.choice(modal) + sp() + e[1] + sp()
                       + rng.choice(modal) + sp() + e[2])
    return out


def _run_space(ctx, name: str, cases: List[Tuple[str, int, str]], all_failures: List[dict], bound: str,
               exhaustive: bool):
    """cases: (expression text, table index, structure key)"""
    t0 = time.time()
    items = [(e, t) for e, t, _ in cases]
    n_chunks = max(1, min(len(items) // 10 + 1, 512))  # dealt round-robin: balanced cost per chunk
    chunks = [c for c in (items[i::n_chunks] for i in range(n_chunks)) if c]
    results = pmap(_work, chunks)
    for r in results:
        all_failures.extend(r[1])
    # non-trivial: the abbreviation has a neighbour (>= 2 leaves / parts) or occurs more than once
    distinct = {(key, t) for _, t, key in cases if key is not None}
    ctx.bounded(name, sum(r[0] for r in results), len(distinct),
                "distinct (expression structure with its abbreviations, package table) in which an abbreviation has at "
                "least one sibling operand or part (position and neighbours matter); evaluations = resolver runs "
                "(resolved side + substituted side)",
                [{"expression": cases[i][0], "table": TABLES[cases[i][1]]}
                 for i in (0, len(cases) // 3, len(cases) // 2, len(cases) - 1)],
                exhaustive=exhaustive, bound=bound, seconds=time.time() - t0)


def run(ctx, tier: str, seed: int) -> None:
    ctx.assume("C10 bounded: repeatabilities a..b with a > b are not well-formed input (grammar comment: n..m with m > n; "
               "the Repeatability validator raises ValueError) and are not generated")
    rng = random.Random(seed)
    quick = tier == "quick"
    all_failures: List[dict] = []

    def structure_key(tree) -> Optional[str]:
        return repr(tree) if g.n_leaves(tree) >= 2 else None

    # ------------------------------------------------------------------ 1. all small condition expressions
    max_exh = 3
    cases, small_texts = [], []
    for n in range(1, max_exh + 1):
        for tree, kinds in _labelled_trees(n):
            text = _render(tree, rng)
            if n <= 2:
                small_texts.append(text)
            for t_idx in range(len(TABLES)):
                cases.append((text, t_idx, structure_key(tree)))
    for text, t_idx, _ in cases[:2000]:  # the generator has to produce well-formed expressions
        assert ref.ref_accepts_condition(text), text
    hand_made = ["[1P]", "[1P][1P]", "[1P]U[1P]", "[1P][2P]", "[2P][1P][2P]", "[1P0..1]", "[ 1P 0..1 ]", "[1][1P][2]",
                 "([1P])", "[UB3]", "[UB1][UB2][UB3]", "[1P]X[UB3]O[2P3..4][1]", "[3P]", "[1]U[9P]", "[9P]",
                 "[1P]U[9P]", "Muss[1P]Soll[2P]Kann[UB3]", "Muss [9P]", "X[UB3][1P]", "Muss[1P]U[2P] K"]
    cases = [(h, t, h) for h in hand_made for t in range(len(TABLES))] + cases
    _run_space(ctx, f"C10 all condition expressions <= {max_exh} leaves", cases, all_failures,
               f"{len(hand_made)} hand-made expressions, and every binary tree with 1..{max_exh} leaves x every "
               "labelling of the leaves with plain key / [1P] / [2P] / package with repeatability / UBn that has at "
               f"least one abbreviation ({(len(cases) - 3 * len(hand_made)) // 3} expressions, one seeded rendering "
               f"each) x {len(TABLES)} package tables ({'; '.join(TABLE_NOTES)})", True)

    # ------------------------------------------------------------------ 2. 4 leaves (sampled) and larger
    n4 = 1000 if quick else 25000
    pool4 = []
    trees4 = list(g.enum_trees(4))
    seen = set()
    while len(pool4) < n4:
        t_idx = rng.randrange(len(trees4))
        kinds = tuple(rng.choice(LEAF_KINDS) for _ in range(4))
        if all(k == "K" for k in kinds) or (t_idx, kinds) in seen:
            continue
        seen.add((t_idx, kinds))
        pool4.append(_label(trees4[t_idx], kinds, t_idx))
    big = []
    for n, count in ((5, 100), (6, 60), (8, 30)) if quick else ((5, 2000), (6, 1200), (8, 500)):
        for _ in range(count):
            kinds = tuple(rng.choice(LEAF_KINDS) for _ in range(n))
            if all(k == "K" for k in kinds):
                continue
            big.append(_label(g.random_tree(rng, n), kinds, rng.randrange(3)))
    cases = []
    for tree in pool4 + big:
        text = _render(tree, rng)
        for t_idx in range(len(TABLES)):
            cases.append((text, t_idx, structure_key(tree)))
    _run_space(ctx, "C10 sampled condition expressions with 4..8 leaves", cases, all_failures,
               f"seeded sample: {len(pool4)} of the {320 * (5 ** 4 - 1)} labelled 4-leaf trees, {len(big)} random labelled "
               f"trees with 5, 6 and 8 leaves; one seeded rendering each x {len(TABLES)} package tables", False)

    # ------------------------------------------------------------------ 3. AHB expressions with several modal marks
    ahb = _ahb_expressions(rng, small_texts, 600 if quick else 12000)
    for s in ahb[:500]:
        assert ref.ref_accepts_ahb(s) == "yes", s
    cases = [(s, t_idx, s) for s in dict.fromkeys(ahb) for t_idx in range(len(TABLES))]
    _run_space(ctx, "C10 AHB expressions", cases, all_failures,
               f"{len(cases) // len(TABLES)} seeded AHB expressions (1 modal mark / 1 prefix operator / 2 modal marks / "
               "2 modal marks + bare mark / 3 modal marks; seeded spellings) whose condition expressions are drawn from "
               f"the rendered <= 2-leaf expressions of space 1, x {len(TABLES)} package tables", False)

    by_clause: Dict[str, List[dict]] = {}
    for f in all_failures:
        by_clause.setdefault(f["clause"], []).append(f)
    for clause in sorted(by_clause):
        g.report_failures(ctx, clause, by_clause[clause], _replay)
