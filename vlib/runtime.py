"""Thorough-tier guard against over-strict contracts: the side-car contracts are installed over the REAL functions
(monkey-patching, repository files untouched) while the repository's own test suite runs in-process.  Every call whose
arguments satisfy the precondition is checked against the clauses that have a native reading.  A firing contract is
either too strict (our error - caught here before it can become a false alarm) or a defect the tests do not assert;
it is reported as a NOTE plus an *undecided* obligation, never as a violation by itself."""
from __future__ import annotations

import asyncio
import functools
import importlib
import inspect
import os
import sys
from typing import Any, Dict, List, Tuple

from pyvc.contracts import REGISTRY, Contract
from pyvc.replay import NotReplayable, clause_native

STATS: Dict[str, Dict[str, int]] = {}
FIRED: List[Tuple[str, str, str]] = []


def _bind(fn, args, kwargs) -> Dict[str, Any]:
    sig = inspect.signature(fn)
    ba = sig.bind(*args, **kwargs)
    ba.apply_defaults()
    return dict(ba.arguments)


def _check_after(c: Contract, bound: Dict[str, Any], kind: str, val: Any) -> None:
    st = STATS.setdefault(c.target, {"calls": 0, "checked": 0, "skipped": 0})
    st["calls"] += 1
    try:
        if c.has_pre:
            try:
                if not clause_native(c, "pre", bound, None):
                    st["skipped"] += 1
                    return
            except NotReplayable:
                pass
        if kind == "raise":
            names = [k.__name__ for k in type(val).__mro__]
            if any(k in names for k in c.never_raises):
                FIRED.append((c.target, "never_raises", f"{type(val).__name__}: {str(val)[:80]}"))
                return
            allowed = next((k for k in c.raises if k in names), None)
            if allowed is None:
                FIRED.append((c.target, "raises-only-declared", f"{type(val).__name__}: {str(val)[:80]}"))
                return
            cond = c.raises[allowed]
            if cond and not cond.startswith("may_"):
                try:
                    if not clause_native(c, cond, bound, None):
                        FIRED.append((c.target, f"raises-{allowed}", "raised although the condition is false"))
                except NotReplayable:
                    pass
            st["checked"] += 1
            return
        for k, cond in c.raises.items():
            if cond and not cond.startswith(("may_", "onlyif_")):
                try:
                    if clause_native(c, cond, bound, None):
                        FIRED.append((c.target, f"raises-{k}", f"returned {val!r} although the contract demands {k}"))
                except NotReplayable:
                    pass
        for p in c.posts:
            try:
                if not clause_native(c, p, bound, val):
                    FIRED.append((c.target, p, f"args={ {k: repr(v)[:60] for k, v in bound.items() if k != 'self'} } "
                                               f"result={val!r}"[:400]))
            except NotReplayable:
                continue
        st["checked"] += 1
    except Exception as e:  # noqa: a clause that cannot be evaluated on real objects is our problem, not a verdict
        st.setdefault("clause_errors", 0)
        st["clause_errors"] += 1
        if st["clause_errors"] <= 2:
            FIRED.append((c.target, "clause-evaluation", f"{type(e).__name__}: {str(e)[:120]}"))


def _wrap(c: Contract, fn):
    if inspect.iscoroutinefunction(fn):
        @functools.wraps(fn)
        async def aw(*args, **kwargs):
            try:
                bound = _bind(fn, args, kwargs)
            except TypeError:
                return await fn(*args, **kwargs)
            try:
                r = await fn(*args, **kwargs)
            except BaseException as e:  # noqa
                if not isinstance(e, (KeyboardInterrupt, SystemExit, GeneratorExit, asyncio.CancelledError)):
                    _check_after(c, bound, "raise", e)
                raise
            _check_after(c, bound, "return", r)
            return r
        return aw

    @functools.wraps(fn)
    def w(*args, **kwargs):
        try:
            bound = _bind(fn, args, kwargs)
        except TypeError:
            return fn(*args, **kwargs)
        try:
            r = fn(*args, **kwargs)
        except BaseException as e:  # noqa
            if not isinstance(e, (KeyboardInterrupt, SystemExit, GeneratorExit)):
                _check_after(c, bound, "raise", e)
            raise
        _check_after(c, bound, "return", r)
        return r
    return w


def install(targets) -> int:
    """patches the given contract targets in their defining module / class (references imported elsewhere by name
    before the patch keep pointing at the original: counted calls show how much really went through the wrapper)"""
    n = 0
    for t in targets:
        c = REGISTRY[t]
        modname, qual = t.split(":")
        mod = importlib.import_module(modname)
        parts = qual.split(".")
        owner = mod
        for p in parts[:-1]:
            owner = getattr(owner, p)
        orig = owner.__dict__.get(parts[-1]) if inspect.isclass(owner) else getattr(owner, parts[-1], None)
        if orig is None or isinstance(orig, (staticmethod, classmethod)) or not callable(orig):
            continue
        if hasattr(orig, "__wrapped__") and hasattr(orig, "cache_info"):
            continue  # lru_cache objects
        wrapped = _wrap(c, orig)
        setattr(owner, parts[-1], wrapped)
        # also rebind names imported with `from module import name` elsewhere in ahbicht
        if not inspect.isclass(owner):
            for m in list(sys.modules.values()):
                if m is not None and getattr(m, "__name__", "").startswith("ahbicht") and m is not mod \
                        and m.__dict__.get(parts[-1]) is orig:
                    setattr(m, parts[-1], wrapped)
        n += 1
    return n


def run_suite(repo_root: str) -> Tuple[int, str]:
    import pytest
    cwd = os.getcwd()
    os.chdir(repo_root)
    try:
        rc = pytest.main(["-q", "-p", "no:cacheprovider", "--timeout=900", "unittests", "-W", "ignore"])
    finally:
        os.chdir(cwd)
    return int(rc), ""
