"""Oracle for the validation properties C13 / C14 / C16 / C17 — written from the PROPERTY STATEMENTS
(/verif/properties.jsonl, DESIGN.md Appendix A), not from /repo/src/ahbicht/validation/validation.py.

Pure Python, no ahbicht import.  The AHB is read through duck typing (the attribute names of the maus model):
    group   : .discriminator .ahb_expression .segment_groups (list | None) .segments (list | None)
    segment : .discriminator .ahb_expression .data_elements
    free text data element : .discriminator .ahb_expression .entered_input
    value pool data element: .discriminator .value_pool [entries: .qualifier .ahb_expression] .entered_input

Expression evaluation is NOT part of this oracle (it is the subject of C03–C10): every function takes a callback
    evaluate(expression: str) -> Outcome(indicator, fulfilled, hints, format_ok, format_message) | Invalid(reason)
with indicator in {"MUSS","SOLL","KANN","X","O","U"} and fulfilled in {True, False, None}.  What is specified here is
the plumbing: mapping, combination with the parent, order, pruning, suffixes, value pools, the soll flag, containment
of invalid expressions.
"""
from __future__ import annotations

from typing import Any, Callable, Dict, List, NamedTuple, Optional, Tuple, Union

IS_REQUIRED = "IS_REQUIRED"
IS_FORBIDDEN = "IS_FORBIDDEN"
IS_OPTIONAL = "IS_OPTIONAL"
SEGMENT_LEVEL_STATUSES = (IS_REQUIRED, IS_FORBIDDEN, IS_OPTIONAL)

MUSS, SOLL, KANN = "MUSS", "SOLL", "KANN"
PREFIX_OPERATORS = ("X", "O", "U")
INDICATORS = (MUSS, SOLL, KANN) + PREFIX_OPERATORS

# abstract statuses of a value-pool data element: the statement fixes FORBIDDEN-ness and FILLED/EMPTY, not the
# REQUIRED/OPTIONAL prefix
VP_FORBIDDEN, VP_FILLED, VP_EMPTY = "FORBIDDEN", "FILLED", "EMPTY"


class Outcome(NamedTuple):
    """What the (trusted, separately checked) expression evaluation says about one expression."""
    indicator: str
    fulfilled: Optional[bool]
    hints: Optional[str] = None
    format_ok: bool = True
    format_message: Optional[str] = None


class Invalid(NamedTuple):
    """The expression is well-formed but invalid; `reason` is the explanation given by the evaluation."""
    reason: str


class Undetermined(NotImplementedError):
    """Documented behaviour: a visited MUSS / X / O / U node whose requirement outcome is undetermined (None) makes
    the whole validation run end with NotImplementedError."""


class Entry(NamedTuple):
    discriminator: Optional[str]
    status: str          # segment level: IS_*; free text: IS_*_AND_FILLED|EMPTY (IS_OPTIONAL if invalid); pool: VP_*
    extras: Dict[str, Any]


Evaluate = Callable[[str], Union[Outcome, Invalid]]


# ------------------------------------------------------------------------------------------------ C13: mapping
def spec_map(fulfilled: Optional[bool], indicator: str, soll_is_required: bool) -> str:
    """requirement indicator × requirement outcome -> own status (documented mapping)."""
    if indicator not in INDICATORS:
        raise ValueError(f"not a requirement indicator: {indicator!r}")
    if indicator == SOLL:
        indicator = MUSS if soll_is_required else KANN
    if fulfilled is False:
        return IS_FORBIDDEN
    if fulfilled is None:
        if indicator == KANN:
            return IS_OPTIONAL
        raise Undetermined(indicator)
    return IS_OPTIONAL if indicator == KANN else IS_REQUIRED


def spec_combine(parent: Optional[str], child: str) -> str:
    """documented table: below a required node (or at the root) the own status is kept, below an optional node
    nothing is required; a forbidden parent never reaches this function (nothing below it is looked at)."""
    if parent is None or parent == IS_REQUIRED:
        return child
    if parent == IS_OPTIONAL:
        return IS_OPTIONAL if child == IS_REQUIRED else child
    raise ValueError(f"parent status {parent!r} must not be combined")


def own_status(expression: str, parent: Optional[str], soll_is_required: bool, evaluate: Evaluate
               ) -> Tuple[str, Optional[str], bool]:
    """-> (status, hints, invalid) of a segment-level node"""
    if parent == IS_FORBIDDEN:
        return IS_FORBIDDEN, None, False
    ev = evaluate(expression)
    if isinstance(ev, Invalid):
        return IS_OPTIONAL, ev.reason, True                      # C16: optional, the reason is the hint
    return spec_combine(parent, spec_map(ev.fulfilled, ev.indicator, soll_is_required)), ev.hints, False


# ------------------------------------------------------------------------------------------------ data elements
def is_value_pool(data_element: Any) -> bool:
    return hasattr(data_element, "value_pool")


def suffix(status: str, entered_input: Optional[str]) -> str:
    return status + ("_AND_FILLED" if entered_input else "_AND_EMPTY")   # None and "" are both "empty"


def freetext(d: Any, segment_status: Optional[str], soll_is_required: bool, evaluate: Evaluate) -> Entry:
    ev = evaluate(d.ahb_expression)
    if isinstance(ev, Invalid):
        # C16 fixes "optional with the reason as hint"; C13's suffix clause speaks about valid expressions only,
        # so the suffix is not fixed here (see status_agrees)
        return Entry(d.discriminator, IS_OPTIONAL,
                     {"kind": "freetext", "invalid": True, "hints": ev.reason, "entered": d.entered_input})
    st = spec_combine(segment_status, spec_map(ev.fulfilled, ev.indicator, soll_is_required))
    return Entry(d.discriminator, suffix(st, d.entered_input),
                 {"kind": "freetext", "invalid": False, "hints": ev.hints, "format_ok": ev.format_ok,
                  "format_message": ev.format_message, "entered": d.entered_input})


def selectable(expression: str, evaluate: Evaluate) -> bool:
    ev = evaluate(expression)
    return True if isinstance(ev, Invalid) else bool(ev.fulfilled)       # None (undetermined) is not "fulfilled"


def valuepool(d: Any, segment_status: Optional[str], evaluate: Evaluate) -> Entry:
    """C17. extras: offered (qualifiers in pool order), flagged (unexpected value), reset (entered_input is
    overwritten), entered_after (expected value of entered_input after the run)."""
    entered = d.entered_input
    if segment_status == IS_FORBIDDEN:
        offered: List[str] = []
    elif len(d.value_pool) == 1:
        offered = [d.value_pool[0].qualifier]                      # a single-entry pool always offers its entry
    else:
        offered = [e.qualifier for e in d.value_pool if selectable(e.ahb_expression, evaluate)]
    if not offered:
        status, flagged = VP_FORBIDDEN, False
    elif entered is not None and entered in offered:
        status, flagged = VP_FILLED, False
    elif entered:
        status, flagged = VP_EMPTY, True                           # unexpected: flagged and reported as empty
    else:
        status, flagged = VP_EMPTY, False
    return Entry(d.discriminator, status,
                 {"kind": "valuepool", "offered": offered, "flagged": flagged, "reset": flagged,
                  "entered": entered, "entered_after": None if flagged else entered})


def element(d: Any, segment_status: Optional[str], soll_is_required: bool, evaluate: Evaluate) -> Entry:
    if is_value_pool(d):
        return valuepool(d, segment_status, evaluate)
    return freetext(d, segment_status, soll_is_required, evaluate)


# ------------------------------------------------------------------------------------------------ C13: traversal
def flat_segment(s: Any, parent: Optional[str], soll_is_required: bool, evaluate: Evaluate) -> List[Entry]:
    own, hints, invalid = own_status(s.ahb_expression, parent, soll_is_required, evaluate)
    me = Entry(s.discriminator, own, {"kind": "segment", "hints": hints, "invalid": invalid})
    if own == IS_FORBIDDEN:
        return [me]                                                # nothing below a forbidden segment is reported
    return [me] + [element(d, own, soll_is_required, evaluate) for d in (s.data_elements or [])]


def flat_group(g: Any, parent: Optional[str], soll_is_required: bool, evaluate: Evaluate) -> List[Entry]:
    own, hints, invalid = own_status(g.ahb_expression, parent, soll_is_required, evaluate)
    out = [Entry(g.discriminator, own, {"kind": "group", "hints": hints, "invalid": invalid})]
    if own == IS_FORBIDDEN:
        return out                                                 # nothing below a forbidden group is reported
    for c in (g.segment_groups or []):                             # a group, then its sub-groups, …
        out += flat_group(c, own, soll_is_required, evaluate)
    for s in (g.segments or []):                                   # … then its segments each followed by its elements
        out += flat_segment(s, own, soll_is_required, evaluate)
    return out


def deep(ahb: Any, evaluate: Evaluate, soll_is_required: bool = True) -> List[Entry]:
    """Expected result of validating a deep AHB (raises Undetermined where the documented behaviour is
    NotImplementedError for the whole run)."""
    out: List[Entry] = []
    for g in ahb.lines:
        out += flat_group(g, None, soll_is_required, evaluate)
    return out


def segment_level(node: Any, evaluate: Evaluate, soll_is_required: bool = True, parent: Optional[str] = None
                  ) -> List[Entry]:
    if hasattr(node, "data_elements"):
        return flat_segment(node, parent, soll_is_required, evaluate)
    return flat_group(node, parent, soll_is_required, evaluate)


def count_nodes(ahb_or_node: Any) -> int:
    """number of groups + segments + data elements (for 'how much was pruned')"""
    if hasattr(ahb_or_node, "lines"):
        return sum(count_nodes(g) for g in ahb_or_node.lines)
    if hasattr(ahb_or_node, "data_elements"):
        return 1 + len(ahb_or_node.data_elements or [])
    return 1 + sum(count_nodes(c) for c in (ahb_or_node.segment_groups or [])) + \
        sum(count_nodes(s) for s in (ahb_or_node.segments or []))


# ------------------------------------------------------------------------------------------------ comparison
def status_agrees(entry: Entry, observed: str) -> bool:
    """Does the observed RequirementValidationValue (as string) satisfy what the statements fix for this node?"""
    kind = entry.extras["kind"]
    if kind in ("group", "segment"):
        return observed == entry.status
    if kind == "freetext":
        if entry.extras["invalid"]:                                # optional; a suffix, if given, must fit the input
            return observed in (IS_OPTIONAL, suffix(IS_OPTIONAL, entry.extras["entered"]))
        return observed == entry.status
    # value pool: FORBIDDEN-ness and the FILLED/EMPTY suffix; the REQUIRED/OPTIONAL prefix is not fixed
    forbidden = observed.startswith(IS_FORBIDDEN)
    if entry.status == VP_FORBIDDEN:
        return forbidden
    if forbidden:
        return False
    return observed.endswith("_AND_FILLED" if entry.status == VP_FILLED else "_AND_EMPTY")


# ------------------------------------------------------------------------------------------------ C14
def rewrite_soll(expression: str, soll_is_required: bool) -> str:
    """Textual replacement of every SOLL indicator (spellings Soll / S, any case) by MUSS resp. KANN.  Indicators are
    the alphabetic words outside square brackets; inside brackets only keys (digits, P, UB, dots) occur."""
    out: List[str] = []
    i, n, depth = 0, len(expression), 0
    while i < n:
        ch = expression[i]
        if ch == "[":
            depth += 1
        elif ch == "]":
            depth = max(0, depth - 1)
        if depth == 0 and ch.isalpha():
            j = i
            while j < n and expression[j].isalpha():
                j += 1
            word = expression[i:j]
            if word.upper() in ("S", "SOLL"):
                word = "Muss" if soll_is_required else "Kann"
            out.append(word)
            i = j
            continue
        out.append(ch)
        i += 1
    return "".join(out)


def has_soll(expression: str) -> bool:
    return rewrite_soll(expression, True) != expression
