"""regenerates seeded/SUMMARY.md from seeded/*/meta.json (all rounds)"""
import json, glob, os, re
rows = []
for f in sorted(glob.glob("/verif/seeded/*/meta.json")):
    m = json.load(open(f))
    sid = os.path.basename(os.path.dirname(f))
    by = set()
    for p, r in (m.get("our_checks") or {}).items():
        if r.get("exit") != 1:
            continue
        for l in [x for x in r.get("lines", []) if x.startswith("  obligation=")]:
            mm = re.search(r"obligation=C\d\d/([^:]+):", l)
            if mm:
                name = mm.group(1)
                kind = "bounded" if name.startswith("bounded/") else "enumeration" if name.startswith("enumeration/") \
                    else f"proof obligation {name}"
                by.add(f"{p}: {kind}" if p != m.get("property") else kind)
    def cell(s, n):
        s = " ".join(str(s).split()).replace("|", "/")
        return s[:n]
    rows.append(f"| {sid} | {cell(m.get('summary', ''), 260)} | {cell(m.get('needs_to_manifest', ''), 200)} | "
                f"{'; '.join(sorted(by)) or 'NOT REPORTED'} |")
out = ["| id | change (independent sub-agent) | needs, to manifest | reported by (quick tier) |", "|---|---|---|---|"] + rows
open("/verif/seeded/SUMMARY.md", "w").write("\n".join(out) + "\n")
print(len(rows), "rows;", sum("NOT REPORTED" in r for r in rows), "not reported")
