"""C05 - information-only elements never change the requirement: lemmas over the CONTRACTS of C03/C04 (proof) +
metamorphic bounded backstop."""
from checks.c04 import CALLBACKS, OPS
from checks.common import prove, prove_lemmas, run_bounded
from vlib.report import Ctx

LEVEL = "proof"


def run(ctx: Ctx) -> None:
    ctx.explanation = (
        "no new code is analysed: the state clauses of the callback contracts (re-proved here from the current source) "
        "carry lemmas L1 (hint and-ed onto an operand: same state, congruence for the enclosing composition and "
        "upwards), L2 (format constraint attached to a requirement-carrying operand), L4 (operand swap) and L5 "
        "(monotonicity in the information order: a definite outcome survives every resolution of UNKNOWN); redundant "
        "brackets are the bracket clause of C01 (the rule ?brackets is inlined, the tree is identical). "
        "Induction principle: A-LARK-FOLD.")
    ctx.trust("A-LARK-FOLD")
    prove(ctx, OPS + CALLBACKS)
    prove_lemmas(ctx, "contracts.c04_lemmas", [
        "l1_hint_onto_operand_keeps_state", "l1_hint_onto_operand_is_a_congruence", "upward_congruence",
        "upward_congruence_then", "l2_format_constraint_onto_requirement_operand", "l4_operand_swap",
        "l5_unknown_monotone", "l5_unknown_monotone_then"])
    prove_lemmas(ctx, "contracts.c03_lemmas", ["and_unknown_sound", "or_unknown_sound", "xor_unknown_sound",
                                              "and_commutative", "or_commutative", "xor_commutative"])
    run_bounded(ctx, "C05")
