"""C11 - parsing is a pure function of the string, whatever happened before: hybrid.

P (ownership obligations on the real AST of utility_functions.tree_copy.decorated, with Lark's own Tree.copy /
Tree.__deepcopy__ source executed by the same engine): the value handed to the caller is structurally the cached
tree, and no mutable object reachable from it is reachable from the cache.  With A-STDLIB(lru_cache: a hit returns the
stored object itself, a miss stores the returned object, eviction only removes) this gives the property for all
histories by induction on the history: callers can only mutate what they can reach.
B: history replay (parse / edit / parse, eviction) on the real parsers.
"""
from __future__ import annotations

import time
from pathlib import Path
from typing import Any, Dict, List, Set, Tuple

import z3

from checks.common import encapsulation_obligations, run_bounded, verifier
from pyvc import lists as L
from pyvc.state import Frame, State
from pyvc.values import (BuiltinV, ClassV, DictObj, Exc, FuncV, ListObj, Obj, Opaque, Ref, SV, Tup, Unsupported, mk_i,
                         mk_s, sv_none)
from vlib.report import Ctx

LEVEL = "other"
TARGET = "ahbicht.utility_functions:tree_copy"


def reach(st: State, v, skip_fields=("_meta",), acc: Set[int] = None) -> Set[int]:
    """oids of the MUTABLE objects reachable from v (Tree / Token instances and lists); `_meta` is not part of the
    structure (it is excluded from Tree.__eq__ as well)"""
    acc = set() if acc is None else acc
    if isinstance(v, Ref):
        if v.oid in acc:
            return acc
        acc.add(v.oid)
        o = st.heap[v.oid]
        if isinstance(o, Obj):
            for k, x in o.fields.items():
                if k not in skip_fields:
                    reach(st, x, skip_fields, acc)
        elif isinstance(o, ListObj):
            for seg in o.lt.segs:
                if isinstance(seg, L.Unit):
                    reach(st, seg.v, skip_fields, acc)
                elif isinstance(seg, L.MapSeg):
                    for u in seg.body.segs:
                        if isinstance(u, L.Unit):
                            reach(st, u.v, skip_fields, acc)
    elif isinstance(v, Tup):
        for x in v.items:
            reach(st, x, skip_fields, acc)
    return acc


def analyse(ctx: Ctx) -> None:
    v = verifier()
    ex = v.ex
    import lark.tree as lt_mod
    ex.repo.load_external("lark.tree", Path(lt_mod.__file__))
    saved_hooks = dict(ex.class_fields_hook)
    ex.class_fields_hook.pop("Tree", None)     # here Lark's real Tree.__init__ is executed
    mod, node, _ = ex.repo.function(TARGET)
    ctx.function_under_contract(TARGET + ".decorated", str(mod.path), node.lineno, ex.repo.source_of(mod, node), "P")
    tree_mod = ex.repo.modules["lark.tree"]
    tci = tree_mod.classes["Tree"]
    for m in ("copy", "__deepcopy__", "__init__"):
        ctx.function_under_contract(f"lark.tree:Tree.{m}", str(tree_mod.path), tci.methods[m].lineno,
                                    ex.repo.source_of(tree_mod, tci.methods[m]), "P (third-party source, read every run)")
    t0 = time.time()
    st = State()
    fid = ex.new_oid()
    st.frames[fid] = Frame(fid, mod, None, "c11:<harness>")
    st.stack.append(fid)
    # ---- ghost state: what the cache holds for this string: a Tree whose children are a symbolic sequence of
    # sub-trees / tokens (each of them a mutable object of the cache)
    n = ex.fresh_const("cached.children.len", z3.IntSort())
    st.assume(n >= 0)
    i = ex.fresh_const("cached.children.i", z3.IntSort())
    child = ex.alloc(st, Obj("Tree", {"data": SV(mk_s(ex.fresh_const("child.data", z3.StringSort())), "str"),
                                      "children": ex.alloc(st, ListObj(L.LT([]))), "_meta": sv_none()}, tag="cached-child"))
    children = ex.alloc(st, ListObj(L.LT([L.MapSeg(i, n, L.LT([L.Unit(child)]), "cached.children")])))
    meta = ex.alloc(st, Obj("Meta", {}, tag="cached-meta"))
    cached = ex.alloc(st, Obj("Tree", {"data": SV(mk_s(ex.fresh_const("cached.data", z3.StringSort())), "str"),
                                       "children": children, "_meta": meta}, tag="cached-root"))
    cache_reach = reach(st, cached)
    pre_existing = set(st.heap)

    # ---- library models used by `decorated`
    def lru_call(ex_, s, args, kwargs, fn):
        """A-STDLIB lru_cache: returns the stored object itself (hit) / the object it then stores (miss)"""
        return [(s, cached)]

    def cache_info(ex_, s, args, kwargs, fn):
        return [(s, Opaque("cache_info"))]

    def deepcopy(ex_, s, args, kwargs, fn):
        """A-STDLIB copy.deepcopy: uses __deepcopy__ when the class defines it; a list is copied element-wise into a
        NEW list; induction hypothesis for the elements of the symbolic child sequence: deepcopy of a cached sub-tree
        is a fresh, structurally equal sub-tree"""
        x = args[0]
        memo = args[1] if len(args) > 1 else sv_none()
        if isinstance(x, Ref):
            o = s.heap[x.oid]
            if isinstance(o, Obj) and o.tag == "cached-child":
                fresh = ex_.alloc(s, Obj("Tree", dict(o.fields), tag="fresh-copy-of-child(IH)"))
                s.heap[fresh.oid].fields["children"] = ex_.alloc(s, ListObj(L.LT([])))
                return [(s, fresh)]
            if isinstance(o, Obj) and o.cls == "Tree":
                fm = ex_.repo.find_method("Tree", "__deepcopy__")
                ci, nd = fm
                fv = FuncV(nd, ci.module, "lark.tree:Tree.__deepcopy__", bound_self=x, cls="Tree")
                return ex_.inline_call(fv, [memo], {}, s)
            if isinstance(o, ListObj):
                out_states = [(s, [])]
                new_segs = []
                for seg in o.lt.segs:
                    if isinstance(seg, L.MapSeg):
                        body = []
                        for u in seg.body.segs:
                            (s, c), = deepcopy(ex_, s, [u.v, memo], {}, fn)
                            body.append(L.Unit(c))
                        new_segs.append(L.MapSeg(seg.ivar, seg.n, L.LT(body), seg.src))
                    elif isinstance(seg, L.Unit):
                        (s, c), = deepcopy(ex_, s, [seg.v, memo], {}, fn)
                        new_segs.append(L.Unit(c))
                return [(s, ex_.alloc(s, ListObj(L.LT(new_segs))))]
        return [(s, x)]  # immutable scalars

    ex.library["lru()"] = lru_call
    ex.library["lru.cache_info()"] = cache_info
    ex.library["copy.deepcopy"] = deepcopy
    ex.library["type"] = lambda ex_, s, args, kwargs, fn: [(s, ClassV(s.heap[args[0].oid].cls))]
    ex.attr_library["lru.cache_info"] = lambda ex_, s, v_, attr: [(s, Opaque("lru.cache_info"))]
    ex.attr_library["cache_info.currsize"] = lambda ex_, s, v_, attr: [(s, SV(mk_i(ex_.fresh("currsize", z3.IntSort())), "int"))]
    obligations = {"result-root-is-fresh": "discharged", "result-shares-no-mutable-object-with-cache": "discharged",
                   "result-is-structurally-the-cached-tree": "discharged", "raises-nothing": "discharged"}
    detail: Dict[str, str] = {}
    try:
        fv = FuncV(node, mod, TARGET)
        (s1, decorated), = ex.inline_call(fv, [Opaque("lru")], {}, st)
        ex.inline_only.add(decorated.qualname)
        outcomes = ex.inline_call(decorated, [SV(mk_s(ex.fresh_const("expression", z3.StringSort())), "str")], {}, s1)
        n_paths = 0
        for s, res in outcomes:
            if not ex.feasible(s.pc):
                continue
            n_paths += 1
            if isinstance(res, Exc):
                obligations["raises-nothing"] = "violated"
                detail["raises-nothing"] = f"raises {res.cls}"
                continue
            if not isinstance(res, Ref):
                obligations["result-is-structurally-the-cached-tree"] = "violated"
                detail["result-is-structurally-the-cached-tree"] = f"returns {res!r}"
                continue
            if res.oid in pre_existing:
                obligations["result-root-is-fresh"] = "violated"
                detail["result-root-is-fresh"] = "the cached tree itself is handed to the caller"
            shared = (reach(s, res) & cache_reach)
            if shared:
                what = sorted(f"{type(s.heap[o]).__name__}:{getattr(s.heap[o], 'tag', None) or ''}" for o in shared)
                obligations["result-shares-no-mutable-object-with-cache"] = "violated"
                detail["result-shares-no-mutable-object-with-cache"] = \
                    f"reachable from both the result and the cache: {what}"
            ro = s.heap[res.oid]
            ok_struct = isinstance(ro, Obj) and ro.cls == "Tree" and z3.is_true(z3.simplify(
                ex.eq(s, ro.fields["data"], s.heap[cached.oid].fields["data"])))
            rc = s.heap[ro.fields["children"].oid].lt if ok_struct and isinstance(ro.fields.get("children"), Ref) else None
            cc = s.heap[children.oid].lt
            if not (ok_struct and rc is not None and len(rc.segs) == len(cc.segs) == 1
                    and isinstance(rc.segs[0], L.MapSeg) and z3.eq(rc.segs[0].n, cc.segs[0].n)):
                obligations["result-is-structurally-the-cached-tree"] = "violated"
                detail["result-is-structurally-the-cached-tree"] = "data / number of children differ from the cached tree"
        if n_paths == 0:
            for k in obligations:
                obligations[k] = "undecided"
                detail[k] = "no feasible path (checker problem)"
    except Unsupported as u:
        for k in obligations:
            obligations[k] = "undecided"
            detail[k] = f"unsupported: {u}"
    finally:
        ex.class_fields_hook.clear()
        ex.class_fields_hook.update(saved_hooks)
    dt = time.time() - t0
    for k, stt in obligations.items():
        ctx.obligation(f"tree_copy.decorated/{k}", stt, backend="pyvc object-graph analysis", seconds=dt / 4,
                       detail=detail.get(k))
        if stt == "violated":
            witness = {"history": ["for s in ('[1]', '[1] U [2]', 'Muss [1] Kann'): t = parse(s)",
                                   "replace / append children of t and of its sub-trees in place", "parse(s) again"]}
            bad, msg = replay_history()
            ctx.violation(f"tree_copy.decorated/{k}", f"{detail.get(k)}; {msg}", witness=witness if bad else None,
                          replayed=bool(bad), signature=f"tree_copy/{k}",
                          replay_code="see witness.history (parse / edit / parse on the real parser)")
    ctx.trust("A-STDLIB functools.lru_cache: a hit returns the stored object itself, a miss stores the returned object, "
              "eviction only removes", "A-STDLIB copy.deepcopy dispatches to __deepcopy__ and copies lists element-wise",
              "induction hypothesis: deepcopy of a cached sub-tree is fresh (same obligation one level down)")


def replay_history() -> Tuple[bool, str]:
    """the generic witness of an ownership violation, replayed on the real parsers: parse, edit the returned tree in
    place (at the root and one level down), parse the same string again - for a flat, a nested and an AHB expression"""
    from lark import Token, Tree

    from ahbicht.expressions import ahb_expression_parser as ap
    from ahbicht.expressions import condition_expression_parser as cp
    for parse, raw, s in ((cp.parse_condition_expression_to_tree, cp._parser, "[1]"),
                          (cp.parse_condition_expression_to_tree, cp._parser, "[1] U [2]"),
                          (ap.parse_ahb_expression_to_single_requirement_indicator_expressions, ap._parser, "Muss [1] Kann")):
        ref = raw.parse(s)
        t = parse(s)
        for sub in [t] + [c for c in t.children if isinstance(c, Tree)]:
            if sub.children:
                sub.children[0] = Token("CONDITION_KEY", "777")
            sub.children.append(Token("CONDITION_KEY", "888"))
        t2 = parse(s)
        if t2 != ref:
            return True, f"replay on the real code: after editing a returned tree in place, parse({s!r}) returns {t2!r}"
    return False, "replay on the real code: the edited trees did not leak into later parses"


def run(ctx: Ctx) -> None:
    ctx.explanation = (
        "PROVED (object-graph analysis by the same symbolic executor, over the real AST of tree_copy.decorated and "
        "Lark's Tree.copy / Tree.__deepcopy__ / Tree.__init__ read from the installed package): on every path the "
        "returned root is allocated inside the call, structurally equal to the cached tree (data, number of children), "
        "and no mutable object reachable from it (children lists, sub-trees) is reachable from the cache; `_meta` is "
        "shared but is not part of the structure. Ghost state: the cache as a map str -> object graph; invariant "
        "'cached graphs are unreachable from callers' is preserved by every call, hence holds after every history. "
        "BOUNDED: parse / edit / parse histories incl. eviction on the real parsers.")
    analyse(ctx)
    encapsulation_obligations(ctx)
    run_bounded(ctx, "C11")
