"""Contracts of ahbicht.expressions.expression_resolver (C02 exception flow, C10 time conditions / packages / order) and
of content_evaluation.is_valid_expression (C02, C06)."""
import z3

from pyvc import assumed
from pyvc.contracts import AnyOf, Bool, Const, Inst, Opt, Raw, SeqOf, Str, contract
from pyvc.values import CoroV, ListObj, Obj, Opaque, Ref, Sc, SV, Tup, mk_s, sv_none
from pyvc import lists as L

R = "ahbicht.expressions.expression_resolver:"


def tree():
    return Raw(lambda ex, st, name: Opaque("inst:Tree"))


# ---- lark classes constructed by the code ----------------------------------------------------------------------------------
def _by_signature(names, args, kwargs):
    """positional / keyword binding of lark's `Tree(data, children, meta=None)` and `Token(type, value, ...)`; a missing
    or doubly given argument is a TypeError in CPython: outside the model (Unsupported => undecided)"""
    from pyvc.values import Unsupported
    bound = dict(zip(names, args))
    for k, v in kwargs.items():
        if k in bound or k not in names:
            raise Unsupported(f"lark constructor called with a doubly given / unknown argument {k!r}")
        bound[k] = v
    if any(n not in bound for n in names):
        raise Unsupported("lark constructor called without one of its required arguments")
    return bound


def _mk_tree(ex, st, args, kwargs):
    b = _by_signature(["data", "children"], args, kwargs)
    return [(st, ex.alloc(st, Obj("Tree", {"data": b["data"], "children": b["children"]})))]


def _mk_token(ex, st, args, kwargs):
    b = _by_signature(["type", "value"], args, kwargs)
    return [(st, ex.alloc(st, Obj("Token", {"type": b["type"], "value": b["value"]})))]


assumed.CLASS_HOOKS["Tree"] = _mk_tree
assumed.CLASS_HOOKS["Token"] = _mk_token
assumed.FOLD_RESULT["AhbExpressionResolverTransformer"] = tree
assumed.FOLD_RESULT["PackageExpansionTransformer"] = tree
assumed.FOLD_RESULT["TimeConditionTransformer"] = tree


@contract(R + "AhbExpressionResolverTransformer.CONDITION_EXPRESSION", prop=["C02"])
class ResolveConditionExpression:
    """the token's text is parsed as a condition expression: SyntaxError for a malformed one"""
    params = dict(self=Inst("AhbExpressionResolverTransformer"), expression=Inst("Token", value=Str(), type=Str()))
    raises = {"SyntaxError": None}
    returns = tree()

    def post_parses_the_token_text(self, expression, result, ghost_ParseCondition_condition_expression,
                                   ghost_ParseCondition_result):
        return ghost_ParseCondition_condition_expression == expression.value and result is ghost_ParseCondition_result


# ---- time conditions -------------------------------------------------------------------------------------------------------
def _one_token(values):
    def mk(ex, st, name):
        tok = Inst("Token", value=AnyOf(*[Const(v) for v in values]), type=Const("TIME_CONDITION_KEY")).make(ex, st, name)
        return ex.alloc(st, ListObj(L.LT.of([tok])))
    return Raw(mk)


@contract(R + "TimeConditionTransformer.time_condition", prop=["C10"])
class TimeCondition:
    """[UB1] -> [932], [UB2] -> [934], [UB3] -> the parse of ([932][492]X[934][493]); the grammar only delivers
    UB1..UB3 (TIME_CONDITION_KEY), for which nothing is raised"""
    params = dict(self=Inst("TimeConditionTransformer"), tokens=_one_token(["UB1", "UB2", "UB3"]))
    raises = {}

    def post_documented_replacement(self, tokens, result, ghost_ParseCondition_condition_expression,
                                    ghost_ParseCondition_result):
        key = tokens[0].value
        if key == "UB1":
            return result.data == "condition" and len(result.children) == 1 \
                and result.children[0].type == "CONDITION_KEY" and result.children[0].value == "932"
        if key == "UB2":
            return result.data == "condition" and len(result.children) == 1 \
                and result.children[0].type == "CONDITION_KEY" and result.children[0].value == "934"
        return ghost_ParseCondition_condition_expression == "[932][492]X[934][493]" \
            and result is ghost_ParseCondition_result

    def setup(ex, st, values):
        st.ghost["ParseCondition_condition_expression"] = sv_none()
        st.ghost["ParseCondition_result"] = sv_none()


@contract(R + "expand_time_conditions", prop=["C10", "C02"])
class ExpandTimeConditions:
    params = dict(parsed_tree=tree())
    raises = {}
    returns = tree()
    never_raises = ["VisitError"]


# ---- packages --------------------------------------------------------------------------------------------------------------
def _provider_attr(ex, st, v, attr):
    return [(st, Opaque(f"{v.tag}.{attr}", v.data))]


def _get_package_resolver(ex, st, args, kwargs, fn):
    """user-supplied TokenLogicProvider: returns a PackageResolver or raises NotImplementedError (documented)"""
    return [ex.raise_(st.fork(), "NotImplementedError", None), (st, Opaque("inst:PackageResolver"))]


def _get_condition_expression(ex, st, args, kwargs, fn):
    st.ghost["resolver_asked_for"] = args[0]
    return [(st, CoroV(Opaque("package-resolver-run"), list(args), {}))]


def _package_resolver_run(ex, st, args, kwargs, fn):
    """user-supplied PackageResolver.get_condition_expression: a mapping whose package_expression is a str or None,
    or any exception"""
    m = Inst("PackageKeyConditionExpressionMapping", package_key=Str(), package_expression=Opt(Str())).make(
        ex, st, "resolved_package")
    st.ghost["resolved_package_expression"] = st.heap[m.oid].fields["package_expression"]
    return [ex.raise_(st.fork(), "Exception", None), (st, m)]


assumed.LIBRARY["inst:TokenLogicProvider.get_package_resolver()"] = _get_package_resolver
assumed.LIBRARY["inst:PackageResolver.get_condition_expression()"] = _get_condition_expression
assumed.LIBRARY["package-resolver-run()"] = _package_resolver_run


@contract(R + "PackageExpansionTransformer._package_async", prop=["C10"])
class PackageAsync:
    """asks the resolver for exactly this package key; NotImplementedError iff the resolver knows no expression;
    otherwise the parse of exactly that expression"""
    params = dict(self=Inst("PackageExpansionTransformer", token_logic_provider=Raw(
        lambda ex, st, n: Opaque("inst:TokenLogicProvider"))),
        package_key_token=Inst("Token", value=Str(), type=Const("PACKAGE_KEY")),
        evaluatable_data=Raw(lambda ex, st, n: Opaque("inst:EvaluatableData")))
    raises = {"NotImplementedError": None, "Exception": None, "SyntaxError": None}
    clause_props = {"post_parse_of_the_resolved_expression": ["C10"], "post_unknown_package_never_returns": ["C10"],
                    "raises-only-declared": ["C10"]}

    def post_parse_of_the_resolved_expression(self, package_key_token, result, ghost_resolver_asked_for,
                                              ghost_resolved_package_expression,
                                              ghost_ParseCondition_condition_expression, ghost_ParseCondition_result):
        return ghost_resolver_asked_for == package_key_token.value \
            and ghost_ParseCondition_condition_expression == ghost_resolved_package_expression \
            and result is ghost_ParseCondition_result

    def post_unknown_package_never_returns(self, package_key_token, result, ghost_resolved_package_expression):
        return ghost_resolved_package_expression is not None


@contract(R + "expand_packages", prop=["C10", "C02"])
class ExpandPackages:
    """lark's VisitError never escapes; an unknown package surfaces as NotImplementedError"""
    params = dict(parsed_tree=tree())
    raises = {"NotImplementedError": None, "Exception": None, "ValueError": None, "SyntaxError": None}
    returns = tree()
    never_raises = ["VisitError"]


@contract(R + "_replace_sub_coroutines_with_awaited_results", prop=["C10", "C12"])
class ReplaceSubCoroutines:
    """modular view only (the function mutates a tree under two live lark generators: bounded, see C10/C12)"""
    params = dict(tree=tree())
    raises = {"NotImplementedError": None, "Exception": None, "SyntaxError": None}
    returns = tree()


# ---- is_valid_expression (C02, C06) ------------------------------------------------------------------------------------------
from specs.ghost import ev_invalid  # noqa: E402

assumed.LIBRARY["setter()"] = lambda ex, st, args, kwargs, fn: [(st, sv_none())]


def _str_or_tree_cases():
    return [dict(expression_or_tree=Str(), content_evaluation_result_setter=Raw(lambda ex, st, n: Opaque("setter"))),
            dict(expression_or_tree=Raw(lambda ex, st, n: Opaque("inst:Tree", Str().make(ex, st, "expr_of_tree"))),
                 content_evaluation_result_setter=Raw(lambda ex, st, n: Opaque("setter")))]


@contract("ahbicht.content_evaluation:is_valid_expression", prop=["C02", "C06"])
class IsValidExpression:
    """malformed input -> (False, message) (C02); an InvalidExpressionError of any generated evaluation ->
    (False, reason); otherwise (True, None); InvalidExpressionError / SyntaxError never escape"""
    cases = _str_or_tree_cases()
    raises = {"Exception": None, "NotImplementedError": None}
    # `Exception` stands for what user-supplied evaluators raise (modelled as that very class); ValueError also is the
    # rejection of a key outside every number range (C18: 'Muss [0]'), so it cannot be forbidden here
    never_raises = ["SyntaxError", "VisitError", "UnboundLocalError", "NameError", "AttributeError", "IndexError"]
    clause_props = {"post_shape": ["C02", "C06"], "post_reported_invalid_is_invalid": ["C06"],
                    "post_invalid_is_reported": ["C06"], "raises-only-declared": ["C02", "C06"],
                    "post_keys_are_sanitised_before_generation": ["C06", "C18"]}

    def post_keys_are_sanitised_before_generation(expression_or_tree, content_evaluation_result_setter, result,
                                                  ghost_ExtractFromList_sanitize, ghost_raised_SyntaxError):
        """call-site obligation: generate_possible_content_evaluation_results needs distinct keys (with a repeated
        key it generates nothing and every invalid expression would pass); sanitize=True guarantees them"""
        return ghost_raised_SyntaxError or ghost_ExtractFromList_sanitize is True

    def setup(ex, st, values):
        from pyvc.values import SV, mk_i, sv_bool
        st.ghost["generated_count"] = SV(mk_i(0), "int")
        st.ghost["raised_SyntaxError"] = sv_bool(False)
        st.ghost["ExtractFromList_sanitize"] = sv_none()
        v = values["expression_or_tree"]
        st.ghost["ResolverModular_expression"] = v.data if isinstance(v, Opaque) else v

    def post_shape(expression_or_tree, content_evaluation_result_setter, result):
        ok, msg = result
        if ok is True:
            return msg is None
        return ok is False and isinstance(msg, str)

    def post_reported_invalid_is_invalid(expression_or_tree, content_evaluation_result_setter, result,
                                         ghost_ResolverModular_expression, ghost_raised_SyntaxError):
        """(False, reason) only for malformed input or for an expression whose evaluation raises the invalid-expression
        error (structural, C06)"""
        ok, msg = result
        if ok is True or ghost_raised_SyntaxError:
            return True
        return ev_invalid(ghost_ResolverModular_expression)

    def post_invalid_is_reported(expression_or_tree, content_evaluation_result_setter, result,
                                 ghost_ResolverModular_expression, ghost_generated_count, ghost_raised_SyntaxError):
        """an invalid expression is reported as soon as at least one content evaluation result is generated for it
        (generate_possible_content_evaluation_results: bounded-validated)"""
        ok, msg = result
        if ghost_raised_SyntaxError or not ev_invalid(ghost_ResolverModular_expression) or ghost_generated_count < 1:
            return True
        return ok is False
