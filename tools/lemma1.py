"""dev helper: verify one lemma   usage: lemma1.py contracts.c04_lemmas:step_and"""
import time, sys
from checks.common import load_sidecars, verifier, _lemma_worker
load_sidecars()
k=sys.argv[1]
t=time.time()
rec=_lemma_worker(k)
print(rec['name'], rec['status'], 'paths', rec['paths'], round(time.time()-t,1), 's', (rec['detail'] or '')[:300], rec['witness'] if rec['status']=='violated' else '')
