"""C20 - shipped date-time format constraints judge the instant, not its notation: hybrid.
P: the six functions over (instant, offset) pairs given A-DATETIME / A-PYTZ.  X: pytz table = EU rule (complete, in the
bounded module).  B: ISO notations through the real fromisoformat (bounded sweep), malformed / edge strings."""
from checks.common import prove, prove_lemmas, run_bounded
from vlib.report import Ctx

LEVEL = "other"
G = "ahbicht.content_evaluation.german_strom_and_gas_tag:"
FE = "ahbicht.content_evaluation.fc_evaluators:FcEvaluator."
TARGETS = [G + f for f in ("is_stromtag_limit", "is_gastag_limit", "parse_as_datetime", "is_xtag_limit",
                           "has_no_utc_offset")] + [FE + f"evaluate_93{i}" for i in range(1, 6)]


def run(ctx: Ctx) -> None:
    ctx.explanation = (
        "PROVED (z3, integer arithmetic) over the view 'aware datetime = (instant u, written offset o)': "
        "is_stromtag_limit / is_gastag_limit are (u + eu_offset(u)) mod 86400 = 0 / 21600 - the written offset does not "
        "occur (also posed relationally: equal instants give equal verdicts); is_xtag_limit dispatches on the "
        "division, is fulfilled only for a parsable aware limit instant, carries a message iff unfulfilled and raises "
        "nothing (an OverflowError of the conversion is reported as unfulfilled); has_no_utc_offset is fulfilled iff "
        "the written offset is zero; evaluate_932/933 use 'Strom', 934/935 'Gas', 931 has_no_utc_offset. ASSUMED: "
        "A-DATETIME (fromisoformat / astimezone / time), A-PYTZ (Berlin offset = eu_offset, checked completely against "
        "pytz's transition table by the bounded part). BOUNDED: the string side (ISO notations, malformed and edge "
        "strings) through the real datetime.fromisoformat.")
    ctx.trust("A-DATETIME", "A-PYTZ (table checked completely each run)")
    prove(ctx, TARGETS)
    prove_lemmas(ctx, "contracts.datetime_fc")
    run_bounded(ctx, "C20")
